"""Atom pool of the C01/C02/C20 program language: unit-generator classes used as opaque
constructors. Pure data (no sc3 import): module, constructor names, number of inputs,
number of result channels.  Purity / multi-out / width-first / check kind are read from the
real classes at run time by harness/impl/c01.py and passed to the model as flags."""

POOL = {
    # name: (module, ctors, nargs, nres)
    'SinOsc': ('oscillators', ['ar', 'kr'], 2, 1),
    'LFSaw': ('oscillators', ['ar', 'kr'], 2, 1),
    'LFPulse': ('oscillators', ['ar', 'kr'], 3, 1),
    'Impulse': ('oscillators', ['ar', 'kr'], 2, 1),
    'K2A': ('line', ['ar'], 1, 1),
    'A2K': ('line', ['kr'], 1, 1),
    'LinExp': ('line', ['ar', 'kr'], 5, 1),
    'DC': ('line', ['ar', 'kr'], 1, 1),
    'Line': ('line', ['ar', 'kr'], 4, 1),
    'XLine': ('line', ['ar', 'kr'], 4, 1),
    'WhiteNoise': ('noise', ['ar', 'kr'], 0, 1),
    'Dust': ('noise', ['ar', 'kr'], 1, 1),
    'LFNoise0': ('noise', ['ar', 'kr'], 1, 1),
    'Rand': ('noise', ['new'], 2, 1),
    'Pan2': ('pan', ['ar', 'kr'], 3, 2),
    'Balance2': ('pan', ['ar', 'kr'], 4, 2),
    'RandSeed': ('noise', ['ar', 'kr', 'ir'], 2, 0),
    'RandID': ('noise', ['kr', 'ir'], 1, 0),
    # demand-rate units (pulled by Duty / arithmetic on demand sources runs at demand rate)
    'Dwhite': ('demand', ['dr'], 3, 1),
    'Dseries': ('demand', ['dr'], 3, 1),
    'Duty': ('demand', ['ar', 'kr'], 4, 1),
    # FFT chain units: width-first SynthObjects (not UGens), usable only as chain arguments
    'FFT': ('fft', ['kr'], 6, 1),
    'PV_MagAbove': ('fft', ['new'], 2, 1),
    'PV_BrickWall': ('fft', ['new'], 2, 1),
    'PV_MagMul': ('fft', ['new'], 2, 1),
    'IFFT': ('fft', ['ar'], 3, 1),
}
# unit input j is constructor argument PERM[cls][j] (documented input order of the unit)
PERM = {'Dseries': [2, 0, 1], 'Dwhite': [2, 0, 1], 'Duty': [0, 1, 3, 2]}


def unit_inputs(cls, args):
    p = PERM.get(cls)
    return [args[j] for j in p] if p and len(args) == len(p) else list(args)


DEMAND_CLASSES = {'Dwhite', 'Dseries', 'Duty'}
CHAIN_CLASSES = {'FFT', 'PV_MagAbove', 'PV_BrickWall', 'PV_MagMul', 'IFFT'}
PURE_HINT = {'SinOsc', 'LFSaw', 'LFPulse', 'Impulse', 'K2A', 'A2K', 'LinExp', 'DC'}
RATE_CONSTRAINED = {'Pan2', 'Balance2'}          # `_check_n_inputs`: may reject valid-looking programs
UNOPS_OPAQUE = ['abs', 'squared', 'midicps', 'reciprocal']
BINOPS_ARITH = ['add', 'sub', 'mul', 'truediv']
BINOPS_OPAQUE = ['pow', 'mod', 'floordiv']
