"""C11 — Routines, conditions and flow variables obey their state machine."""
import itertools

from harness import common

VALS = ['N', 'n0', 'n1', 'n1', 'n2', 'n3', 'bT', 'H']
ROPS = ['play', 'pause', 'resume', 'stop', 'reset']


def act_tokens(a):
    return ' '.join(str(t) for t in a)


def to_lines(case):
    lines = ['reset', f'dims {len(case["rts"])} {case["nc"]} {case["nf"]}',
             f'extclock {"T" if case.get("clock", "sys") != "sys" else "F"}']
    for i, r in enumerate(case['rts']):
        body = ' ; '.join(act_tokens(a) for a in r['script'])
        lines.append(f'rt {i} {"gen" if r["gen"] else "fun"} {"inval" if r["inval"] else "noinval"} {body}')
    for x in case['ops']:
        lines.append('x ' + act_tokens(x))
    return lines


# ---- the documented transition table (the spec the oracle checks against) ----------------------
def table_rop(state, op):
    """-> (refused, new_state)"""
    if op == 'play':
        return False, 'Suspended' if state in ('Init', 'Paused') else state
    if op == 'pause':
        if state == 'Running':
            return True, state
        return False, 'Paused' if state in ('Init', 'Suspended') else state
    if op == 'resume':
        return False, 'Suspended' if state == 'Paused' else state
    if op == 'stop':
        return (True, state) if state == 'Running' else (False, 'Done')
    if op == 'reset':
        return (True, state) if state == 'Running' else (False, 'Init')
    raise ValueError(op)


STOPLIKE = ('StopStream', 'PausedStream')


class Violation(Exception):
    def __init__(self, sig, what):
        self.sig, self.what = sig, what


class Oracle:
    """Replays the observations of one case against the documented behaviour: transition table,
    sticky terminal states, current-thread stack discipline, wake-up accounting of the scheduler,
    conditions and flow variables.  Knows the scripts and the ops, never looks at the Lean model."""

    def __init__(self, case):
        self.case = case
        n = len(case['rts'])
        self.state = ['Init'] * n
        self.terminal = [None] * n          # None = nothing recorded, else token
        self.now = 0
        self.queue = []                     # (time, seq, rid)
        self.seq = 0
        self.waiting = [[] for _ in range(case['nc'])]
        self.fwaiting = [[] for _ in range(case['nf'])]
        self.test = [False] * case['nc']
        self.fval = [None] * case['nf']
        self.stack = []                     # routines whose body is executing (outermost first)
        self.clk = [0] * n                  # `_clock` of each routine: 0 = SystemClock, 1 = the case's other clock
        self.ext_clk = 1 if case.get('clock', 'sys') != 'sys' else 0

    def bad(self, sig, what):
        raise Violation(sig, what)

    def push(self, rid, at=None, clk=None):
        # one pending wake-up per (routine, clock): scheduling again replaces the older one (as in RT queues)
        clk = self.clk[rid] if clk is None else clk
        self.queue = [e for e in self.queue if (e[2], e[3]) != (rid, clk)]
        self.queue.append((self.now if at is None else at, self.seq, rid, clk)); self.seq += 1

    def release(self, lst):
        for r in lst:
            self.push(r)
        del lst[:]

    def expect_exit(self, r, ex):
        """(result token, state after) for a body of routine r that left as record `ex` says."""
        gen = self.case['rts'][r]['gen']
        kind = ex[2]
        if kind == 'yield':
            return 'v:' + ex[3], 'Suspended'
        if kind == 'return':
            return ('e:StopStream', 'Done') if gen else ('v:N', 'Done')
        if kind == 'raise':
            return 'e:ValueError', 'Done'
        if kind == 'raiseb':
            return 'e:' + ex[3], 'Done'
        if kind == 'rstop':
            return ('e:RuntimeError' if gen else 'e:StopStream'), 'Done'
        if kind == 'yar':
            return 'v:' + ex[3], 'Init'
        if kind == 'ay':
            return 'v:' + ex[3], 'Done'
        if kind == 'prop':
            e = ex[3]
            if gen and e in STOPLIKE:
                e = 'RuntimeError'
            return 'e:' + e, 'Done'
        if kind in ('wait', 'fvwait'):
            return ('v:n0' if ex[4] else 'v:H'), 'Suspended'
        self.bad('c11:harness', f'unknown exit record {ex}')

    def actor(self):
        return f'r{self.stack[-1]}' if self.stack else 'M'

    def do_rop(self, actor, t, o, before, refused, after):
        if actor != self.actor():
            self.bad('c11:current_tt', f'{o} on r{t} issued by {self.actor()} but observed actor {actor}')
        if before != self.state[t]:
            self.bad('c11:table:untracked', f'r{t} was {self.state[t]} after its last operation, now {before}')
        exp_ref, exp_after = table_rop(before, o)
        if (refused, after) != (exp_ref, exp_after):
            self.bad(f'c11:table:{o}', f'{o}() on a {before} routine: refused={refused}, state {after}; '
                                        f'documented: refused={exp_ref}, state {exp_after}')
        self.state[t] = after
        if not refused:
            if o == 'play' and before in ('Init', 'Paused'):
                # play() without a clock uses the current thread's; the outside passes the case's clock
                self.clk[t] = self.clk[self.stack[-1]] if self.stack else self.ext_clk
                self.push(t)
            if o == 'resume' and before == 'Paused':
                self.push(t)
            if o in ('stop', 'reset'):
                self.clk[t] = 0
            if o == 'reset':
                self.terminal[t] = None

    def replay_records(self, recs):
        """Walk the chronological records of one external op."""
        frames = []     # open calls: dict(target, before, entered, last_exit)
        for rec in recs:
            k = rec[0]
            if k == 'call':
                _, actor, t, before = rec
                if self.tick_of is not None and not frames and actor == 'M' and t == self.tick_of[1]:
                    self.tick_called = True
                if actor != self.actor():
                    self.bad('c11:current_tt', f'next() on r{t} called from the body of {self.actor()} '
                                               f'but main.current_tt was {actor}')
                if before != self.state[t]:
                    self.bad('c11:table:untracked', f'r{t} was {self.state[t]} after its last operation, now {before}')
                enters = before in ('Init', 'Suspended')
                frames.append({'t': t, 'before': before, 'enters': enters, 'exit': None, 'active': False})
                if enters:
                    self.state[t] = 'Running'
                    self.stack.append(t)
            elif k == 'act' or k == 'exit':
                r = rec[1]
                if not frames or frames[-1]['t'] != r or not frames[-1]['enters']:
                    before = frames[-1]['before'] if frames and frames[-1]['t'] == r else self.state[r]
                    sig = {'Done': 'c11:sticky', 'Paused': 'c11:paused', 'Running': 'c11:reentrant-next'}.get(before, 'c11:current_tt')
                    self.bad(sig, f'body of r{r} ran although next() must not enter a {before} routine')
                frames[-1]['active'] = True
                if k == 'exit':
                    frames[-1]['exit'] = rec
                    if rec[2] in ('wait', 'fvwait') and not rec[4]:
                        (self.waiting if rec[2] == 'wait' else self.fwaiting)[rec[3]].append(self.stack[0])
            elif k == 'ret':
                _, actor, t, res, after, cur_after, secs_same, parent_after = rec
                if not frames or frames[-1]['t'] != t:
                    self.bad('c11:harness', f'unbalanced ret record {rec}')
                f = frames.pop()
                if f['enters']:
                    self.stack.pop()
                if cur_after != actor or actor != self.actor():
                    self.bad('c11:current_tt', f'after r{t}.next() returned to {self.actor()} '
                                               f'main.current_tt is {cur_after} (was {actor} at the call)')
                if not secs_same:
                    self.bad('c11:current_tt:time', f"caller's logical time changed across r{t}.next()")
                if f['enters'] and parent_after != 'None':
                    self.bad('c11:current_tt:parent', f'r{t}.parent is {parent_after} after next() exited')
                b = f['before']
                if b == 'Paused':
                    exp = ('e:PausedStream', 'Paused')
                elif b == 'Done':
                    tv = self.terminal[t]
                    exp = ('e:StopStream' if tv is None else 'v:' + tv, 'Done')
                elif b == 'Running':
                    exp = ('e:RoutineException', 'Running')
                else:
                    if f['exit'] is None:
                        self.bad('c11:table:next', f'next() entered r{t} but its body reported no exit ({res})')
                    exp = self.expect_exit(t, f['exit'])
                    ex = f['exit']
                    gen = self.case['rts'][t]['gen']
                    if (ex[2] == 'return' and gen) or (not gen and (ex[2] == 'rstop' or
                                                                    (ex[2] == 'prop' and ex[3] in STOPLIKE))):
                        self.clk[t] = 0          # the StopIteration / StopStream clauses restore the default clock
                    if ex[2] == 'ay':
                        self.terminal[t] = ex[3]
                    elif ex[2] == 'return' and not self.case['rts'][t]['gen']:
                        self.terminal[t] = 'N'
                if (res, after) != exp:
                    sig = {'Paused': 'c11:paused', 'Done': 'c11:sticky', 'Running': 'c11:reentrant-next'}.get(b, 'c11:table:next')
                    note = ''
                    if b == 'Running':
                        note = (' — a re-entrant next() (from inside the routine or from something it runs) must be '
                                'refused like stop/pause/reset; entering overwrites r.parent, so main.current_tt is '
                                'wrong (None) once the outer call exits')
                    if b == 'Done':
                        note = (f' — the routine ended this life with terminal value {self.terminal[t]} recorded '
                                '(None = nothing recorded since the last reset)')
                    self.bad(sig, f'next() on a {b} routine r{t}: got {res}, state {after}; documented: '
                                  f'{exp[0]}, state {exp[1]}'
                                  + (f' (body left by {f["exit"][2:]})' if f['exit'] else '') + note)
                if not f['enters'] and f['active']:
                    self.bad('c11:sticky', f'body of {b} routine r{t} ran')
                self.state[t] = after
                self.last_res = res
            elif k == 'rop':
                self.do_rop(*rec[1:])
            elif k == 'tick':
                _, rid, time = rec
                if not self.queue:
                    self.bad('c11:sched', f'tick woke r{rid} at {time} but nothing was scheduled')
                e = min(self.queue)
                if (e[0], e[2]) != (time, rid):
                    self.bad('c11:sched', f'tick woke r{rid} at {time}; next due is r{e[2]} at {e[0]}')
                self.queue.remove(e)
                self.now = time
                self.tick_of = (time, rid, e[3])
                self.tick_called = False
            elif k == 'sig':
                if self.test[rec[1]]:
                    self.release(self.waiting[rec[1]])
            elif k == 'unh':
                self.release(self.waiting[rec[1]])
            elif k == 'test':
                self.test[rec[1]] = rec[2]
            elif k == 'fvread':
                if rec[2] != (self.fval[rec[1]] or 'U'):
                    self.bad('c11:flowvar', f'FlowVar f{rec[1]} read as {rec[2]}, bound value {self.fval[rec[1]]}')
            elif k == 'fvset':
                _, f, v, rebind = rec
                if rebind != (self.fval[f] is not None):
                    self.bad('c11:flowvar', f'FlowVar f{f} (value {self.fval[f]}) assignment: rebind={rebind}')
                if not rebind:
                    self.fval[f] = v
                    self.release(self.fwaiting[f])
        if frames or self.stack:
            self.bad('c11:harness', 'records of an op end inside a call')

    def check_op(self, i, x, out):
        line = out['line']
        res, log, snap = line.split('|', 2)
        self.last_res, self.tick_of, self.tick_called = None, None, False
        recs = list(out['x'])
        # ops that carry no record of their own
        if x[0] == 'sig':
            recs = [['sig', x[1]]]
        elif x[0] == 'unh':
            recs = [['unh', x[1]]]
        elif x[0] == 'test':
            recs = [['test', x[1], x[2] == 'T']]
        elif x[0] == 'fvset':
            recs = [['fvset', x[1], x[2], res == 'e:Exception']]
        if res.startswith('CRASH') or res.startswith('HANG'):
            self.bad('c11:crash', f'op #{i} {x}: the library crashed or hung outside a guarded call: {res}')
        self.replay_records(recs)
        if x[0] == 'next' and res != self.last_res:
            self.bad('c11:harness', f'result {res} vs record {self.last_res}')
        if x[0] == 'tick':
            if self.tick_of is None:
                if self.queue:
                    self.bad('c11:sched', f'tick found nothing but r{min(self.queue)[2]} is due')
            else:
                if not self.tick_called:
                    self.bad('c11:sched:dropped', f'the wake-up of r{self.tick_of[1]} at {self.tick_of[0]} was not '
                             f'delivered as next((routine, clock)) — a pending routine (also one that was reset() '
                             f'meanwhile) must be woken, whichever clock holds the entry')
                r = self.last_res or ''
                if r.startswith('v:n'):
                    t, rid, ck = self.tick_of
                    self.push(rid, t + int(r[3:]), ck)
        if x[0] == 'rop' and (res == 'e:RoutineException') != bool(recs and recs[-1][5]):
            self.bad('c11:harness', 'rop result mismatch')
        for ent in log.split(' ') if log else []:
            if ent.startswith('here(') and ent.split(',')[1] != 'T':
                self.bad('c11:current_tt', f'inside a body main.current_tt is not the routine: {ent}')
            if ent.startswith('here(') and ent.split(',')[2].rstrip(')') != str(self.now):
                self.bad('c11:current_tt:time', f'logical time inside a body {ent}, scheduler time {self.now}')
        # snapshot
        parts = snap.split('|')
        rs = parts[0].split(';')
        for j, ent in enumerate(rs):
            st = ent.split('=')[1].split('/')[0]
            if ent.rsplit('/', 1)[1] != f'k{self.clk[j]}':
                self.bad('c11:clock', f'r{j}._clock is {"SystemClock" if ent.endswith("k0") else "the other clock"} '
                                      f'after op #{i} {x}; its operations leave it on '
                                      f'{"the other clock" if self.clk[j] else "SystemClock"}')
            if st != self.state[j]:
                self.bad('c11:table:untracked', f'r{j} is {st} after op #{i} {x}; its operations left it {self.state[j]}')
        if parts[1] != 'cur=M' or out.get('cur_repaired'):
            self.bad('c11:current_tt', f'after op #{i} {x} main.current_tt is {parts[1][4:]}, not the main thread')
        q = ''.join(f'({t},{r}{"*" if ck else ""})' for t, _, r, ck in sorted(self.queue))
        if parts[3] != 'q=' + q:
            hint = (' — a waiter may be scheduled only by signal/unhang of ITS OWN condition (test true) or by the '
                    'binding of ITS flow variable' if x[0] in ('sig', 'unh', 'fvset', 'next', 'tick') else '')
            self.bad('c11:sched', f'scheduler holds {parts[3][2:]} after op #{i} {x}; scheduled and not yet woken: {q}'
                     + hint)
        cs = ';'.join(f'c{j}={"T" if self.test[j] else "F"}[{" ".join(map(str, w))}]' for j, w in enumerate(self.waiting))
        if parts[4] != cs:
            self.bad('c11:cond', f'conditions {parts[4]} after op #{i} {x}; expected {cs}')
        fs = ';'.join(f'f{j}={self.fval[j] or "U"}[{" ".join(map(str, w))}]' for j, w in enumerate(self.fwaiting))
        if parts[5] != fs:
            self.bad('c11:flowvar', f'flow variables {parts[5]} after op #{i} {x}; expected {fs}')

    def run(self, outs):
        if len(outs) != len(self.case['ops']):
            return {'what': 'output length mismatch', 'signature': 'c11:len'}
        for i, (x, out) in enumerate(zip(self.case['ops'], outs)):
            try:
                self.check_op(i, x, out)
            except Violation as v:
                return {'what': v.what, 'signature': v.sig, 'index': i}
        return None


class Check(common.Check):
    PROP = 'C11'
    LEAN_TARGETS = ['Sc3Verif.C11.Props']
    LEAN_DIRS = ['Sc3Verif/C11']
    THEOREMS = ['Sc3Verif.C11.' + t for t in (
        'reachable_inv', 'current_tt_restored', 'current_tt_is_innermost', 'parent_chain_is_call_stack',
        'current_tt_main_when_idle', 'transition_table_ops', 'transition_table_next_entry',
        'transition_table_step', 'terminal_sticky', 'paused_raises_until_resume', 'self_ops_refused',
        'reentrant_next_refused', 'reset_keeps_pending_wakeup', 'cond_signal_false_is_noop', 'cond_resumes_once_after_true_signal',
        'cond_wait_parks_outermost_once', 'cond_wait_true_continues', 'tick_reschedules_iff_number',
        'cond_never_before', 'flowvar_single_assignment', 'call_stack_well_formed',
        'active_frame_has_position', 'pending_result_meets_its_nest')]
    N_QUICK = 1500
    N_THOROUGH = 40000
    ASSUMPTIONS = [
        'CPython generator semantics (send/close, PEP 479) and exception propagation are trusted',
        'NRT scheduler queue abstracted to a stable sorted list (proved of TaskQueue in C09)',
        'only SystemClock in NRT mode; EventStreamPlayer thread_player hooks are not modelled (C14)',
    ]

    def rule(self):
        return ('1-4 routines (generator or plain function, with/without inval) whose bodies are scripts of 0-9 '
                'actions over yield/raise (Exception and bare BaseException: KeyboardInterrupt, SystemExit, GeneratorExit, custom)/raise StopStream/YieldAndReset/AlwaysYield/nested next (catch, propagate, '
                'embed)/play,pause,resume,stop,reset on any routine incl. itself/Condition wait,signal,unhang,test/'
                'FlowVar get,set/log; 25% of inval bodies with *args / wrapper(*args, **kwargs) signatures; 30% of cases with conditions use bound-method/partial/callable-object/lambda tests; 30% of generator bodies inside try/finally or except GeneratorExit whose clean-up section yields; 3% EventStreamPlayers with clean-up entries stopped/paused/reset from inside themselves; 0-2 conditions, 0-1 flow variables; histories of 1-40 external ops '
                '(next, tick, play/pause/resume/stop/reset, signal, unhang, test, FlowVar set); thorough adds all '
                'histories of length <=4 over 3 fixed two-routine programs. Non-trivial: at least one body ran, at '
                'least one nested next or in-body operation happened and at least two different kinds of external '
                'op were applied; distinct by full case')

    # ---- generator ------------------------------------------------------------------------------
    def gen_script(self, rng, i, nr, nc, nf, gen):
        n = rng.choice([0, 1, 2, 3, 3, 4, 5, 6, 7, 9])
        acts = []
        for _ in range(n):
            t = rng.randrange(nr) if rng.random() < 0.88 else i       # any routine, a bit more often itself
            w = rng.random()
            if gen and w < 0.30:
                acts.append(['y', rng.choice(['n0', 'n1', 'n1', 'n2', 'n3', 'N', 'H', 'bT'])])
            elif w < 0.315:
                acts.append(['raiseb', rng.choice('KSGC')])
            elif w < 0.33:
                acts.append(['raise'])
            elif w < 0.36:
                acts.append(['rstop'])
            elif w < 0.40:
                acts.append(['yar', rng.choice(VALS)])
            elif w < 0.45:
                acts.append(['ay', rng.choice(VALS)])
            elif w < 0.62:
                modes = 'cccppe' if gen else 'cccpp'
                acts.append(['nest', t, rng.choice(modes), rng.choice(VALS)])
            elif w < 0.80:
                acts.append(['rop', t, rng.choice(ROPS)])
            elif w < 0.88 and nc:
                c = rng.randrange(nc)
                k = rng.random()
                if gen and k < 0.45:
                    acts.append(['wait', c])
                elif k < 0.65:
                    acts.append(['sig', c])
                elif k < 0.75:
                    acts.append(['unh', c])
                else:
                    acts.append(['test', c, rng.choice('TTF')])
            elif w < 0.94 and nf:
                f = rng.randrange(nf)
                if gen and rng.random() < 0.6:
                    acts.append(['fvget', f])
                else:
                    acts.append(['fvset', f, rng.choice(VALS)])
            else:
                acts.append(['here'])
        return acts

    def gen_one(self, rng):
        nr = rng.choice([1, 2, 2, 3, 3, 4])
        nc = rng.choice([0, 1, 2, 2])
        nf = rng.choice([0, 1, 1])
        rts = []
        for i in range(nr):
            gen = rng.random() < 0.8
            rts.append({'gen': gen, 'inval': rng.random() < 0.5,
                        'script': self.gen_script(rng, i, nr, nc, nf, gen)})
        n = rng.choice([rng.randint(1, 6), rng.randint(5, 20), rng.randint(15, 40)])
        ops = []
        for _ in range(n):
            w = rng.random()
            r = rng.randrange(nr)
            if w < 0.33:
                ops.append(['next', r, rng.choice(VALS)])
            elif w < 0.55:
                ops.append(['tick'])
            elif w < 0.82:
                ops.append(['rop', r, rng.choice(['play', 'play', 'pause', 'resume', 'resume', 'stop', 'reset', 'reset'])])
            elif w < 0.93 and nc:
                c = rng.randrange(nc)
                ops.append(rng.choice([['sig', c], ['sig', c], ['unh', c], ['test', c, 'T'], ['test', c, 'F']]))
            elif nf:
                ops.append(['fvset', rng.randrange(nf), rng.choice(VALS)])
            else:
                ops.append(['tick'])
        if nr >= 2 and rng.random() < 0.22:
            # an enclosing (Running) routine is operated on from the body of a routine it is running
            a, b = rng.sample(range(nr), 2)
            rts[a]['script'].insert(rng.randrange(len(rts[a]['script']) + 1),
                                    ['nest', b, rng.choice('ccp' + ('e' if rts[a]['gen'] else '')), 'N'])
            inner = [['rop', a, rng.choice(['stop', 'stop', 'pause', 'reset', 'play', 'resume'])]]
            if rng.random() < 0.4:
                inner.append(['nest', a, 'c', rng.choice(VALS)])
            if rng.random() < 0.4:
                inner.append(['rop', a, rng.choice(['stop', 'pause', 'reset'])])
            k = rng.randrange(min(2, len(rts[b]['script'])) + 1)
            rts[b]['script'][k:k] = inner
            ops = [['next', a, 'N']] * rng.randint(1, 3) + ops[:rng.randint(0, 12)] + [['next', a, 'N']]
        if nr >= 3 and (nc or nf) and rng.random() < 0.3:
            # three levels: a embeds b embeds c, and c waits on a condition / flow variable
            a, b, c = rng.sample(range(nr), 3)
            w = ['wait', rng.randrange(nc)] if nc and (not nf or rng.random() < 0.6) else ['fvget', rng.randrange(nf)]
            for r in (a, b, c):
                rts[r] = {'gen': True, 'inval': rts[r]['inval'], 'script': rts[r]['script'][:3]}
            rts[c]['script'].insert(rng.randrange(min(1, len(rts[c]['script'])) + 1), w)
            rts[b]['script'].insert(0, ['nest', c, 'e', 'N'])
            rts[a]['script'].insert(0, ['nest', b, 'e', 'N'])
            rel = ([['test', w[1], 'T'], ['sig', w[1]]] if w[0] == 'wait' else [['fvset', w[1], 'n2']])
            head = rng.choice([[['rop', a, 'play'], ['tick']], [['next', a, 'N']]])
            ops = [list(x) for x in head + rel + [['tick'], ['tick']]] + ops[:rng.randint(0, 8)]
        if nc + nf >= 2 and rng.random() < 0.25:
            # two conditions / flow variables alive at once: r waits on one, the OTHER one is signalled (true test)
            # or bound first; r must stay parked until its own condition is signalled
            r = rng.randrange(nr)
            objs = [('c', i) for i in range(nc)] + [('f', i) for i in range(nf)]
            mine, other = rng.sample(objs, 2)
            w = ['wait', mine[1]] if mine[0] == 'c' else ['fvget', mine[1]]
            rts[r] = {'gen': True, 'inval': rts[r]['inval'], 'script': [w, ['here'], ['y', 'n1']]}
            rel_other = ([['test', other[1], 'T'], rng.choice([['sig', other[1]], ['unh', other[1]]])]
                         if other[0] == 'c' else [['fvset', other[1], 'n3']])
            rel_mine = ([['test', mine[1], 'T'], ['sig', mine[1]]] if mine[0] == 'c' else [['fvset', mine[1], 'n2']])
            head = rng.choice([[['rop', r, 'play'], ['tick']], [['next', r, 'N']]])
            ops = [list(x) for x in head + rel_other + [['tick']] + rel_mine + [['tick'], ['tick']]] + ops[:rng.randint(0, 8)]
        if (nc or nf) and rng.random() < 0.15:
            # timed scenario: numeric yield woken by the scheduler, pause + resume before the next
            # wake-up is due, then a wait on a condition / flow variable, signalled later
            r = rng.randrange(nr)
            w = ['wait', rng.randrange(nc)] if nc and (not nf or rng.random() < 0.6) else ['fvget', rng.randrange(nf)]
            rts[r] = {'gen': True, 'inval': rts[r]['inval'],
                      'script': [['y', rng.choice(['n1', 'n2', 'n3'])], w, ['here'], ['y', 'n1']]}
            rel = ([['test', w[1], 'T'], ['sig', w[1]]] if w[0] == 'wait' else [['fvset', w[1], 'n2']])
            timed = ([['rop', r, 'play'], ['tick'], ['rop', r, 'pause'], ['rop', r, 'resume'], ['tick'], ['tick']]
                     + rel + [['tick'], ['tick']])
            ops = [list(x) for x in timed] + ops[:rng.randint(0, 8)]
        if rng.random() < 0.12:
            # life-cycle scenario: a routine ends with AlwaysYield, is reset and ends differently
            r = rng.randrange(nr)
            pre = [['y', rng.choice(['n0', 'n1', 'N'])]] if rng.random() < 0.6 else []
            tail = rng.choice([[['y', 'n2']], [['y', 'n1'], ['raise']], [], [['nest', rng.randrange(nr), 'p', 'N'], ['y', 'n1']]])
            rts[r] = {'gen': True, 'inval': rts[r]['inval'],
                      'script': pre + [['ay', rng.choice(['n3', 'H', 'N', 'n0'])]] + tail}
            life = [['next', r, 'N']] * rng.randint(1, 3) + [['rop', r, 'reset']] + [['next', r, 'N']] * rng.randint(0, 2)
            life += rng.choice([[['rop', r, 'stop']], [['rop', r, 'pause'], ['rop', r, 'stop']], []])
            life += [['next', r, 'N']] * rng.randint(1, 3)
            ops = [list(x) for x in life] + ops[:rng.randint(0, 10)]
        clock = rng.choice(['sys', 'sys', 'tempo', 'app'])
        if rng.random() < 0.12:
            # a routine pending on a clock is reset() from outside and nobody plays it again: it restarts from the
            # top at its next wake-up (on SystemClock, a TempoClock or AppClock alike)
            r = rng.randrange(nr)
            rts[r] = {'gen': True, 'inval': rts[r]['inval'],
                      'script': [['here'], ['y', rng.choice(['n1', 'n2'])], ['here'], ['y', 'n1'], ['y', 'n1']]}
            clock = rng.choice(['tempo', 'tempo', 'app', 'sys'])
            ops = [['rop', r, 'play'], ['tick']] + [['tick']] * rng.randint(0, 1) + [['rop', r, 'reset'], ['tick'],
                                                                                      ['tick']] + ops[:rng.randint(0, 8)]
        case_extra = {}
        if nc and rng.random() < 0.3:
            # the condition tests are callables that are not plain functions (or a lambda, for symmetry)
            case_extra['testkind'] = rng.choice(['method', 'partial', 'object', 'lambda'])
        for r_ in rts:
            # open signatures: `def body(*args)` / a decorator's `wrapper(*args, **kwargs)` still receive inval
            if r_['inval'] and rng.random() < 0.25:
                r_['sig'] = rng.choice(['var', 'wrap'])
        closes = any(a[0] == 'raiseb' and a[1] == 'G' for r_ in rts for a in r_['script'])
        for r_ in rts if not closes else []:
            # the body's clean-up section yields when the generator is closed (try/finally or except GeneratorExit)
            if r_['gen'] and rng.random() < 0.3:
                r_['guard'] = rng.choice(['fin', 'exc'])
        return {'rts': rts, 'nc': nc, 'nf': nf, 'ops': ops, 'clock': clock, **case_extra}

    EXH_PROGRAMS = [
        # waiter + controller; AlwaysYield + reset; nested propagate
        {'rts': [{'gen': True, 'inval': False, 'script': [['y', 'n1'], ['wait', 0], ['ay', 'n2']]},
                 {'gen': True, 'inval': True, 'script': [['nest', 0, 'e', 'N'], ['test', 0, 'T'], ['sig', 0], ['y', 'n0']]}],
         'nc': 1, 'nf': 0},
        {'rts': [{'gen': True, 'inval': False, 'script': [['y', 'n0'], ['nest', 1, 'p', 'N'], ['rop', 0, 'stop'], ['y', 'n1']]},
                 {'gen': False, 'inval': False, 'script': [['nest', 0, 'c', 'N'], ['rop', 0, 'reset'], ['here']]}],
         'nc': 0, 'nf': 0},
        {'rts': [{'gen': True, 'inval': True, 'script': [['fvget', 0], ['y', 'n1'], ['yar', 'n3']]},
                 {'gen': True, 'inval': False, 'script': [['rop', 0, 'play'], ['fvset', 0, 'n2'], ['nest', 0, 'c', 'n1'], ['raise']]}],
         'nc': 0, 'nf': 1},
    ]
    EXH_ALPHA = [['next', 0, 'N'], ['next', 1, 'n1'], ['tick'], ['rop', 0, 'play'], ['rop', 1, 'play'],
                 ['rop', 0, 'pause'], ['rop', 0, 'resume'], ['rop', 0, 'stop'], ['rop', 0, 'reset'],
                 ['rop', 1, 'reset']]

    def gen_esp(self, rng):
        """An EventStreamPlayer (the Routine subclass that plays patterns) stopped / paused / reset from inside
        itself while clean-up entries are registered: a refused operation changes nothing."""
        n = rng.randint(2, 6)
        reg = sorted(rng.randint(1, n) for _ in range(rng.choice([0, 1, 1, 2])))
        ops = sorted([rng.randint(1, n), rng.choice(['stop', 'stop', 'pause', 'reset'])]
                     for _ in range(rng.choice([1, 1, 2])))
        return {'kind': 'esp', 'rts': [], 'nc': 0, 'nf': 0, 'ops': [], 'clock': 'sys',
                'esp': {'n': n, 'reg': reg, 'ops': ops}}

    def oracle_esp(self, case, out):
        e, o = case['esp'], out[0]['esp']
        # from the script alone: every operation from inside is refused and leaves no trace, the clean-up entries
        # run once, when the stream ends (the next() after the last event), and the player is Done from then on
        head = []
        for k in range(1, e['n'] + 1):
            head += [f'{op} refused' for at, op in e['ops'] if at == k] + [f'event {k}']
        tail = sorted(f'clean-up {j}' for j in range(len(e['reg'])))
        log = o['log']
        if log[:len(head)] != head or sorted(log[len(head):]) != tail:
            return {'what': f'EventStreamPlayer with {e["n"]} events, clean-up entries registered at events {e["reg"]}, '
                            f'operations from inside itself {e["ops"]}: a refused operation changes nothing, expected '
                            f'{head + tail} but observed {log}', 'signature': 'c11:esp:refused-has-effect'}
        states = ['Suspended'] * e['n'] + ['StopStream/Done'] * 2
        if o['states'] != states:
            return {'what': f'EventStreamPlayer with {e["n"]} events and operations from inside itself {e["ops"]}: '
                            f'states after each next() {o["states"]}, expected {states}',
                    'signature': 'c11:esp:state'}
        return None

    def gen(self, rng, n):
        cases = [self.gen_one(rng) if rng.random() >= 0.03 else self.gen_esp(rng) for _ in range(n)]
        if self.tier == 'thorough':
            for p in self.EXH_PROGRAMS:
                alpha = list(self.EXH_ALPHA)
                if p['nc']:
                    alpha += [['test', 0, 'T'], ['sig', 0]]
                if p['nf']:
                    alpha += [['fvset', 0, 'n2']]
                for k in range(1, 5):
                    for h in itertools.product(alpha, repeat=k):
                        cases.append({'rts': p['rts'], 'nc': p['nc'], 'nf': p['nf'], 'ops': [list(x) for x in h]})
        return cases

    # ---- runners --------------------------------------------------------------------------------
    def impl(self, cases):
        res, err = common.run_impl('c11', 'run', {'cases': cases})
        if res is None:
            self.notes.append(err)
        return res

    def model(self, cases):
        lines = []
        for c in cases:
            if c.get('kind') != 'esp':          # pattern players are judged by the oracle only
                lines.extend(to_lines(c))
        out, err = common.run_driver('Sc3Verif/C11/Driver.lean', lines)
        if out is None:
            raise RuntimeError('driver failed: ' + err)
        res, cur = [], None
        for l in out:
            if l == 'reset':
                cur = []; res.append(cur)
            else:
                cur.append(l)
        it = iter(res)
        return [None if c.get('kind') == 'esp' else next(it) for c in cases]

    def compare(self, case, impl_out, model_out):
        if case.get('kind') == 'esp':
            return None
        a = [o['line'] for o in impl_out]
        if a == model_out:
            return None
        for i, (x, y) in enumerate(zip(a, model_out)):
            if x != y:
                return {'op_index': i, 'op': case['ops'][i], 'impl': x, 'model': y}
        return {'impl_len': len(a), 'model_len': len(model_out)}

    def oracle(self, case, out):
        if case.get('kind') == 'esp':
            return self.oracle_esp(case, out)
        return Oracle(case).run(out)

    def nontrivial(self, case, out):
        if case.get('kind') == 'esp':
            return bool(case['esp']['reg'])
        ran = nested = False
        for o in out:
            for rec in o['x']:
                if rec[0] == 'act':
                    ran = True
                if rec[0] == 'rop' and rec[1] != 'M':
                    nested = True
                if rec[0] == 'call' and rec[1] != 'M':
                    nested = True
        return ran and nested and len({x[0] if x[0] != 'rop' else x[2] for x in case['ops']}) >= 2

    def histogram(self, cases, outs):
        h = {}

        def inc(k):
            h[k] = h.get(k, 0) + 1
        for c, out in zip(cases, outs):
            inc(f'routines:{len(c["rts"])}')
            for r in c['rts']:
                inc('body:gen' if r['gen'] else 'body:fun')
                for a in r['script']:
                    inc('act:' + a[0] + (':' + a[2] if a[0] in ('nest', 'rop') else ''))
            for x, o in zip(c['ops'], out):
                inc('xop:' + x[0] + (':' + x[2] if x[0] == 'rop' else ''))
                res = o['line'].split('|', 1)[0]
                inc('result:' + (res if res.startswith('e:') or res == '-' else 'value'))
                for rec in o['x']:
                    if rec[0] == 'exit':
                        inc('exit:' + rec[2])
                    elif rec[0] == 'call':
                        inc(f'next-on:{rec[3]}' + ('' if rec[1] == 'M' else ':nested'))
                    elif rec[0] == 'rop' and rec[5]:
                        inc('refused:' + rec[3])
        h['histories'] = len(cases)
        h['max_ops'] = max((len(c['ops']) for c in cases), default=0)
        return dict(sorted(h.items()))

    def shrink(self, case, fails):
        if case.get('kind') == 'esp':
            return case
        ops = common.shrink_list(case['ops'], lambda o: fails({**case, 'ops': o}), max_steps=150)
        case = {**case, 'ops': ops}
        # then shrink each script (keeping indices meaningful)
        for i in range(len(case['rts'])):
            def with_script(s, i=i):
                rts = [dict(r) for r in case['rts']]
                rts[i]['script'] = s
                return {**case, 'rts': rts}
            s = case['rts'][i]['script']
            if len(s) >= 2:
                s2 = common.shrink_list(s, lambda s: fails(with_script(s)), max_steps=60)
                case = with_script(s2)
            if len(case['rts'][i]['script']) == 1 and fails(with_script([])):
                case = with_script([])
        return case
