"""C05 — Logical time in routines is exact and independent of physical jitter."""
from fractions import Fraction as F

from harness import common

DELTAS = ['0', '0', '1/8', '1/4', '1/4', '1/2', '1/2', '1', '1', '3/2', '2', '3']
TEMPI = ['1/4', '1/2', '1', '1', '2', '2', '4']


def fr(x):
    x = F(x)
    return str(x.numerator) if x.denominator == 1 else f'{x.numerator}/{x.denominator}'


def act_tokens(a):
    if a[0] == 'spawn':
        return ' '.join(str(t) for t in a[:3])      # started by Routine.play or by the decorator: the same to the model
    if a[0] == 'yar':
        return f'y {a[1]}'       # YieldAndReset(d) once, the restarted body going on after it = a yield of d
    if a[0] in ('note', 'pseed'):
        return 'log'             # to the time model a note event is a log line; its bundles are in the NRT score
    if a[0] == 'draw':
        return 'draw'            # which builtin random function is called does not matter to the model
    return ' '.join(str(t) for t in a)


def lines_common(c):
    ls = ['reset'] + [f'tempo {i} {t}' for i, t in enumerate(c['tempi'])]
    ls += [f'rt {i} ' + ' ; '.join(act_tokens(a) for a in s) for i, s in enumerate(c['rts'])]
    return ls


def lines_nrt(c):
    ls = lines_common(c) + [f'start 0 {c["root"]}', 'nrt 1000000', 'dump']
    if c.get('rerun'):
        ls += [f'restart 0 {c["root"]}', 'nrt 1000000', 'dump']
    return ls


def lines_rt(c, out):
    ls = (lines_common(c) + [f'start {out["start"]} {c["root"]}'] +
          [f'm {m[0]} {m[1]}' for m in out['moves']] + ['dump'])
    if c.get('rerun') and out.get('rerun'):
        r2 = out['rerun']
        ls += [f'restart {r2["start"]} {c["root"]}'] + [f'm {m[0]} {m[1]}' for m in r2['moves']] + ['dump']
    return ls


# ---- expected timelines from the script alone (no queue, no scheduler) ---------------------------
class TempoMap:
    """Piecewise linear beats<->secs of one TempoClock: segments (from_secs, from_beats, tempo)."""

    def __init__(self, tempo, start):
        self.seg = [(F(start), F(0), F(tempo))]

    def at_secs(self, s):
        cur = self.seg[0]
        for g in self.seg:
            if g[0] <= s:
                cur = g
        return cur

    def at_beats(self, b):
        cur = self.seg[0]
        for g in self.seg:
            if g[1] <= b:
                cur = g
        return cur

    def secs2beats(self, s, upto=None):
        s0, b0, t = self.at_secs(s)
        return (s - s0) * t + b0

    def beats2secs(self, b):
        s0, b0, t = self.at_beats(b)
        return (b - b0) / t + s0

    def change(self, s, tempo):
        self.seg.append((s, self.secs2beats(s), F(tempo)))


def expected(case, start=0, clocks_exact=True):
    """{'R': {(rid, pc): (clk, beats, secs)}, 'L': [(rid, beats, secs), …] per routine in order}.
    Valid for programs in which only the root changes tempi and every routine is spawned by exactly
    one spawn action (what the C05 generator produces)."""
    start = F(start)
    maps = [TempoMap(t, start) for t in case['tempi']]
    R, L, spawn_at, defer_at = {}, {}, {}, {}
    sub_pc = {}                       # class N: position of each pulled sub-stream
    sig_at = {}                       # class U: the root signals / unhangs a condition
    pause_at, resume_at = {}, {}      # class P: the root pauses / resumes (without a clock argument) another routine

    def b2s(clk, b):
        return b if clk in ('sys', 'app') else maps[int(clk[1:])].beats2secs(b)

    def s2b(clk, s):
        return s if clk in ('sys', 'app') else maps[int(clk[1:])].secs2beats(s)

    def timeline(rid, clk, s0, mutate):
        b = s2b(clk, s0)
        R[(rid, 0)] = (clk, b, b2s(clk, b))
        L[rid] = []
        for k, a in enumerate(case['rts'][rid]):
            s = b2s(clk, b)
            if a[0] in ('y', 'yar'):           # yar d: YieldAndReset(d), the restarted body goes on after it
                b = b + F(a[1])
                if rid in pause_at and b2s(clk, b) > pause_at[rid]:
                    # this wake-up finds the routine paused and is dropped; resume() puts the routine back on the
                    # clock it was PLAYED on, at the caller's logical time (the generator keeps the dropped
                    # wake-up strictly between pause and resume)
                    if rid not in resume_at:
                        return
                    b = s2b(clk, resume_at[rid])
                    del pause_at[rid]
                R[(rid, k + 1)] = (clk, b, b2s(clk, b))
            elif a[0] in ('hang', 'raise', 'yinf', 'yv'):
                return
            elif a[0] == 'pull':
                # a routine used as a stream, resumed with next() by this one: it runs at this routine's logical time
                sc, pc = case['rts'][a[1]], sub_pc.get(a[1], 0)
                while pc < len(sc):
                    x = sc[pc]
                    pc += 1
                    if x[0] == 'y':
                        break
                    if x[0] == 'log':
                        L.setdefault(a[1], []).append((s, s))
                    elif x[0] == 'spawn':
                        spawn_at.setdefault(x[1], (x[2], s))
                sub_pc[a[1]] = pc
            elif a[0] == 'spawnabs':
                spawn_at.setdefault(a[1], ('sys', s + F(a[2])))
            elif a[0] in ('sig', 'unh') and mutate:
                sig_at.setdefault(a[1], s)
            elif a[0] == 'wait':
                # parked (out of the clock) until the signal / unhang: resumes at the caller's logical time, on its
                # own clock, whatever fraction of a beat that is
                if a[1] not in sig_at:
                    return
                b = s2b(clk, sig_at[a[1]])
                R[(rid, k + 1)] = (clk, b, b2s(clk, b))
            elif a[0] == 'pause' and mutate:
                pause_at[a[1]] = s
            elif a[0] == 'resume' and mutate:
                resume_at[a[1]] = s
            elif a[0] == 'log':
                L[rid].append((b, s))
            elif a[0] == 'spawn':
                spawn_at.setdefault(a[1], (a[2], s))
            elif a[0] == 'defer':
                defer_at[a[1]] = (a[2], s2b(a[2], s) + F(a[3]))
            elif a[0] in ('tempo', 'etempo') and mutate:
                maps[a[1]].change(s, a[2])

    timeline(0, case['root'], start, True)       # the root alone fixes every tempo map
    done = {0}
    progress = True
    while progress:
        progress = False
        for r in sorted(spawn_at):
            if r not in done:
                done.add(r)
                timeline(r, spawn_at[r][0], spawn_at[r][1], False)
                progress = True
    for r, (clk, b) in defer_at.items():        # one-shot function tasks: defer(func, d, clock)
        R[(r, 0)] = (clk, b, b2s(clk, b))
        L[r] = [(b, b2s(clk, b)) for a in case['rts'][r] if a[0] == 'log']
        spawn_at[r] = (clk, b2s(clk, b))
    return R, L, spawn_at


def expected_float(case):
    """Timelines in binary64 for NRT programs on TempoClocks whose beat duration is NOT a dyadic rational (tempo 3,
    1.1, 0.7 …), no tempo changes: beats accumulate exactly as `start beat + d0 + d1 + …` (float additions of dyadic
    deltas), seconds are ONE conversion of that beat, `clock.beats` is one conversion back.  Same order of float
    operations as the documented formulas beats2secs = (b - base_beats) * (1/tempo) + base_secs and
    secs2beats = (s - base_secs) * tempo + base_beats with base = (0, 0)."""
    tempo = [float(F(t)) for t in case['tempi']]
    dur = [1.0 / t for t in tempo]

    def b2s(clk, b):
        return b if clk in ('sys', 'app') else (b - 0.0) * dur[int(clk[1:])] + 0.0

    def s2b(clk, s):
        return s if clk in ('sys', 'app') else (s - 0.0) * tempo[int(clk[1:])] + 0.0
    R, L, todo = {}, {}, [(0, case['root'], 0.0)]
    while todo:
        rid, clk, s0 = todo.pop(0)
        b = s2b(clk, s0)
        secs = b2s(clk, b) if rid else s0
        R[(rid, 0)] = (clk, s2b(clk, secs), secs)
        L[rid] = []
        for k, a in enumerate(case['rts'][rid]):
            if a[0] == 'y':
                b = b + float(F(a[1]))
                secs = b2s(clk, b)
                R[(rid, k + 1)] = (clk, s2b(clk, secs), secs)
            elif a[0] == 'log':
                L[rid].append((s2b(clk, secs), secs))
            elif a[0] == 'spawn':
                todo.append((a[1], a[2], secs))
    return R, L


def parse_trace(tr):
    evs, tail = tr.split(' | ')
    out = []
    for e in evs.split():
        p = e.split(':')
        out.append(p)
    end = tail.split()[0].split('=')[1]
    pend = int(tail.split()[1].split('=')[1])
    return out, (F(end) if end not in ('inf', 'nan') else float(end)), pend


class Check(common.Check):
    PROP = 'C05'
    LEAN_TARGETS = ['Sc3Verif.C05.Props']
    LEAN_DIRS = ['Sc3Verif/C05']
    THEOREMS = ['Sc3Verif.C05.' + t for t in (
        'logical_time_exact', 'every_resumption_reads_start_plus_deltas', 'reach_exact', 'resume_reads_scheduled_time', 'child_starts_at_parent_time',
        'nrt_time_monotone', 'nrt_step_sets_time', 'nrt_elapsed_ends_at_last',
        'nrt_nothing_pending_in_the_past', 'rt_never_early', 'init_exact', 'init_good')]
    N_QUICK = 200
    N_THOROUGH = 5000
    ASSUMPTIONS = [
        'time is Rat in the model; generated deltas/tempi/lateness are dyadic so binary64 arithmetic is exact',
        'OS threads are driven one at a time in virtual time by harness/vtime.py (Condition/RLock semantics assumed)',
        'TempoClock.play is used with quant=0 (default quantisation to the next beat is C12)',
        'AppClock in real time has no logical time (documented drift): excluded from the RT statements',
    ]

    def rule(self):
        return ('programs = trees of 1-6 routines (nesting <=3) with 1-30 yields each, deltas dyadic incl. 0, logs, sends with latency, main.process(tailtime), '
                'spawns (Routine.play or the decorator @routine.run(clock, quant)) on SystemClock / TempoClocks (tempi 2^k) / AppClock (NRT), tempo changes by the root (`tempo=` and '
                '`etempo`), bodies that raise (logged by the clock) while other routines go on; four '
                'classes: plain multi-clock, single-clock with tempo changes, multi-clock with tempo changes, '
                'NRT-only with AppClock; 7% routines pulled with next() from inside a playing routine (they log and play children at the time of the puller), YieldAndReset(d) before a wait / a pause on a TempoClock, 6% unhang/signal of a waiter on a TempoClock at a fractional beat, 6% reset()-while-pending plus tempo change (NRT), 6% children started with SystemClock.sched_abs(logical now + d) under RT lateness (these three judged by the script-only oracle, no model line); 10% pause/resume-without-clock of a routine on a TempoClock (tempo != 1) or AppClock by a controller on another clock; each runs in NRT (main.process) and in RT under virtual time with a '
                'scripted lateness (zero, common, per-thread, per-wake-up random incl. lateness larger than the '
                'next delta). Non-trivial: >=2 routines, >=1 yield with delta>0 and (a tempo clock or a lateness>0); '
                'distinct by full case')

    # ---- generator ------------------------------------------------------------------------------
    def gen_float(self, rng):
        """NRT programs on TempoClocks with an inexact beat duration; several routines whose deltas add up to the
        same totals in different ways."""
        tempi = [rng.choice(['3', '11/10', '7/10', '5/2', '7', '7/3', '6/5']) for _ in range(rng.choice([1, 1, 2]))]
        clocks = [f't{i}' for i in range(len(tempi))]
        n = rng.choice([2, 3, 4])
        root = rng.choice(clocks + ['sys'])
        rts = [[] for _ in range(n)]
        for i in range(n):
            total = rng.choice([2, 3, 4])
            parts = []
            while sum(F(p) for p in parts) < total:
                parts.append(rng.choice(['1/4', '1/4', '1/2', '1', '1/8', '3/4']))
            for d in parts:
                rts[i] += [['y', d], ['log']] if rng.random() < 0.7 else [['y', d]]
            rts[i].append(['y', '1'])
        for i in range(1, n):
            rts[0].insert(rng.randrange(0, 2), ['spawn', i, rng.choice(clocks)])
        return {'tempi': tempi, 'root': root, 'rts': rts, 'late': None, 'klass': 'F', 'tail': '0', 'rerun': False,
                'float': True}

    def gen_pause(self, rng):
        """A routine playing on a TempoClock (tempo != 1) or on AppClock is paused and later resumed WITHOUT a clock
        argument by a controller routine that plays on another clock: it goes on on the clock it was played on."""
        app = rng.random() < 0.25
        tempi = [rng.choice(['1/4', '1/2', '2', '4'])] + ([rng.choice(TEMPI)] if rng.random() < 0.4 else [])
        tclk = 'app' if app else 't0'
        root = 't1' if len(tempi) == 2 and rng.random() < 0.5 else 'sys'
        tt = F(1) if app else F(tempi[0])
        rt_ = F(tempi[1]) if root == 't1' else F(1)
        deltas = [rng.choice(['1/4', '1/2', '1', '1', '3/2', '2']) for _ in range(rng.randint(3, 8))]
        wake, s = [], F(0)                              # the target's wake-up times in seconds
        for d in deltas:
            s += F(d) / tt
            wake.append(s)
        k = rng.randrange(0, len(wake) - 1)            # pause between wake-up k-1 and wake-up k (dropped)
        lo = wake[k - 1] if k else F(0)
        sp = (lo + wake[k]) / 2 if wake[k] > lo else None
        if sp is None or sp == 0:
            return self.gen_pause(rng)
        sr = wake[k] + rng.choice([F(1, 8), F(1, 4), F(1, 2), F(1), F(3, 2)])
        target = [['log']]
        for d in deltas:
            target += [['y', d]] + ([['log']] if rng.random() < 0.6 else [])
        if k and rng.random() < 0.4:
            j = 1 + 2 * 0
            ys = [n_ for n_, a in enumerate(target) if a[0] == 'y'][:k]
            j = rng.choice(ys)
            target[j] = ['yar', target[j][1]]
        ctl = [['spawn', 1, tclk], ['y', fr(sp * rt_)], ['pause', 1], ['y', fr((sr - sp) * rt_)], ['resume', 1]]
        if rng.random() < 0.5:
            ctl += [['log'], ['y', rng.choice(['1/2', '1'])], ['log']]
        return {'tempi': tempi, 'root': root, 'rts': [ctl, target], 'klass': 'P', 'tail': '0', 'rerun': False,
                'late': None if app else {'mode': 'zero', 'vals': []}}

    def gen_unhang(self, rng):
        """A routine on a TempoClock waits on a Condition; a controller on another clock signals / unhangs it at a
        logical time that is a FRACTIONAL beat of the waiter's clock."""
        tempi = [rng.choice(['1/2', '1', '2', '4'])]
        t = F(tempi[0])
        pre = [['y', rng.choice(['1/4', '1/2', '1'])] for _ in range(rng.randint(0, 2))]
        if rng.random() < 0.5:
            # the waiter first raises YieldAndReset(d): it stays on ITS clock for everything that follows
            pre.insert(rng.randrange(len(pre) + 1), ['yar', rng.choice(['1/2', '1'])])
        t_wait = sum(F(a[1]) for a in pre) / t
        at = t_wait + rng.choice([F(1, 8), F(1, 4), F(3, 8), F(5, 8), F(3, 4), F(9, 8)]) / t     # beats fractional
        waiter = [['log']] + pre + [['wait', 0], ['log']]
        for _ in range(rng.randint(1, 3)):
            waiter += [['y', rng.choice(['1/2', '1', '2'])], ['log']]
        ctl = [['spawn', 1, 't0'], ['y', fr(at)], [rng.choice(['unh', 'unh', 'sig']), 0], ['log'], ['y', '1/2'], ['log']]
        return {'tempi': tempi, 'root': 'sys', 'rts': [ctl, waiter], 'klass': 'U', 'tail': '0', 'rerun': False,
                'late': {'mode': 'zero', 'vals': []}, 'nomodel': True}

    def gen_nested(self, rng):
        """Routines used as streams: pulled with next() from inside a playing routine; they log the time and play
        children, which all happens at the puller's current logical time."""
        tempi = [rng.choice(TEMPI)]
        root = rng.choice(['sys', 'sys', 't0'])
        sub = []
        nchild = rng.randint(0, 2)
        for j in range(rng.randint(2, 4)):
            sub += [['log']] + ([['spawn', 2 + j, rng.choice(['sys', 't0'])]] if j < nchild else []) + [['y', '0']]
        rts = [[], sub]
        for j in range(nchild):
            rts.append([['log'], ['y', rng.choice(['1/4', '1/2', '1'])], ['log']])
        for _ in range(rng.randint(2, 5)):
            rts[0] += [['y', rng.choice(['1/4', '1/2', '1', '3/2'])], ['log']] + ([['pull', 1]] if rng.random() < 0.7 else [])
        if not any(a[0] == 'pull' for a in rts[0]):
            rts[0].append(['pull', 1])
        mode = rng.choice(['zero', 'common', 'random'])
        late = {'mode': mode, 'vals': [rng.choice(['1/4', '1/2', '1/64', '1']) for _ in range(rng.randint(1, 3))]}
        return {'tempi': tempi, 'root': root, 'rts': rts, 'klass': 'N', 'tail': '0', 'rerun': False, 'late': late,
                'nomodel': True}

    def gen_reset(self, rng):
        """NRT: a routine pending on a TempoClock is reset() from outside, and the tempo changes (either order):
        the pending wake-up keeps its beat, moves in seconds with the tempo, and restarts the body."""
        tempi = [rng.choice(['1/2', '1', '2'])]
        t0 = F(tempi[0])
        t1 = rng.choice([x for x in ['1/2', '1', '2', '4'] if x != tempi[0]])
        deltas = [rng.choice(['1/2', '1', '1', '2']) for _ in range(rng.randint(2, 5))]
        cum, b = [], F(0)
        for d in deltas:
            b += F(d)
            cum.append(b / t0)
        k = rng.randrange(len(cum))
        lo = cum[k - 1] if k else F(0)
        p = lo + (cum[k] - lo) * rng.choice([F(1, 4), F(1, 2), F(3, 4)])
        change = [['reset', 1], ['tempo', 0, t1]]
        if rng.random() < 0.3:
            change.reverse()
        ctl = [['spawn', 1, 't0'], ['y', fr(p)]] + change
        return {'tempi': tempi, 'root': 'sys', 'rts': [ctl, [['y', d] for d in deltas]], 'klass': 'T', 'tail': '0',
                'rerun': False, 'late': None, 'nomodel': True}

    def gen_schedabs(self, rng):
        """RT under lateness: children started from inside a routine with SystemClock.sched_abs(logical now + d)."""
        n = rng.randint(2, 4)
        rts = [[] for _ in range(n)]
        for i in range(n):
            for _ in range(rng.randint(1, 4)):
                rts[i] += [['y', rng.choice(['1/8', '1/4', '1/2', '1'])], ['log']]
        for i in range(1, n):
            rts[0].insert(rng.randrange(len(rts[0]) + 1), ['spawnabs', i, rng.choice(['0', '1/64', '1/16', '1/8', '1/2'])])
        late = {'mode': rng.choice(['common', 'random', 'random']),
                'vals': [rng.choice(['1/4', '1/2', '1', '3/64', '1/1024']) for _ in range(rng.randint(1, 4))]}
        return {'tempi': [], 'root': 'sys', 'rts': rts, 'klass': 'S', 'tail': '0', 'rerun': False, 'late': late,
                'nomodel': True}

    def check_reset(self, case, out):
        from_, deltas = case['rts'][0], [F(a[1]) for a in case['rts'][1]]
        p = F(from_[1][1])
        t1 = next(a[2] for a in from_ if a[0] == 'tempo')
        m = TempoMap(case['tempi'][0], F(0))
        t0 = F(case['tempi'][0])
        exp, b, k = [(0, F(0), F(0))], F(0), 0
        while k < len(deltas) and (b + deltas[k]) / t0 < p:
            b += deltas[k]
            k += 1
            exp.append((k, b, b / t0))
        m.change(p, t1)
        if k < len(deltas):                      # the wake-up pending at the reset: same beat, restarts the body
            b += deltas[k]
            exp.append((0, b, m.beats2secs(b)))
            for j, d in enumerate(deltas):
                b += d
                exp.append((j + 1, b, m.beats2secs(b)))
        evs, _, _ = parse_trace(out['trace'])
        got = [(int(q[2]), F(q[4]), F(q[5])) for q in evs if q[0] == 'R' and q[1] == '1']
        clks = {q[3] for q in evs if q[0] == 'R' and q[1] == '1'}
        if got != exp or clks - {'t0'}:
            show = lambda l: [(a, fr(b_), fr(c)) for a, b_, c in l]
            return {'what': f'nrt: routine 1 on a TempoClock(tempo {case["tempi"][0]}), reset() from outside at '
                            f'{fr(p)} s while pending, tempo set to {t1} at the same instant: expected resumptions '
                            f'(position, beats, seconds) {show(exp)} on t0, observed {show(got)} on {sorted(clks)}',
                    'signature': 'c05:exact:nrt:reset-retime'}
        if out.get('error'):
            return {'what': f'nrt: run failed: {out["error"]}', 'signature': 'c05:error:nrt'}
        return None

    def gen_one(self, rng):
        if rng.random() < 0.12:
            return self.gen_float(rng)
        w = rng.random()
        if w < 0.06:
            return self.gen_unhang(rng)
        if w < 0.12:
            return self.gen_reset(rng)
        if w < 0.18:
            return self.gen_schedabs(rng)
        if w < 0.25:
            return self.gen_nested(rng)
        if rng.random() < 0.1:
            return self.gen_pause(rng)
        klass = rng.choice('AAABBCCD')
        nt = rng.choice([0, 1, 1, 2]) if klass == 'A' else rng.choice([1, 1, 2])
        if klass == 'D':
            nt = rng.choice([0, 1])
        tempi = [rng.choice(TEMPI) for _ in range(nt)]
        clocks = ['sys'] + [f't{i}' for i in range(nt)]
        if klass == 'D':
            clocks.append('app')
        if klass == 'B':
            one = rng.choice(clocks[1:] if rng.random() < 0.7 else clocks)
            clocks = [one]
        n = rng.choice([1, 2, 2, 3, 3, 4, 5, 6])
        root = rng.choice(clocks) if klass == 'B' else rng.choice(['sys', 'sys'] + clocks)
        if root == 'app':
            root = 'sys'
        depth = {0: 0}
        rts = [[] for _ in range(n)]
        parent = {}
        for i in range(1, n):
            cands = [p for p in range(i) if depth[p] < 3]
            p = rng.choice(cands)
            parent[i] = p
            depth[i] = depth[p] + 1
        for i in range(n):
            ny = rng.choice([1, 2, 3, 3, 4, 5, 6, 8, rng.randint(9, 30)])
            acts = [['log']] if rng.random() < 0.7 else []
            for _ in range(ny):
                acts.append(['y', rng.choice(DELTAS)])
                if rng.random() < 0.5:
                    acts.append(['log'])
                elif rng.random() < 0.25:
                    # a bundle stamped 1/4 s (even id) or 5/4 s (odd id) after the logical time
                    acts.append(['send', rng.randrange(100)])
            if rng.random() < 0.12:
                # the routine leaves the clock: it yields a non-number (True / False / None / str / object)
                acts.insert(rng.randrange(len(acts) + 1),
                            rng.choice([['hang'], ['yv', 'T'], ['yv', 'T'], ['yv', 'F'], ['yv', 'N'], ['yv', 'S'], ['yv', 'O']]))
            if i > 0 and rng.random() < 0.2:
                # the body fails (the clock logs it and goes on); what follows in this body never runs
                acts.insert(rng.randrange(len(acts) + 1), ['raise'])
            rts[i] = acts
        for i in range(1, n):
            p = parent[i]
            rts[p].insert(rng.randrange(len(rts[p]) + 1),
                          ['spawn', i, rng.choice(clocks)] + (['deco'] if rng.random() < 0.3 else []))
        if klass in 'BC' and nt:
            for _ in range(rng.randint(1, 3)):
                tclk = [int(c[1:]) for c in clocks if c[0] == 't'] or list(range(nt))
                rts[0].insert(rng.randrange(len(rts[0]) + 1),
                              [rng.choice(['tempo', 'tempo', 'etempo']), rng.choice(tclk), rng.choice(TEMPI)])
        if rng.random() < 0.4:
            # defer(func, d, clock) = clock.sched(d, func) from a routine, mostly on the clock it is playing on
            for _ in range(rng.randint(1, 2)):
                r = rng.randrange(n)
                own = root if r == 0 else next(a[2] for s in rts for a in s if a[0] == 'spawn' and a[1] == r)
                c = own if rng.random() < 0.8 else rng.choice(clocks)
                if c == 'app' and klass != 'D':
                    c = 'sys'
                rts.append([['log']] if rng.random() < 0.8 else [])
                rts[r].insert(rng.randrange(len(rts[r]) + 1), ['defer', len(rts) - 1, c, rng.choice(DELTAS)])
        single = len({root} | {a[2] for s in rts for a in s if a[0] in ('spawn', 'defer')}) == 1
        has_tempo = any(a[0] in ('tempo', 'etempo') for a in rts[0])
        has_etempo = any(a[0] == 'etempo' for a in rts[0])
        if klass == 'D':
            late = None
        elif (has_tempo and not single) or has_etempo:
            # etempo anchors at the PHYSICAL time: equal to the logical time only without lateness
            late = {'mode': 'zero', 'vals': []}
        else:
            mode = rng.choice(['zero', 'common', 'perthread', 'random', 'random'])
            if rng.random() < 0.6:
                vals = [fr(F(rng.randint(0, 51), 1024)) for _ in range(rng.randint(1, 6))]
            else:
                vals = [rng.choice(['1/2', '1', '3', '1/4', '0', '1/1024']) for _ in range(rng.randint(1, 5))]
            late = {'mode': mode, 'vals': vals}
        # main.process(tailtime): the tail only lengthens the score, logical time ends at the last wake-up
        tail = rng.choice(['0', '0', '1/2', '2', '3'])
        # play the SAME routine objects a second time (NRT: after main.reset(); RT: later)
        return {'tempi': tempi, 'root': root, 'rts': rts, 'late': late, 'klass': klass, 'tail': tail,
                'rerun': rng.random() < 0.3}

    def gen(self, rng, n):
        return [self.gen_one(rng) for _ in range(n)]

    # ---- runners --------------------------------------------------------------------------------
    nrt_env = None

    def impl(self, cases):
        nrt, err = common.run_impl('c05', 'run_nrt', {'cases': cases}, extra_env=self.nrt_env)
        if nrt is None:
            self.notes.append('nrt: ' + err)
            return None
        idx = [i for i, c in enumerate(cases) if c.get('late') is not None]
        rt, err = common.run_impl('c05', 'run_rt', {'cases': [cases[i] for i in idx]})
        if rt is None:
            self.notes.append('rt: ' + err)
            return None
        outs = [{'nrt': o, 'rt': None} for o in nrt]
        for i, o in zip(idx, rt):
            outs[i]['rt'] = o
        self._rt = getattr(self, '_rt', {})
        for c, o in zip(cases, outs):
            self._rt[common.canon(c)] = o['rt']
        return outs

    def model(self, cases):
        lines, plan = [], []
        for c in cases:
            if c.get('nomodel'):                 # judged by the script-only oracle (actions outside the model)
                plan.append(None)
                continue
            lines += lines_nrt(c)
            rt = getattr(self, '_rt', {}).get(common.canon(c))
            if c.get('late') is not None and rt is None:
                raise RuntimeError('model runner: no recorded RT schedule for a case')
            if rt is not None:
                lines += lines_rt(c, rt)
            plan.append(rt is not None)
        out, err = common.run_driver('Sc3Verif/C05/Driver.lean', lines)
        if out is None:
            raise RuntimeError('driver failed: ' + err)
        out = [l for l in out if l != 'reset']
        res, k = [], 0
        for c, has_rt in zip(cases, plan):
            if has_rt is None:
                res.append(None)
                continue
            d = {'nrt': out[k], 'rt': None, 'nrt2': None, 'rt2': None}
            k += 1
            if c.get('rerun'):
                d['nrt2'] = out[k]
                k += 1
            if has_rt:
                d['rt'] = out[k]
                k += 1
                rt = self._rt.get(common.canon(c))
                if c.get('rerun') and rt.get('rerun'):
                    d['rt2'] = out[k]
                    k += 1
            res.append(d)
        return res

    def compare(self, case, io, mo):
        if case.get('float') or case.get('nomodel'):
            return None          # binary64 rounding is outside the Rat model: judged by the float oracle only
        d = {}
        if io['nrt']['trace'] != mo['nrt']:
            d['nrt'] = {'impl': io['nrt']['trace'], 'model': mo['nrt']}
        if io['rt'] is not None and not io['rt'].get('skipped') and io['rt']['trace'] != mo['rt']:
            d['rt'] = {'impl': io['rt']['trace'], 'model': mo['rt'], 'moves': io['rt']['moves']}
        if io['nrt'].get('rerun') and io['nrt']['rerun']['trace'] != mo.get('nrt2'):
            d['nrt-rerun'] = {'impl': io['nrt']['rerun']['trace'], 'model': mo.get('nrt2')}
        if (io['rt'] is not None and io['rt'].get('rerun') and mo.get('rt2') is not None
                and io['rt']['rerun']['trace'] != mo['rt2']):
            d['rt-rerun'] = {'impl': io['rt']['rerun']['trace'], 'model': mo['rt2']}
        return d or None

    # ---- oracle: timelines computed from the script alone -----------------------------------------
    def check_run(self, case, out, mode, start):
        R, L, spawn_at = expected(case, start)
        evs, end, pend = parse_trace(out['trace'])
        seen = set()
        lcount = {}
        late = case.get('late') or {}
        single = len({case['root']} | {a[2] for s in case['rts'] for a in s if a[0] in ('spawn', 'defer')}) == 1
        has_tempo = any(a[0] in ('tempo', 'etempo') for s in case['rts'] for a in s)
        secs_exact = mode == 'nrt' or not has_tempo or single or late.get('mode') == 'zero'
        for p in evs:
            if p[0] == 'R':
                rid, pc, clk, beats, secs = int(p[1]), int(p[2]), p[3], F(p[4]), F(p[5])
                exp = R.get((rid, pc))
                if exp is None:
                    return {'what': f'{mode}: routine {rid} resumed at position {pc}, which its script never reaches',
                            'signature': f'c05:exact:{mode}'}
                if (rid, pc) in seen:
                    return {'what': f'{mode}: routine {rid} resumed twice at position {pc}',
                            'signature': f'c05:exact:{mode}'}
                seen.add((rid, pc))
                eclk, eb, es = exp
                es_rel = es - start
                first = pc == 0
                if clk != eclk or beats != eb or (secs_exact and secs != es_rel):
                    if first and rid != 0:
                        pc_, ps = spawn_at[rid]
                        return {'what': f'{mode}: routine {rid} spawned at its parent\'s logical time {fr(ps - start)} s '
                                        f'on {pc_} started at {fr(secs)} s (beats {fr(beats)} on {clk}); expected '
                                        f'{fr(es_rel)} s (beats {fr(eb)})',
                                'signature': f'c05:child-start:{mode}'}
                    return {'what': f'{mode}: routine {rid} at its resumption #{pc} read beats {fr(beats)}, '
                                    f'{fr(secs)} s on {clk}; start + sum of deltas through the tempo in force gives '
                                    f'beats {fr(eb)}, {fr(es_rel)} s on {eclk}',
                            'signature': f'c05:exact:{mode}'}
            elif p[0] == 'L':
                rid, beats, secs = int(p[1]), F(p[2]), F(p[3])
                k = lcount.get(rid, 0)
                lcount[rid] = k + 1
                if k >= len(L.get(rid, [])):
                    return {'what': f'{mode}: routine {rid} logged more often than its script does',
                            'signature': f'c05:exact:{mode}'}
                eb, es = L[rid][k]
                if beats != eb or (secs_exact and secs != es - start):
                    return {'what': f'{mode}: routine {rid} log #{k} read beats {fr(beats)}, {fr(secs)} s; expected '
                                    f'beats {fr(eb)}, {fr(es - start)} s', 'signature': f'c05:exact:{mode}'}
        missing = sorted(set(R) - seen)
        if missing and out.get('error') is None:
            rid, pc = missing[0]
            return {'what': f'{mode}: routine {rid} never reached its resumption #{pc} (expected at '
                            f'{fr(R[(rid, pc)][2] - start)} s); {pend} task(s) still pending',
                    'signature': f'c05:lost:{mode}'}
        if out.get('error'):
            return {'what': f'{mode}: run failed: {out["error"]}', 'signature': f'c05:error:{mode}'}
        return None

    def oracle_float(self, case, out):
        R, L = expected_float(case)
        nrt = out['nrt']
        if nrt.get('error'):
            return {'what': f'NRT: the library failed or hung: {nrt["error"]}', 'signature': 'c05:error:nrt'}
        evs, _, _ = parse_trace(nrt['trace'])
        lcount = {}
        for p in evs:
            if p[0] == 'R':
                rid, pc, beats, secs = int(p[1]), int(p[2]), F(p[4]), F(p[5])
                exp = R.get((rid, pc))
                if exp is None or (F(exp[1]), F(exp[2])) != (beats, secs):
                    return {'what': f'nrt (binary64, tempo {case["tempi"]}): routine {rid} at its resumption #{pc} read '
                                    f'{float(secs)!r} s / beat {float(beats)!r}; the beat is start + sum of deltas (exact) '
                                    f'and its second ONE conversion of that beat: {exp and exp[2]!r} s / beat '
                                    f'{exp and exp[1]!r} (routines with equal beat totals must read equal times)',
                            'signature': 'c05:exact:nrt:float'}
            elif p[0] == 'L':
                rid = int(p[1])
                k = lcount.get(rid, 0)
                lcount[rid] = k + 1
                if k >= len(L.get(rid, [])) or (F(L[rid][k][0]), F(L[rid][k][1])) != (F(p[2]), F(p[3])):
                    return {'what': f'nrt (binary64): routine {rid} log #{k} read {float(F(p[3]))!r} s',
                            'signature': 'c05:exact:nrt:float'}
        return None

    def oracle(self, case, out):
        if case.get('float'):
            return self.oracle_float(case, out)
        nrt = out['nrt']
        for what, o in (('NRT', nrt), ('NRT second play after main.reset()', nrt.get('rerun'))):
            if o is not None and o.get('error'):
                return {'what': f'{what}: the library failed or hung: {o["error"]}', 'signature': 'c05:error:nrt'}
        v = self.check_reset(case, nrt) if case.get('klass') == 'T' else self.check_run(case, nrt, 'nrt', 0)
        if v:
            return v
        ts = [F(t) for t in nrt['task_times']]
        for a, b in zip(ts, ts[1:]):
            if b < a:
                return {'what': f'NRT logical time went backwards between executed tasks: {fr(a)} then {fr(b)}',
                        'signature': 'c05:nrt-monotone'}
        if ts and (F(nrt['elapsed']) != ts[-1] or F(nrt['elapsed']) != max(ts)):
            return {'what': f'NRT: after main.process(tailtime={case.get("tail", "0")}) the logical time is '
                            f'{nrt["elapsed"]} s; the last performed instant is {fr(max(ts))} s (tail time and bundle '
                            f'latencies only lengthen the score)', 'signature': 'c05:nrt-elapsed'}
        if nrt.get('rerun'):
            v = self.check_run(case, nrt['rerun'], 'nrt', 0)
            if v:
                v['what'] = 'second play of the same routine objects after main.reset(): ' + v['what']
                v['signature'] = 'c05:replay:nrt'
                return v
        if out['rt'] is not None and not out['rt'].get('skipped') and out['rt'].get('rerun'):
            r2 = out['rt']['rerun']
            if not (r2.get('error') or '').startswith('livelock'):
                v = self.check_run(case, r2, 'rt', F(r2['start']))
                if v:
                    v['what'] = 'second play of the same routine objects: ' + v['what']
                    v['signature'] = 'c05:replay:rt'
                    return v
        if out['rt'] is not None and not out['rt'].get('skipped'):
            rt = out['rt']
            if rt.get('error') and rt['error'].startswith('livelock'):
                self._livelock = getattr(self, '_livelock', set()) | {common.canon(case)}
                return {'what': 'RT: ' + rt['error'], 'signature': 'c05:rt-livelock'}
            v = self.check_run(case, rt, 'rt', F(rt['start']))
            if v:
                return v
            # never early: the physical time of each awake is >= the logical time it reads
            evs, _, _ = parse_trace(rt['trace'])
            rs = [F(p[5]) for p in evs if p[0] == 'R']
            if len(rs) == len(rt['phys']):
                for lg, ph in zip(rs, rt['phys']):
                    if F(ph) < lg:
                        return {'what': f'RT task woken at physical {ph} s before its logical time {fr(lg)} s',
                                'signature': 'c05:rt-early'}
        return None

    def nontrivial(self, case, out):
        pos = any(a[0] == 'y' and F(a[1]) > 0 for s in case['rts'] for a in s)
        tempo = any(c != 'sys' for c in [case['root']] + [a[2] for s in case['rts'] for a in s if a[0] == 'spawn'])
        late = case.get('late') and case['late']['mode'] != 'zero' and any(F(v) > 0 for v in case['late']['vals'])
        return len(case['rts']) >= 2 and pos and bool(tempo or late)

    def histogram(self, cases, outs):
        h = {}

        def inc(k, n=1):
            h[k] = h.get(k, 0) + n
        for c, o in zip(cases, outs):
            inc('class:' + c.get('klass', '?'))
            inc(f'routines:{len(c["rts"])}')
            inc('late:' + (c['late']['mode'] if c.get('late') else 'nrt-only'))
            inc('root:' + ('tempo' if c['root'][0] == 't' else c['root']))
            for s in c['rts']:
                for a in s:
                    inc('act:' + a[0])
                    if a[0] == 'y' and F(a[1]) == 0:
                        inc('act:y:zero')
                    if a[0] == 'spawn':
                        inc('spawn-on:' + ('tempo' if a[2][0] == 't' else a[2]))
            if o['rt'] is not None:
                ph = [F(x) for x in o['rt']['phys']]
                evs, _, _ = parse_trace(o['rt']['trace'])
                rs = [F(p[5]) for p in evs if p[0] == 'R']
                if len(rs) == len(ph):
                    inc('rt:awakes', len(ph))
                    inc('rt:awakes-late', sum(1 for a, b in zip(rs, ph) if b > a))
                    inc('rt:awakes-late>=1/4', sum(1 for a, b in zip(rs, ph) if b - a >= F(1, 4)))
        h['programs'] = len(cases)
        return dict(sorted(h.items()))

    def shrink(self, case, fails):
        if common.canon(case) in getattr(self, '_livelock', set()):
            return case          # every attempt costs the full time-out; keep the input as found
        # drop routines from the end (with their spawns), then actions
        case = dict(case)
        while len(case['rts']) > 1:
            n = len(case['rts']) - 1
            uses = any(a[0] == 'spawn' and a[1] != n and False for s in case['rts'] for a in s)
            rts = [[a for a in s if not (a[0] in ('spawn', 'defer', 'pull') and a[1] == n)] for s in case['rts'][:n]]
            cand = {**case, 'rts': rts}
            if not uses and fails(cand):
                case = cand
            else:
                break
        for i in range(len(case['rts'])):
            def with_script(s, i=i):
                rts = [list(r) for r in case['rts']]
                rts[i] = s
                return {**case, 'rts': rts}
            if len(case['rts'][i]) >= 2:
                s2 = common.shrink_list(case['rts'][i], lambda s: fails(with_script(s)), max_steps=60)
                case = with_script(s2)
        if case.get('late') and case['late']['mode'] != 'zero':
            cand = {**case, 'late': {'mode': 'zero', 'vals': []}}
            if fails(cand):
                case = cand
        return case
