"""C03 — Multichannel expansion follows the wrap-and-zip law everywhere."""
import ast
import json
import re

from harness import common
from harness.impl import c03 as I

# modules whose constructors must all expand list arguments, whatever their body looks like (law oracle only
# when the body is not a direct delegation)
LAW_ONLY_MODULES = ('line', 'oscillators', 'noise')
SPREAD_PARAMS = ('array', 'default', 'list', 'lst', 'specs', 'specifications')   # spread into the unit's inputs by design
CHAN_PARAMS = {'channels', 'num_channels', 'numchans', 'n_channels', 'num_chans'}
STR_VOCAB = ['minmax', 'min', 'max', 'x']
NUMS = [0, 0, 1, -1, 0.5, 2, 3, 0.25, 440, 5, -0.5, 8, 0.125, 100]


# ---------------------------------------------------------------------------------------------
# tables read from the current source by `ast` (re-done every run)

def direct_table(repo):
    """(module, class, method) whose body is a direct `return cls._multi_new(<const|param>…)`"""
    out, not_direct, errors = [], 0, []
    for f in sorted((repo / 'sc3/synth/ugens').glob('*.py')):
        try:
            tree = ast.parse(f.read_text())
        except SyntaxError as e:
            errors.append(f'{f.name}: {e}')
            continue
        classes = {n.name: n for n in tree.body if isinstance(n, ast.ClassDef)}
        own = {}
        for cname, cls in classes.items():
            for fn in [n for n in cls.body if isinstance(n, ast.FunctionDef)]:
                if fn.name not in ('ar', 'kr', 'ir', 'new', 'dr'):
                    continue
                if not any(isinstance(d, ast.Name) and d.id == 'classmethod' for d in fn.decorator_list):
                    continue
                entry = _direct_entry(fn)
                if entry is None:
                    not_direct += 1
                    # the bus-input family (subclasses of AbstractIn in inout.py) must expand list-valued
                    # bus / channels / lag arguments whatever the constructor body looks like: it stays in
                    # the sweep for the law oracle (no Lean row: the tie is skipped)
                    bases = [getattr(b, 'id', getattr(b, 'attr', None)) for b in cls.bases]
                    a = fn.args
                    if ((f.stem == 'inout' and 'AbstractIn' in bases) or
                            (f.stem in LAW_ONLY_MODULES and _ends_in_multi_new(fn)
                             and not any(x.arg in SPREAD_PARAMS for x in a.args))) \
                            and not (a.vararg or a.kwarg or a.kwonlyargs):
                        names = [x.arg for x in a.args][1:]
                        nreq = len(names) - len(a.defaults)
                        entry = {'params': [{'name': n, 'req': True} if i < nreq else {'name': n, 'default': 0}
                                            for i, n in enumerate(names)], 'call': None, 'family': 'in'}
                own[(cname, fn.name)] = entry
        # classes of the module that inherit a direct constructor from a class of the same module
        for cname, cls in classes.items():
            chain, cur, seen = [], cls, set()
            while cur is not None and cur.name not in seen:
                seen.add(cur.name)
                chain.append(cur.name)
                base = next((b.id for b in cur.bases if isinstance(b, ast.Name) and b.id in classes), None)
                cur = classes.get(base)
            for meth in ('ar', 'kr', 'ir', 'new', 'dr'):
                for anc in chain:
                    if (anc, meth) in own:
                        e = own[(anc, meth)]
                        if e is not None:
                            out.append(dict(e, module=f.stem, cls=cname, method=meth, defined_in=anc))
                        break
    return out, not_direct, errors


def _ends_in_multi_new(fn):
    """the constructor still returns `cls._multi_new(<anything>)`: a real unit built by the generic expansion"""
    last = fn.body[-1]
    if isinstance(last, ast.Return) and isinstance(last.value, ast.Call):
        fu = last.value.func
        return isinstance(fu, ast.Attribute) and fu.attr == '_multi_new' and getattr(fu.value, 'id', None) == 'cls'
    return False


def _direct_entry(fn):
    body = fn.body
    if body and isinstance(body[0], ast.Expr) and isinstance(body[0].value, ast.Constant) \
            and isinstance(body[0].value.value, str):
        body = body[1:]
    if not (len(body) == 1 and isinstance(body[0], ast.Return) and isinstance(body[0].value, ast.Call)):
        return None
    c = body[0].value
    fu = c.func
    if not (isinstance(fu, ast.Attribute) and fu.attr == '_multi_new' and isinstance(fu.value, ast.Name)
            and fu.value.id == 'cls' and not c.keywords):
        return None
    a = fn.args
    if a.vararg or a.kwarg or a.kwonlyargs or a.posonlyargs:
        return None
    params = [x.arg for x in a.args][1:]
    if not all(isinstance(x, ast.Constant) or (isinstance(x, ast.Name) and x.id in params) for x in c.args):
        return None
    if not c.args or not isinstance(c.args[0], ast.Constant):
        return None
    nd = len(a.defaults)
    defaults = ([None] * (len(a.args) - nd) + list(a.defaults))[1:]
    ps = []
    for n, d in zip(params, defaults):
        if d is None:
            ps.append({'name': n, 'req': True})
        elif isinstance(d, ast.Constant) and (d.value is None or isinstance(d.value, (int, float, str))):
            ps.append({'name': n, 'default': d.value})
        elif isinstance(d, ast.UnaryOp) and isinstance(d.op, ast.USub) and isinstance(d.operand, ast.Constant):
            ps.append({'name': n, 'default': -d.operand.value})
        else:
            ps.append({'name': n, 'req': True})     # computed default: always passed explicitly
    call = [({'const': x.value} if isinstance(x, ast.Constant) else {'param': x.id}) for x in c.args]
    return {'params': ps, 'call': call}


def _methods_of(cls):
    """public instance methods of a class body: name -> (params, nreq, mode params, last statement)"""
    out = {}
    for fn in cls.body:
        if not isinstance(fn, ast.FunctionDef) or fn.name.startswith('_'):
            continue
        if any(isinstance(d, ast.Name) and d.id in ('classmethod', 'staticmethod', 'property') for d in fn.decorator_list):
            continue
        params = [x.arg for x in fn.args.args][1:]
        nd = len(fn.args.defaults)
        dflts = [None] * (len(params) - nd) + list(fn.args.defaults)
        mode = [p for p, d in zip(params, dflts) if isinstance(d, ast.Constant) and isinstance(d.value, str)]
        out[fn.name] = {'name': fn.name, 'params': params, 'nreq': len(params) - nd, 'mode_params': mode,
                        'last': fn.body[-1]}
    return out


def perform_table(repo):
    """The convenience methods a channel list must answer: EVERY public method a `UGen` channel
    answers (class UGen of ugen.py, by ast), with the channel's own signature, plus the public methods
    only `ChannelList` defines.  `kind` says how ChannelList implements it in the current source:
    'perform' (plain `_multichannel_perform` forwarder), 'other' (own body), 'inherited' (no override in
    ChannelList: AbstractObject/AbstractSequence), or 'documented-omission' (the ChannelList source says
    `# <name> is not implemented`)."""
    src = (repo / 'sc3/synth/ugen.py').read_text()
    tree = ast.parse(src)
    classes = {n.name: n for n in tree.body if isinstance(n, ast.ClassDef)}
    cl, ug = classes.get('ChannelList'), classes.get('UGen')
    if cl is None or ug is None:
        return None
    lines = src.splitlines()
    region = '\n'.join(lines[cl.lineno - 1:cl.end_lineno])
    omitted = set(re.findall(r'#\s*(\w+) is not implemented', region))
    clm, ugm = _methods_of(cl), _methods_of(ug)
    out = []
    for name in list(ugm) + [n for n in clm if n not in ugm]:
        m = dict(ugm.get(name) or clm[name])
        kind = 'inherited'
        if name in clm:
            kind = 'other'
            body = clm[name]['last']
            if isinstance(body, ast.Return) and isinstance(body.value, ast.Call):
                c = body.value
                if isinstance(c.func, ast.Attribute) and c.func.attr == '_multichannel_perform' \
                        and c.args and isinstance(c.args[0], ast.Constant) and c.args[0].value == name \
                        and [getattr(x, 'id', None) for x in c.args[1:]] == clm[name]['params']:
                    kind = 'perform'
        elif name in omitted:
            kind = 'documented-omission'
        m.pop('last', None)
        m['kind'] = kind
        m['channel_method'] = name in ugm
        out.append(m)
    return out


# ---------------------------------------------------------------------------------------------

def parse_tree(s):
    """parse driver/impl tree text into nested python: leaf = str, chan = list, kinds kept as ('k', [...])"""
    toks = re.findall(r'[tlc?]?\[|\]|\{[^}]*\}|[A-Z-]+', s)
    pos = [0]

    def rec():
        t = toks[pos[0]]
        pos[0] += 1
        if t.endswith('['):
            xs = []
            while toks[pos[0]] != ']':
                xs.append(rec())
            pos[0] += 1
            return {'k': t[:-1], 'xs': xs}
        return t
    r = rec()
    return r


def strip_kinds(t):
    if isinstance(t, dict):
        return [strip_kinds(x) for x in t['xs']]
    return t


def has_empty(a):
    if isinstance(a, dict) and 'cw' in a:
        return has_empty({'c': I.items(a)})
    if isinstance(a, dict):
        for k in ('l', 'c', 't'):
            if k in a:
                return len(a[k]) == 0 or any(has_empty(x) for x in a[k])
    return False


def tup_to_list(a):
    if isinstance(a, dict) and 'cw' in a:
        return tup_to_list({'c': I.items(a)})
    if isinstance(a, dict):
        for k in ('l', 'c', 't'):
            if k in a:
                return {'l': [tup_to_list(x) for x in a[k]]}
    return a


def has_tuple(a):
    if isinstance(a, dict):
        if 't' in a:
            return True
        for k in ('l', 'c'):
            if k in a:
                return any(has_tuple(x) for x in a[k])
    return False


def norm_kinds(t):
    """observed term with nested list kinds normalised: ['c'|'l', xs] -> {'chan': …}; other -> {'leaf': t}"""
    if isinstance(t, list) and t and t[0] in ('c', 'l') and len(t) == 2 and isinstance(t[1], list):
        return {'chan': [norm_kinds(x) for x in t[1]]}
    return {'leaf': t}


def match_law(got, want, path):
    """None if the observed term has the shape of the law tree with equal leaves, else a description"""
    if 'chan' in want:
        if not (isinstance(got, list) and len(got) == 2 and got[0] in ('c', 'l') and isinstance(got[1], list)):
            return f'at channel path {path}: not a list where the law gives {len(want["chan"])} channels'
        if len(got[1]) != len(want['chan']):
            return f'at channel path {path}: {len(got[1])} channels, the law gives {len(want["chan"])}'
        for i, (g, w) in enumerate(zip(got[1], want['chan'])):
            r = match_law(g, w, path + [i])
            if r:
                return r
        return None
    if common.canon(got) != common.canon(want['leaf']):
        return f'at channel path {path}: element differs from the single-channel call on the selected arguments'
    return None


def count_leaves(t):
    if isinstance(t, dict) and 'chan' in t:
        return sum(count_leaves(x) for x in t['chan'])
    return 1


class Check(common.Check):
    PROP = 'C03'
    LEAN_TARGETS = ['Sc3Verif.C03.Props']
    LEAN_DIRS = ['Sc3Verif/C03']
    THEOREMS = ['Sc3Verif.C03.' + t for t in (
        'mce_law', 'wrapAt_spec', 'mce_scalar', 'mce_untouched', 'mce_path_law', 'mce_calls_in_path_order',
        'mce_one_call_per_path', 'mce_unit_count_le', 'mce_unit_count_flat', 'mce_shape_indep', 'mce_no_error',
        'wrap_extend_law', 'binop_law', 'unop_law', 'narop_law', 'binop_container', 'flop_law', 'perform_law',
        'out_flatten', 'silence_only_replaces_zeros', 'silence_leaves_no_zero', 'silence_idempotent', 'out_no_literal_zero',
        'silence_levels')]
    N_QUICK = 3000
    N_THOROUGH = 60000
    ASSUMPTIONS = [
        'single-channel constructors (_new1/_init_ugen) are deterministic functions of their argument row',
        'numbers are dyadic so that printed values are exact',
    ]

    def __init__(self, tier, seed):
        super().__init__(tier, seed)
        self._tables = None

    # ---- tables / translator-like step ----------------------------------------------------
    def tables(self):
        if self._tables is None:
            d, nd, errs = direct_table(common.REPO)
            p = perform_table(common.REPO)
            self._tables = {'direct': d, 'not_direct': nd, 'errors': errs, 'perform': p}
        return self._tables

    def regen(self):
        t = self.tables()
        if t['errors']:
            return 'cannot parse: ' + '; '.join(t['errors'])
        if len(t['direct']) < 50:
            return f"only {len(t['direct'])} direct delegators found in sc3/synth/ugens (source shape changed?)"
        if not t['perform'] or sum(1 for m in t['perform'] if m['kind'] == 'perform') < 10:
            return 'ChannelList convenience methods not found in sc3/synth/ugen.py'
        return None

    def rule(self):
        return ('cases: 40% direct-delegating constructors (class table by ast each run) called in a build with '
                'scalars / tuples / lists of length 0-5 of different lengths / nesting <=3 / ChannelLists / omitted '
                'trailing args; 15% operators and AbstractObject methods on ChannelLists and UGens; 12% ChannelList '
                'convenience methods; 10% output units with zeros at every level; 23% utils (list_binop/unop/narop, '
                'wrap_extend, flop, _multichannel_perform) with recording leaves incl. tuples and empties. '
                'Non-trivial: the call expands to >= 2 single-channel calls (or a utils case with a sequence); '
                'distinct by case JSON')

    # ---- generator -------------------------------------------------------------------------
    def g_scalar(self, rng, npre):
        r = rng.random()
        if npre and r < 0.45:
            return {'u': rng.randrange(npre)}
        return rng.choice(NUMS)

    def g_list(self, rng, npre, depth, allow_empty=False, tuples=True):
        n = rng.choice([1, 2, 2, 3, 3, 4, 5])
        if allow_empty and rng.random() < 0.06:
            n = 0
        xs = []
        for _ in range(n):
            r = rng.random()
            if depth > 1 and r < 0.22:
                xs.append(self.g_list(rng, npre, depth - 1, allow_empty, tuples))
            elif tuples and r < 0.27:
                xs.append(self.g_tuple(rng, npre))
            else:
                xs.append(self.g_scalar(rng, npre))
        if tuples and rng.random() < 0.06:
            # a channel list constructed directly from ONE value: a tuple / scalar is one channel
            return {'cw': rng.choice([self.g_tuple(rng, npre), self.g_tuple(rng, npre), self.g_scalar(rng, npre)])}
        return {rng.choice(['l', 'l', 'c']): xs}

    def g_tuple(self, rng, npre):
        xs = [self.g_scalar(rng, npre) for _ in range(rng.randint(1, 3))]
        if rng.random() < 0.2:
            xs.append({'l': [self.g_scalar(rng, npre) for _ in range(rng.randint(1, 3))]})
        return {'t': xs}

    def g_val(self, rng, npre, p_list=0.45, depth=3, allow_empty=False, tuples=True):
        r = rng.random()
        if r < p_list:
            return self.g_list(rng, npre, depth, allow_empty, tuples)
        if tuples and r < p_list + 0.07:
            return self.g_tuple(rng, npre)
        return self.g_scalar(rng, npre)

    def g_pre(self, rng):
        return [rng.choice(['ar', 'ar', 'kr', 'kr', 'ar2', 'kr2', 'ir']) for _ in range(rng.randint(1, 5))]

    def gen_ctor(self, rng, entry=None):
        t = self.tables()['direct']
        e = entry or rng.choice(t)
        pre = self.g_pre(rng)
        ps = e['params']
        nreq = max([i + 1 for i, p in enumerate(ps) if p.get('req')], default=0)
        n = rng.randint(nreq, len(ps)) if rng.random() < 0.6 else len(ps)
        malformed = rng.random() < 0.08
        args = []
        for p in ps[:n]:
            if (p['name'] == 'default' and e['module'] == 'inout') or (e.get('family') and p['name'] in SPREAD_PARAMS):
                args.append(self.g_scalar(rng, len(pre)))      # LocalIn's default list is spread by design
            elif p['name'] == 'bus' and rng.random() < 0.5:
                args.append({rng.choice('lc'): [rng.choice([0, 2, 10, 12, 16]) for _ in range(rng.randint(1, 4))]})
            elif p['name'] in CHAN_PARAMS:
                if rng.random() < 0.3:
                    args.append({'l': [rng.randint(1, 3) for _ in range(rng.randint(1, 3))]})
                else:
                    args.append(rng.randint(1, 3))
            else:
                args.append(self.g_val(rng, len(pre), 0.45, 3, allow_empty=malformed))
        return {'k': 'ctor', 'mod': e['module'], 'cls': e['cls'], 'meth': e['method'], 'args': args,
                'pre': pre, 'strs': STR_VOCAB}

    def gen_op(self, rng):
        pre = self.g_pre(rng)
        npre = len(pre)
        binary = rng.random() < 0.75
        if not binary:
            name = rng.choice(list(I.UNOPS) + I.UN_METHODS)
            a = self.g_list(rng, npre, 3, tuples=False)
            a = {'c': I.items(a)}
            return {'k': 'op', 'op': name, 'a': a, 'pre': pre}
        name = rng.choice(list(I.BINOPS) + list(I.BINOPS) + I.BIN_METHODS + ['eq', 'ne'] * 3)
        shape = rng.random()
        if shape < 0.55:      # ChannelList on the left
            a = {'c': I.items(self.g_list(rng, npre, 3, tuples=False))}
            b = self.g_val(rng, npre, 0.6, 3, tuples=False)
        elif shape < 0.8:     # unit on the left, list on the right (BinaryOpUGen._multi_new)
            a = {'u': rng.randrange(npre)}
            b = self.g_list(rng, npre, 3, tuples=False)
        else:                 # number / unit on the left, ChannelList on the right (reflected)
            a = self.g_scalar(rng, npre)
            if name in I.BIN_METHODS:      # method syntax needs an object on the left
                a = {'u': rng.randrange(npre)}
            b = {'c': I.items(self.g_list(rng, npre, 3, tuples=False))}
        return {'k': 'op', 'op': name, 'a': a, 'b': b, 'pre': pre}

    # not element-wise by definition: dup (n references to the list), sum (fold), poll/dpoll (labels)
    METH_SPECIAL = ('dup', 'sum', 'poll', 'dpoll')

    def meth_table(self):
        return [m for m in self.tables()['perform'] if m['name'] not in self.METH_SPECIAL
                and m['kind'] != 'documented-omission']

    def gen_meth(self, rng, entry=None):
        """every public ChannelList method of the source (signature by ast, whatever its body looks
        like) called with every parameter: all-args calls are the majority, mode-like parameters
        (default is a string or None) get strings / None / lists of them"""
        tab = self.meth_table()
        m = entry or rng.choice(tab)
        pre = [rng.choice(['ar', 'ar', 'kr']) for _ in range(rng.randint(1, 5))]
        npre = len(pre)
        self_ = [{'u': rng.randrange(npre)} for _ in range(rng.choice([1, 2, 2, 3, 4]))]
        shape = rng.random()
        if shape < 0.25:
            # plain NUMBER channels among the units (a folded `sig * [1, 0, 0.5]`): a number stays a number
            for i in range(len(self_)):
                if rng.random() < 0.5:
                    self_[i] = rng.choice([0, 0.0, 0.5, 1, 2])
        elif shape < 0.45:
            # nested receiver (rows of a multi-output source): row i gets element i of every list argument
            for i in range(len(self_)):
                if rng.random() < 0.6:
                    self_[i] = {'c': [{'u': rng.randrange(npre)} for _ in range(rng.randint(1, 3))]}
        if entry is None and rng.random() < 0.06:
            self_ = [x if isinstance(x, dict) and 'u' in x else {'u': 0} for x in self_]
            nm = rng.choice(['dup', 'sum'])
            return {'k': 'meth', 'name': nm, 'self': self_, 'args': [rng.randint(1, 4)] if nm == 'dup' and rng.random() < 0.7 else [],
                    'pre': pre, 'strs': STR_VOCAB}
        n = len(m['params']) if rng.random() < 0.65 else rng.randint(m['nreq'], len(m['params']))
        modes = [{'s': 'minmax'}, {'s': 'min'}, {'s': 'max'}, None]
        args = []
        for p in m['params'][:n]:
            if p in ('clip', 'type') or p in m.get('mode_params', ()):
                if rng.random() < 0.3:
                    args.append({rng.choice('lc'): [rng.choice(modes) for _ in range(rng.randint(1, 5))]})
                else:
                    args.append(rng.choice(modes[1:] + modes))
            elif p in ('start',):
                args.append(rng.choice([None, 0.5]))
            else:
                r = rng.random()
                if r < 0.4:
                    args.append({rng.choice('lc'): [self.g_scalar(rng, npre) for _ in range(rng.randint(1, 5))]})
                elif r < 0.45:
                    args.append(self.g_tuple(rng, npre))
                else:
                    args.append(self.g_scalar(rng, npre))
        return {'k': 'meth', 'name': m['name'], 'self': self_, 'args': args, 'pre': pre, 'strs': STR_VOCAB}

    def gen_out(self, rng):
        pre = [rng.choice(['ar', 'ar', 'ar', 'kr', 'ar2']) for _ in range(rng.randint(1, 4))]
        npre = len(pre)
        cls = rng.choice(['Out', 'Out', 'ReplaceOut', 'OffsetOut', 'XOut', 'LocalOut'])
        meth = 'ar' if cls == 'OffsetOut' or rng.random() < 0.7 else 'kr'
        fixed = []
        if cls != 'LocalOut':
            fixed.append(rng.choice([0, 0, 1, 2, {'u': rng.randrange(npre)}, {'l': [0, 2]}, {'l': [0, 1, 2]}]))
        if cls == 'XOut':
            fixed.append(rng.choice([0.5, 1, {'u': rng.randrange(npre)}, {'l': [0.25, 0.5]}]))

        def zval(depth):
            r = rng.random()
            if depth > 0 and r < 0.12:      # a caller-owned routing row of plain numbers, zeros included
                return {rng.choice('llc'): [rng.choice([0, 0, 0.0, 1, 0.5]) for _ in range(rng.randint(1, 3))]}
            if r < 0.3:
                return rng.choice([0, 0, 0.0, False])
            if r < 0.4:
                return rng.choice([1, 0.5, -1])
            if depth > 0 and r < 0.55:
                return {rng.choice('llc'): [zval(depth - 1) for _ in range(rng.randint(0 if rng.random() < 0.05 else 1, 4))]}
            if r < 0.6:
                return {'t': [zval(0) for _ in range(rng.randint(1, 2))]}
            return {'u': rng.randrange(npre)}
        r = rng.random()
        if r < 0.15:
            output = zval(0)
        else:
            output = {rng.choice('llc'): [zval(2) for _ in range(rng.randint(1, 5))]}
        return {'k': 'out', 'cls': cls, 'meth': meth, 'fixed': fixed, 'output': output, 'pre': pre}

    def gen_util(self, rng):
        npre = 4
        k = rng.choice(['lbinop'] * 8 + ['lunop'] * 3 + ['lnarop'] * 2 + ['wrapext'] * 3 + ['flop'] * 4 + ['perform'] * 3)
        ae = rng.random() < 0.15
        if k == 'lbinop':
            return {'k': k, 't': rng.choice('ccclt'), 'a': self.g_val(rng, npre, 0.75, 3, ae),
                    'b': self.g_val(rng, npre, 0.65, 3, ae)}
        if k == 'lunop':
            return {'k': k, 't': rng.choice('ccclt'), 'a': self.g_val(rng, npre, 0.85, 3, ae)}
        if k == 'lnarop':
            return {'k': k, 't': rng.choice('ccclt'), 'a': self.g_val(rng, npre, 0.85, 3, ae),
                    'args': [self.g_val(rng, npre, 0.3, 2) for _ in range(rng.randint(0, 3))]}
        if k == 'wrapext':
            return {'k': k, 'items': [self.g_scalar(rng, npre) for _ in range(rng.choice([0, 1, 2, 3, 3, 4, 5]))],
                    'n': rng.choice([0, 1, 2, 3, 4, 5, 6, 7, 9, 10, 12, 16])}
        if k == 'flop':
            cols = [self.g_val(rng, npre, 0.6, 2, ae) for _ in range(rng.randint(0 if rng.random() < 0.05 else 1, 4))]
            if rng.random() < 0.2:
                cols.append({'s': 'minmax'})
            return {'k': k, 'cols': cols, 'strs': STR_VOCAB}
        return {'k': 'perform', 'self': [{'u': rng.randrange(npre)} for _ in range(rng.randint(1, 4))],
                'args': [rng.choice([self.g_val(rng, npre, 0.5, 2, ae), {'s': 'minmax'}, None])
                         for _ in range(rng.randint(0, 4))], 'strs': STR_VOCAB}

    def gen(self, rng, n):
        cases = []
        table = self.tables()['direct']
        if self.tier == 'thorough':
            # every eligible (class, method) several times
            reps = max(1, (n * 4 // 10) // max(1, len(table)))
            for e in table:
                for _ in range(reps):
                    cases.append(self.gen_ctor(rng, e))
        else:
            # quick: a rotating slice of the class table so that seeds cover different classes
            idx = list(range(len(table)))
            rng.shuffle(idx)
            for i in idx[:n * 4 // 10]:
                cases.append(self.gen_ctor(rng, table[i]))
        # the bus input/output family: several list-valued bus / channels cases per constructor
        for e in table:
            if e['module'] == 'inout' or e.get('family'):
                for _ in range(6):
                    cases.append(self.gen_ctor(rng, e))
        # every ChannelList convenience method, every parameter, several times
        mtab = self.meth_table()
        for _ in range(12 if self.tier == 'thorough' else 3):
            for m in mtab:
                cases.append(self.gen_meth(rng, m))
        while len(cases) < n:
            r = rng.random()
            if r < 0.1:
                cases.append(self.gen_ctor(rng))
            elif r < 0.35:
                cases.append(self.gen_op(rng))
            elif r < 0.55:
                cases.append(self.gen_meth(rng))
            elif r < 0.7:
                cases.append(self.gen_out(rng))
            else:
                cases.append(self.gen_util(rng))
        return cases

    # ---- runners ---------------------------------------------------------------------------
    def impl(self, cases):
        res, err = common.run_impl('c03', 'run', {'cases': cases}, timeout=3000)
        if res is None:
            self.notes.append(err)
            return None
        for r in res:
            if 'infra' in r:
                raise common.Infra('impl runner: ' + r['infra'])
        return res

    def ctor_row(self, case):
        """the `_multi_new` row according to the constructor's source (ast): constants and parameters"""
        for e in self.tables()['direct']:
            if (e['module'], e['cls'], e['method']) == (case['mod'], case['cls'], case['meth']):
                break
        else:
            return None
        if e.get('call') is None:
            return None
        vals = {}
        for i, p in enumerate(e['params']):
            if i < len(case['args']):
                vals[p['name']] = case['args'][i]
            elif 'default' in p:
                d = p['default']
                vals[p['name']] = {'s': d} if isinstance(d, str) else d
            else:
                return None
        row = []
        for c in e['call']:
            if 'const' in c:
                v = c['const']
                row.append({'r': v} if v in I.RATE_IDS else ({'s': v} if isinstance(v, str) else v))
            else:
                row.append(vals[c['param']])
        return row

    def model_line(self, case):
        strs = I.strings_of(case) if 'strs' not in case else case['strs']
        k = case['k']

        def T(a):
            try:
                return I.tok(a, strs)
            except ValueError:
                return '?str'
        if k == 'ctor':
            row = self.ctor_row(case)
            if row is None:
                return None
            return 'mn ' + ' '.join(T(a) for a in row)
        if k == 'out':
            rate = {'r': 'audio' if case['meth'] == 'ar' else 'control'}
            if case['cls'] == 'LocalOut' and case['meth'] == 'kr':
                rate = {'r': 'control'}
            fixed = [rate] + case['fixed']
            if case['meth'] == 'ar':
                return f"outar {I.FRESH} {len(fixed)} " + ' '.join(T(a) for a in fixed + [case['output']])
            return f"outkr {len(fixed)} " + ' '.join(T(a) for a in fixed + [case['output']])
        if k == 'lbinop':
            return f"lbinop {case['t']} {T(case['a'])} {T(case['b'])}"
        if k == 'lunop':
            return f"lunop {case['t']} {T(case['a'])}"
        if k == 'lnarop':
            return f"lnarop {case['t']} " + ' '.join(T(a) for a in [case['a']] + case['args'])
        if k == 'wrapext':
            return f"wrapext {case['n']} " + ' '.join(T(a) for a in case['items'])
        if k == 'flop':
            return 'flop ' + ' '.join(T(a) for a in case['cols'])
        if k == 'perform':
            return 'perform ' + ' '.join(T(a) for a in [{'c': case['self']}] + case['args'])
        if k == 'op':
            # which function the operator syntax reaches (AbstractSequence / UGen `_compose_binop`):
            # a ChannelList operand on either side of a non-unit -> utils.list_binop(..., ChannelList);
            # a unit on the left -> BinaryOpUGen.new -> _multi_new
            a = case['a']
            if 'b' not in case:
                return f"lunop c {T(a)}"
            if isinstance(a, dict) and 'u' in a:
                return f"mn {T(a)} {T(case['b'])}"
            return f"lbinop c {T(a)} {T(case['b'])}"
        return None

    def model(self, cases):
        lines, where = [], []
        for i, c in enumerate(cases):
            l = self.model_line(c)
            if l is not None:
                where.append(i)
                lines.append(l)
        out, err = common.run_driver('Sc3Verif/C03/Driver.lean', lines)
        if out is None:
            raise RuntimeError('driver failed: ' + err)
        if len(out) != len(lines):
            raise RuntimeError(f'driver returned {len(out)} lines for {len(lines)} ops')
        res = [None] * len(cases)
        for i, l, o in zip(where, lines, out):
            res[i] = {'line': l, 'out': o}
        return res

    def compare(self, case, io, mo):
        """tie: real code vs Lean driver"""
        if mo is None:
            return None
        k = case['k']
        m = mo['out']
        if m == 'bad-op':
            return {'model': 'bad-op', 'line': mo['line']}
        if k == 'ctor':
            obs = io['obs']
            row = mo['line'][3:]
            if obs.get('row') is not None and obs['row'] != row:
                return {'what': 'row handed to _multi_new', 'impl': obs['row'], 'model': row}
            if 'exc' in obs:
                if obs['exc'] == 'ZeroDivisionError':
                    return None if 'ERR' in m else {'impl': 'ZeroDivisionError', 'model': m}
                # the single-channel constructor raised: the calls made so far are a prefix of the model's
                leaves = re.findall(r'\{([^}]*)\}', m)
                if obs['calls'] != leaves[:len(obs['calls'])]:
                    return {'what': 'calls before the exception', 'impl': obs['calls'], 'model': leaves}
                return None
            if obs['tree'] != m:
                return {'impl': obs['tree'], 'model': m}
            return None
        if k == 'out':
            obs = io['obs']
            if 'exc' in obs:
                if obs['exc'] == 'ZeroDivisionError':
                    return None if 'ERR' in m else {'impl': 'ZeroDivisionError', 'model': m}
                return None
            if case['meth'] == 'ar':
                nsil, _, rest = m.partition(' ')
                if str(obs['silence']) != nsil:
                    return {'what': 'number of silence units', 'impl': obs['silence'], 'model': nsil}
            else:
                rest = m
            got = ' '.join('{' + c + '}' for c in obs['calls'])
            if case['cls'] == 'LocalOut' and case['meth'] == 'kr':
                pass
            if got != rest:
                return {'impl': got, 'model': rest}
            return None
        if k == 'op':
            obs = io['obs']
            if 'exc' in obs or 'ERR' in m:
                return None

            def kinds(t):
                if isinstance(t, list) and len(t) == 2 and t[0] in ('c', 'l', 't') and isinstance(t[1], list):
                    return t[0] + '[' + ' '.join(kinds(x) for x in t[1]) + ']'
                return '*'
            want = re.sub(r'\{[^}]*\}', '*', m)
            if mo['line'].startswith('mn '):
                want = re.sub(r'(?<![a-z])\[', 'c[', want)
            got = kinds(obs['ret'])
            if got != want:
                return {'what': 'shape and container types of the operator result', 'impl': got, 'model': want}
            return None
        if io['out'].startswith('EXC:'):
            if 'ERR' in m and io['out'] in ('EXC:IndexError', 'EXC:ZeroDivisionError'):
                return None
            return {'impl': io['out'], 'model': m}
        if io['out'] != m:
            return {'impl': io['out'], 'model': m}
        return None

    # ---- property oracle (independent of the Lean model) ----------------------------------------
    def oracle(self, case, io):
        k = case['k']
        if k in ('ctor', 'out'):
            # expansion is a function of the argument VALUES: the caller's argument objects are left as
            # they were, and the same call on the same objects in a second build gives the same result
            name = f"{case['cls']}.{case['meth']}"
            if io.get('args_changed'):
                return {'what': f"{name} modified the caller's argument object(s) at {io['args_changed']} "
                                f"(sequences of numbers handed in by the caller)", 'signature': f'{k}:args-mutated'}
            if io.get('again_same') is False:
                return {'what': f"{name} called again in a second build with the very same argument objects "
                                f"gives a different result", 'signature': f'{k}:rebuild-differs',
                        'second': io.get('again')}
        if k in ('ctor', 'op', 'meth'):
            return self.oracle_law(case, io)
        if k == 'out':
            return self.oracle_out(case, io)
        return self.oracle_util(case, io)

    def oracle_law(self, case, io):
        obs, exp = io['obs'], io['exp']
        k = case['k']
        sig = f"{k}:{case.get('cls') or case.get('op') or case.get('name')}"
        if 'exc' in exp:
            if 'exc' in obs:
                return None
            if exp['exc'] == 'LawError':
                return None   # the law is undefined (empty list); nothing to require
            return {'what': f"expanded call returned a value, the single-channel call raises {exp['exc']}",
                    'signature': sig + ':no-exc'}
        if 'exc' in obs:
            return {'what': f"expanded call raised {obs['exc']}, all single-channel calls of the law succeed",
                    'signature': sig + ':exc'}
        want = exp['ret']
        if 'chan' in want:
            # an expansion must give a ChannelList at the top
            if not (isinstance(obs['ret'], list) and obs['ret'][:1] == ['c']):
                return {'what': 'expansion does not return a ChannelList', 'signature': sig + ':type'}
        if k == 'meth' and '"?"' in json.dumps(obs['ret']):
            return {'what': 'the result holds an object that is neither a number, a unit, an output proxy nor a '
                            'list (e.g. a parameter wrapper): a number channel must stay a number',
                    'signature': sig + ':element-type'}
        bad = match_law(obs['ret'], want, [])
        if bad:
            return {'what': bad, 'signature': sig + ':law', 'expected': want}
        if obs['nunits'] != exp['nunits']:
            return {'what': f"{obs['nunits']} units created, the single-channel calls create {exp['nunits']}",
                    'signature': sig + ':count'}
        return None

    def oracle_out(self, case, io):
        obs = io['obs']
        sig = f"out:{case['cls']}.{case['meth']}"
        ar = case['meth'] == 'ar'
        out = case['output']
        xs = I.items(out) if I.is_list(out) else [out]
        counter = [0]

        def zero(v):
            return isinstance(v, (int, float)) and v == 0

        def rz(lst):
            me = counter[0]
            counter[0] += 1
            res = []
            for x in lst:
                if zero(x):
                    res.append({'z': me})
                elif I.is_list(x):
                    res.append({('c' if ('c' in x or 'cw' in x) else 'l'): rz(I.items(x))})
                else:
                    res.append(x)
            return res
        ys = rz(xs) if ar else xs
        nsil = counter[0]
        args = list(case['fixed']) + ys
        try:
            paths = I.law_paths(args)
        except I.LawError:
            return None
        if 'exc' in obs:
            return {'what': f"{case['cls']}.{case['meth']} raised {obs['exc']}", 'signature': sig + ':exc'}
        rate = 'audio' if ar else 'control'

        def term(a):
            if isinstance(a, bool):
                return ['n', int(a) * I.SCALE]
            if isinstance(a, (int, float)):
                return ['n', int(a * I.SCALE)]
            if a is None:
                return None
            if 'z' in a:
                return ['p', ['U', 'DC', 'audio', 0, [['n', 0]], 1], 0]
            if 'u' in a:
                return ['u', a['u']]
            for kk in ('t', 'l', 'c'):
                if kk in a:
                    return [kk, [term(x) for x in a[kk]]]
            raise ValueError(a)
        want = []
        for p in paths:
            row = [I.law_sel(a, p) for a in args]
            want.append(['U', case['cls'], rate, 0, [term(a) for a in row], 0])
        if len(obs['units']) != len(want):
            return {'what': f"{len(obs['units'])} output units, the law gives {len(want)}", 'signature': sig + ':count'}
        for i, (g, w) in enumerate(zip(obs['units'], want)):
            if g[2] != w[2]:
                return {'what': f"output unit #{i} has rate {g[2]}, {case['cls']}.{case['meth']} must build {w[2]} units",
                        'signature': sig + ':rate'}
            if common.canon(g) != common.canon(w):
                return {'what': f'output unit #{i} inputs differ from the flattened, zero-replaced channel row',
                        'signature': sig + ':inputs', 'expected': w, 'got': g}
        if obs['others']:
            return {'what': f"unexpected units {obs['others']}", 'signature': sig + ':others'}
        return None

    def oracle_util(self, case, io):
        k = case['k']
        o = io['out']
        sig = 'util:' + k
        if k == 'wrapext':
            xs, n = case['items'], case['n']
            want = [] if (not xs or n <= 0) else [xs[i % len(xs)] for i in range(n)]
            w = ' '.join(I.tok(x, []) for x in want)
            return None if o == w else {'what': f'wrap_extend gives `{o}`, law `{w}`', 'signature': sig}
        strs = case.get('strs') or I.strings_of(case)
        if k in ('flop', 'perform'):
            cols = case['cols'] if k == 'flop' else [{'c': case['self']}] + case['args']
            cs = [I.items(c) if I.is_list(c) else [c] for c in cols]
            if not cs:
                w = '{}'
            else:
                if any(len(c) == 0 for c in cs):
                    return None
                rows = [[c[i % len(c)] for c in cs] for i in range(max(len(c) for c in cs))]
                w = ' '.join('{' + ' '.join(I.tok(x, strs) for x in r) + '}' for r in rows)
            return None if o == w else {'what': f'{k} gives `{o}`, wrap-and-zip table `{w}`', 'signature': sig}
        # list_binop / list_unop / list_narop: tuples are sequences here (documented in utils.list_binop)
        ops = [case['a']] + ([case['b']] if k == 'lbinop' else [])
        if any(has_empty(x) for x in ops):
            return None
        extra = case.get('args', [])
        args = [tup_to_list(x) for x in ops]

        def leaf(row, path):
            return '{' + ' '.join(I.tok(x, strs) for x in row + extra) + '}'
        want = I.law_tree(args, leaf)

        def conv(t):
            return [conv(x) for x in t['chan']] if isinstance(t, dict) else t
        want = conv(want)
        if o.startswith('EXC:'):
            return {'what': f'{k} raised {o[4:]} on non-empty operands', 'signature': sig + ':exc'}
        got = parse_tree(o)
        if isinstance(got, dict) and got['k'] != case['t']:
            return {'what': f"result container is `{got['k']}`, asked for `{case['t']}`", 'signature': sig + ':type'}
        if common.canon(strip_kinds(got)) != common.canon(want):
            return {'what': f'{k} differs from the wrap-and-zip law', 'signature': sig + ':law',
                    'expected': want}
        return None

    # ---- evidence bits --------------------------------------------------------------------------
    def nontrivial(self, case, io):
        k = case['k']
        if k in ('ctor', 'op', 'meth'):
            e = io['exp']
            return 'ret' in e and count_leaves(e['ret']) >= 2 and 'exc' not in io['obs']
        if k == 'out':
            return 'exc' not in io['obs'] and (len(io['obs']['units']) >= 2 or io['obs']['silence'] >= 2)
        return '[' in io['out'] or '{' in io['out'] or (k == 'wrapext' and case['n'] > len(case['items']) > 0)

    def histogram(self, cases, outs):
        h = {}

        def inc(key):
            h[key] = h.get(key, 0) + 1
        classes = set()
        for c, o in zip(cases, outs):
            inc('kind:' + c['k'])
            if c['k'] == 'ctor':
                classes.add((c['mod'], c['cls'], c['meth']))
            if c['k'] in ('ctor', 'op', 'meth'):
                if 'exc' in o['obs']:
                    inc('obs-exc:' + o['obs']['exc'])
                elif 'ret' in o['exp']:
                    n = count_leaves(o['exp']['ret'])
                    inc('leaves:' + ('1' if n == 1 else '2-3' if n <= 3 else '4-8' if n <= 8 else '9+'))

                    def depth(t):
                        return 1 + max([depth(x) for x in t['chan']], default=0) if 'chan' in t else 0
                    inc(f"depth:{depth(o['exp']['ret'])}")
            elif c['k'] == 'out':
                if o.get('nshared'):
                    inc('out-with-caller-owned-sequences')
                if 'exc' in o['obs']:
                    inc('out-exc:' + o['obs']['exc'])
                else:
                    inc(f"out-silences:{min(o['obs']['silence'], 4)}")
            elif o['out'].startswith('EXC:') or 'ERR' in o['out']:
                inc('util-exc')
        t = self.tables()
        h['direct_delegators_in_source'] = len(t['direct'])
        h['constructors_not_direct_skipped'] = t['not_direct']
        h['direct_delegators_exercised'] = len(classes)
        h['perform_methods_in_source'] = sum(1 for m in t['perform'] if m['kind'] == 'perform')
        h['channellist_methods_driven'] = ' '.join(sorted({c['name'] for c in cases if c['k'] == 'meth'}))
        h['channellist_methods_not_plain_forwarders'] = ' '.join(f"{m['name']}:{m['kind']}" for m in t['perform'] if m['kind'] != 'perform')
        h['direct_delegator_classes'] = ' '.join(sorted(f'{m}.{c}.{k}' for m, c, k in classes))
        return h

    def shrink(self, case, fails):
        """batched greedy shrinking: all one-step simplifications of the current case are run in ONE
        implementation process; the first that still violates with the same signature is kept"""
        def first_leaf(a):
            while isinstance(a, dict) and any(k in a for k in ('l', 'c', 't')):
                xs = a.get('l') or a.get('c') or a.get('t') or []
                if not xs:
                    return 0
                a = xs[0]
            return a

        def shrink_val(a):
            if isinstance(a, dict):
                for k in ('l', 'c', 't'):
                    if k in a:
                        xs = a[k]
                        yield first_leaf(a)
                        for i in range(len(xs)):
                            if len(xs) > 1:
                                yield {k: xs[:i] + xs[i + 1:]}
                        for i in range(len(xs)):
                            for x2 in shrink_val(xs[i]):
                                yield {k: xs[:i] + [x2] + xs[i + 1:]}
            elif isinstance(a, (int, float)) and a not in (0, 1):
                yield 1

        def variants(c):
            for key in ('args', 'self', 'fixed'):
                if isinstance(c.get(key), list):
                    if key != 'fixed' and len(c[key]) > (1 if key == 'self' else 0):
                        d = json.loads(json.dumps(c))
                        d[key] = d[key][:-1]
                        yield d
                    for i, a in enumerate(c[key]):
                        for a2 in shrink_val(a):
                            d = json.loads(json.dumps(c))
                            d[key][i] = a2
                            yield d
            for key in ('a', 'b', 'output'):
                if key in c:
                    for a2 in shrink_val(c[key]):
                        if key == 'a' and c['k'] == 'op' and not isinstance(a2, dict):
                            continue
                        d = json.loads(json.dumps(c))
                        d[key] = a2
                        yield d

        def sig_of(c, o):
            try:
                v = self.oracle(c, o)
            except Exception:
                return None
            return v.get('signature') if v else None
        outs = self.impl([case])
        if not outs:
            return case
        want = sig_of(case, outs[0])
        if want is None:
            return case
        cur = case
        for _ in range(25):
            cands = list(variants(cur))[:120]
            if not cands:
                break
            try:
                outs = self.impl(cands)
            except Exception:
                break
            if not outs:
                break
            nxt = next((c for c, o in zip(cands, outs) if sig_of(c, o) == want), None)
            if nxt is None:
                break
            cur = nxt
        return cur
