"""C09 — Time-ordered collections are stable priority queues under any history."""
from harness import common


class Check(common.Check):
    PROP = 'C09'
    LEAN_TARGETS = ['Sc3Verif.C09.Props']
    LEAN_DIRS = ['Sc3Verif/C09']
    THEOREMS = ['Sc3Verif.C09.' + t for t in (
        'refines_sorted_list', 'refines_from_reachable', 'iter_is_sorted_contents',
        'each_at_most_once', 'pop_is_head', 'pop_nondecreasing', 'two_pops_ordered',
        'fifo_among_equal', 'readd_moves_to_new_time_as_latest', 'remove_preserves_others',
        'empty_iff_no_live', 'peek_smallest_is_next_pop', 'peek_largest_is_max_latest',
        'removed_counter_counts_tombstones', 'drain_refines')]
    N_QUICK = 1000
    N_THOROUGH = 60000
    ASSUMPTIONS = ['heapq implements a priority queue under Python list comparison (trusted)',
                   'priorities are totally ordered (no NaN); modelled as Int, run as k/8 floats']

    def rule(self):
        return ('histories of 1-200 ops over 1-12 task ids and 1-6 distinct priorities (ties frequent), '
                'weights favouring re-add and remove-then-peek; thorough adds all histories of length <=5 '
                'over 2 tasks x 2 prios. Non-trivial: history contains a re-add or a remove of a live task '
                'and at least one pop/peek/iter that returns an item; distinct by op list')

    def gen_one(self, rng):
        nt, npr = rng.randint(1, 12), rng.randint(1, 6)
        n = rng.choice([rng.randint(1, 12), rng.randint(10, 60), rng.randint(50, 200)])
        ops = []
        for _ in range(n):
            r = rng.random()
            if r < 0.42:
                ops.append(f'add {rng.randrange(npr) - 1} {rng.randrange(nt)}')
            elif r < 0.55:
                ops.append(f'remove {rng.randrange(nt)}')
                if rng.random() < 0.5:
                    ops.append(rng.choice(['peekS', 'peekL', 'empty', 'iter']))
            elif r < 0.72:
                ops.append('pop')
            elif r < 0.80:
                ops.append('peekS')
            elif r < 0.87:
                ops.append('peekL')
            elif r < 0.93:
                ops.append('empty')
            elif r < 0.95:
                ops.append('clear')
            else:
                ops.append('iter')
        return ops

    def gen_shutdown(self, rng):
        """exit actions that register, move or cancel other exit actions while shutdown runs"""
        nt = rng.randint(2, 8)
        adds = [[rng.randrange(0, 4), t] for t in range(nt) if rng.random() < 0.8] or [[0, 0]]
        beh = {}
        fresh = nt
        for p, t in adds:
            ops = []
            for _ in range(rng.choice([0, 0, 1, 1, 2])):
                r = rng.random()
                if r < 0.45:
                    ops.append(['a', rng.randrange(0, 5), fresh]); fresh += 1      # register a new one
                elif r < 0.8:
                    later = [u for _, u in adds if u > t]     # only later ids: no re-registration cycles
                    if later:
                        ops.append(['a', rng.randrange(0, 5), rng.choice(later)])   # move / re-register
                else:
                    ops.append(['r', rng.choice(adds)[1]])                       # cancel
            if ops:
                beh[str(t)] = ops
        # no action re-registers itself (would never terminate)
        for t, ops in beh.items():
            beh[t] = [o for o in ops if not (o[0] == 'a' and str(o[2]) == t)]
        return {'adds': adds, 'beh': beh}

    def gen(self, rng, n):
        cases = [self.gen_one(rng) for _ in range(n)]
        cases += [self.gen_shutdown(rng) for _ in range(max(20, n // 8))]
        if self.tier == 'thorough':
            import itertools
            alpha = ['add 0 0', 'add 0 1', 'add 1 0', 'add 1 1', 'remove 0', 'remove 1', 'pop',
                     'peekS', 'peekL', 'empty', 'iter']
            for k in range(1, 6):
                for h in itertools.product(alpha, repeat=k):
                    if h[-1].startswith(('add', 'remove')):
                        continue
                    cases.append(list(h))
        return cases

    def impl(self, cases):
        res, err = common.run_impl('c09', 'run', {'cases': cases})
        if res is None:
            self.notes.append(err)
        return res

    def model(self, cases):
        lines = []
        for ops in cases:
            lines.append('reset')
            if isinstance(ops, dict):
                lines.extend(f'add {p} {t}' for p, t in ops['adds'])
                lines.append('drain ' + ' '.join(
                    f'{t}:' + ';'.join('.'.join(str(x) for x in o) for o in os_) for t, os_ in ops['beh'].items()))
            else:
                lines.extend(ops)
        out, err = common.run_driver('Sc3Verif/C09/Driver.lean', lines)
        if out is None:
            raise RuntimeError('driver failed: ' + err)
        res, cur = [], None
        for l in out:
            if l == 'reset':
                cur = []; res.append(cur)
            else:
                cur.append(l)
        # a shutdown case prints one 'ok' per add and then the drain line; keep the drain line
        return [([c[-1]] if isinstance(case, dict) else c) for case, c in zip(cases, res)]

    # ---- property oracle on the real behaviour (independent of the Lean model) -----------
    def oracle_shutdown(self, case, out):
        s, seq, ran = [], 0, []

        def add(p, t):
            nonlocal s, seq
            s = [x for x in s if x[2] != t]
            s.append((p, seq, t)); seq += 1; s.sort()
        for p, t in case['adds']:
            add(p, t)
        while s and len(ran) <= 200:
            _, _, t = s.pop(0)
            ran.append(t)
            for op in case['beh'].get(str(t), []):
                if op[0] == 'a':
                    add(op[1], op[2])
                else:
                    s = [x for x in s if x[2] != op[1]]
        exp = 'ran ' + ' '.join(str(t) for t in ran)
        if out != [exp]:
            return {'what': f'shutdown ran exit actions as `{out[0] if out else None}`; every registered action, in time '
                            f'order with FIFO ties, including those registered or moved during shutdown: `{exp}`',
                    'signature': 'taskq:shutdown'}
        return None

    def oracle(self, ops, out):
        if isinstance(ops, dict):
            return self.oracle_shutdown(ops, out)
        s = []   # list of (prio, seq, task), kept sorted by (prio, seq)
        seq = 0
        for i, (line, o) in enumerate(zip(ops, out)):
            w = line.split()
            exp = 'ok'
            if w[0] == 'add':
                p, t = int(w[1]), int(w[2])
                s = [x for x in s if x[2] != t]
                s.append((p, seq, t)); seq += 1
                s.sort()
            elif w[0] == 'remove':
                s = [x for x in s if x[2] != int(w[1])]
            elif w[0] == 'pop':
                exp = f'({s[0][0]},{s[0][2]})' if s else 'KeyError'
                s = s[1:]
            elif w[0] == 'peekS':
                exp = f'({s[0][0]},{s[0][2]})' if s else 'KeyError'
            elif w[0] == 'peekL':
                exp = f'({s[-1][0]},{s[-1][2]})' if s else 'KeyError'
            elif w[0] == 'empty':
                exp = str(not s)
            elif w[0] == 'clear':
                s = []
            elif w[0] == 'iter':
                exp = '[' + ','.join(f'({x[0]},{x[2]})' for x in s) + ']'
            if o != exp:
                return {'what': f'op #{i} `{line}` returned {o}, a stable priority queue returns {exp}',
                        'signature': f'taskq:{w[0]}', 'index': i}
        if len(out) != len(ops):
            return {'what': 'output length mismatch', 'signature': 'taskq:len'}
        return None

    def nontrivial(self, ops, out):
        if isinstance(ops, dict):
            return bool(ops['beh'])
        seen, re_add = set(), False
        for l in ops:
            w = l.split()
            if w[0] == 'add':
                if w[2] in seen:
                    re_add = True
                seen.add(w[2])
            if w[0] == 'remove' and w[1] in seen:
                re_add = True
        return re_add and any(o.startswith('(') or o.startswith('[(') for o in out)

    def histogram(self, cases, outs):
        h = {'shutdown_cases': sum(1 for c in cases if isinstance(c, dict))}
        for ops, out in zip(cases, outs):
            if isinstance(ops, dict):
                continue
            for l, o in zip(ops, out):
                k = l.split()[0] + (':KeyError' if o == 'KeyError' else '')
                h[k] = h.get(k, 0) + 1
        h['histories'] = len(cases)
        h['max_len'] = max((len(c) for c in cases if not isinstance(c, dict)), default=0)
        return h

    def shrink(self, ops, fails):
        if isinstance(ops, dict):
            return ops
        return common.shrink_list(ops, fails)
