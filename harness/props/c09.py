"""C09 — Time-ordered collections are stable priority queues under any history."""
from harness import common


class Check(common.Check):
    PROP = 'C09'
    LEAN_TARGETS = ['Sc3Verif.C09.Props']
    LEAN_DIRS = ['Sc3Verif/C09']
    THEOREMS = ['Sc3Verif.C09.' + t for t in (
        'refines_sorted_list', 'refines_from_reachable', 'iter_is_sorted_contents',
        'each_at_most_once', 'pop_is_head', 'pop_nondecreasing', 'two_pops_ordered',
        'fifo_among_equal', 'readd_moves_to_new_time_as_latest', 'remove_preserves_others',
        'empty_iff_no_live', 'peek_smallest_is_next_pop', 'peek_largest_is_max_latest',
        'removed_counter_counts_tombstones')]
    N_QUICK = 1000
    N_THOROUGH = 60000
    ASSUMPTIONS = ['heapq implements a priority queue under Python list comparison (trusted)',
                   'priorities are totally ordered (no NaN); modelled as Int, run as k/8 floats']

    def rule(self):
        return ('histories of 1-200 ops over 1-12 task ids and 1-6 distinct priorities (ties frequent), '
                'weights favouring re-add and remove-then-peek; thorough adds all histories of length <=5 '
                'over 2 tasks x 2 prios. Non-trivial: history contains a re-add or a remove of a live task '
                'and at least one pop/peek/iter that returns an item; distinct by op list')

    def gen_one(self, rng):
        nt, npr = rng.randint(1, 12), rng.randint(1, 6)
        n = rng.choice([rng.randint(1, 12), rng.randint(10, 60), rng.randint(50, 200)])
        ops = []
        for _ in range(n):
            r = rng.random()
            if r < 0.42:
                ops.append(f'add {rng.randrange(npr) - 1} {rng.randrange(nt)}')
            elif r < 0.55:
                ops.append(f'remove {rng.randrange(nt)}')
                if rng.random() < 0.5:
                    ops.append(rng.choice(['peekS', 'peekL', 'empty', 'iter']))
            elif r < 0.72:
                ops.append('pop')
            elif r < 0.80:
                ops.append('peekS')
            elif r < 0.87:
                ops.append('peekL')
            elif r < 0.93:
                ops.append('empty')
            elif r < 0.95:
                ops.append('clear')
            else:
                ops.append('iter')
        return ops

    def gen(self, rng, n):
        cases = [self.gen_one(rng) for _ in range(n)]
        if self.tier == 'thorough':
            import itertools
            alpha = ['add 0 0', 'add 0 1', 'add 1 0', 'add 1 1', 'remove 0', 'remove 1', 'pop',
                     'peekS', 'peekL', 'empty', 'iter']
            for k in range(1, 6):
                for h in itertools.product(alpha, repeat=k):
                    if h[-1].startswith(('add', 'remove')):
                        continue
                    cases.append(list(h))
        return cases

    def impl(self, cases):
        res, err = common.run_impl('c09', 'run', {'cases': cases})
        if res is None:
            self.notes.append(err)
        return res

    def model(self, cases):
        lines = []
        for ops in cases:
            lines.append('reset')
            lines.extend(ops)
        out, err = common.run_driver('Sc3Verif/C09/Driver.lean', lines)
        if out is None:
            raise RuntimeError('driver failed: ' + err)
        res, cur = [], None
        for l in out:
            if l == 'reset':
                cur = []; res.append(cur)
            else:
                cur.append(l)
        return res

    # ---- property oracle on the real behaviour (independent of the Lean model) -----------
    def oracle(self, ops, out):
        s = []   # list of (prio, seq, task), kept sorted by (prio, seq)
        seq = 0
        for i, (line, o) in enumerate(zip(ops, out)):
            w = line.split()
            exp = 'ok'
            if w[0] == 'add':
                p, t = int(w[1]), int(w[2])
                s = [x for x in s if x[2] != t]
                s.append((p, seq, t)); seq += 1
                s.sort()
            elif w[0] == 'remove':
                s = [x for x in s if x[2] != int(w[1])]
            elif w[0] == 'pop':
                exp = f'({s[0][0]},{s[0][2]})' if s else 'KeyError'
                s = s[1:]
            elif w[0] == 'peekS':
                exp = f'({s[0][0]},{s[0][2]})' if s else 'KeyError'
            elif w[0] == 'peekL':
                exp = f'({s[-1][0]},{s[-1][2]})' if s else 'KeyError'
            elif w[0] == 'empty':
                exp = str(not s)
            elif w[0] == 'clear':
                s = []
            elif w[0] == 'iter':
                exp = '[' + ','.join(f'({x[0]},{x[2]})' for x in s) + ']'
            if o != exp:
                return {'what': f'op #{i} `{line}` returned {o}, a stable priority queue returns {exp}',
                        'signature': f'taskq:{w[0]}', 'index': i}
        if len(out) != len(ops):
            return {'what': 'output length mismatch', 'signature': 'taskq:len'}
        return None

    def nontrivial(self, ops, out):
        seen, re_add = set(), False
        for l in ops:
            w = l.split()
            if w[0] == 'add':
                if w[2] in seen:
                    re_add = True
                seen.add(w[2])
            if w[0] == 'remove' and w[1] in seen:
                re_add = True
        return re_add and any(o.startswith('(') or o.startswith('[(') for o in out)

    def histogram(self, cases, outs):
        h = {}
        for ops, out in zip(cases, outs):
            for l, o in zip(ops, out):
                k = l.split()[0] + (':KeyError' if o == 'KeyError' else '')
                h[k] = h.get(k, 0) + 1
        h['histories'] = len(cases)
        h['max_len'] = max((len(c) for c in cases), default=0)
        return h

    def shrink(self, ops, fails):
        return common.shrink_list(ops, fails)
