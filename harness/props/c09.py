"""C09 — Time-ordered collections are stable priority queues under any history."""
from harness import common


class Check(common.Check):
    PROP = 'C09'
    LEAN_TARGETS = ['Sc3Verif.C09.Props']
    LEAN_DIRS = ['Sc3Verif/C09']
    THEOREMS = ['Sc3Verif.C09.' + t for t in (
        'refines_sorted_list', 'refines_from_reachable', 'iter_is_sorted_contents',
        'each_at_most_once', 'pop_is_head', 'pop_nondecreasing', 'two_pops_ordered',
        'fifo_among_equal', 'readd_moves_to_new_time_as_latest', 'remove_preserves_others',
        'empty_iff_no_live', 'peek_smallest_is_next_pop', 'peek_largest_is_max_latest',
        'removed_counter_counts_tombstones', 'drain_refines',
        'scheduler_refines', 'scheduler_sorted_one_entry_per_key', 'scheduler_pop_is_head',
        'scheduler_add_replaces_key', 'retime_keeps_queue_order', 'retime_same_tasks',
        'score_listing', 'score_sorted_each_once', 'score_fifo', 'ppar_refines')]
    N_QUICK = 1000
    N_THOROUGH = 60000
    ASSUMPTIONS = ['heapq implements a priority queue under Python list comparison (trusted)',
                   'priorities are totally ordered (no NaN); modelled as Int, run as k/8 floats']

    def rule(self):
        return ('histories of 1-200 ops over 1-12 task ids and 1-6 distinct priorities (ties frequent), '
                'weights favouring re-add and remove-then-peek; thorough adds all histories of length <=5 '
                'over 2 tasks x 2 prios. Non-trivial: history contains a re-add or a remove of a live task '
                'and at least one pop/peek/iter that returns an item; distinct by op list')

    def gen_churn(self, rng):
        """many re-insertions of still-pending items (tombstones pile up in the heap), then everything
        is popped: routines paused/resumed or re-played before their wake-up, signalled conditions ..."""
        nt, npr = rng.randint(4, 45), rng.randint(2, 9)
        ops = [f'add {rng.randrange(npr)} {t}' for t in range(nt)]
        for _ in range(rng.randint(35, 140)):
            r = rng.random()
            if r < 0.86:
                ops.append(f'add {rng.randrange(npr)} {rng.randrange(nt)}')
            elif r < 0.93:
                ops.append(f'remove {rng.randrange(nt)}')
            else:
                ops.append(rng.choice(['peekS', 'peekL', 'empty', 'pop']))
        ops.append('iter')
        ops += ['pop'] * (nt + 1)
        ops.append('empty')
        return ops

    def gen_one(self, rng):
        if rng.random() < 0.08:
            return self.gen_churn(rng)
        nt, npr = rng.randint(1, 12), rng.randint(1, 6)
        n = rng.choice([rng.randint(1, 12), rng.randint(10, 60), rng.randint(50, 200)])
        ops = []
        for _ in range(n):
            r = rng.random()
            if r < 0.42:
                ops.append(f'add {rng.randrange(npr) - 1} {rng.randrange(nt)}')
            elif r < 0.55:
                ops.append(f'remove {rng.randrange(nt)}')
                if rng.random() < 0.5:
                    ops.append(rng.choice(['peekS', 'peekL', 'empty', 'iter']))
            elif r < 0.72:
                ops.append('pop')
            elif r < 0.80:
                ops.append('peekS')
            elif r < 0.87:
                ops.append('peekL')
            elif r < 0.93:
                ops.append('empty')
            elif r < 0.95:
                ops.append('clear')
            else:
                ops.append('iter')
        return ops

    def gen_shutdown(self, rng):
        """exit actions that register, move or cancel other exit actions while shutdown runs"""
        nt = rng.randint(2, 8)
        adds = [[rng.randrange(0, 4), t] for t in range(nt) if rng.random() < 0.8] or [[0, 0]]
        beh = {}
        fresh = nt
        for p, t in adds:
            ops = []
            for _ in range(rng.choice([0, 0, 1, 1, 2])):
                r = rng.random()
                if r < 0.45:
                    ops.append(['a', rng.randrange(0, 5), fresh]); fresh += 1      # register a new one
                elif r < 0.8:
                    later = [u for _, u in adds if u > t]     # only later ids: no re-registration cycles
                    if later:
                        ops.append(['a', rng.randrange(0, 5), rng.choice(later)])   # move / re-register
                elif r < 0.9:
                    ops.append(['r', rng.choice(adds)[1]])                       # cancel
                else:
                    ops.append(['r', t])          # the running action removes ITSELF (as the library's stop() methods do)
            if ops:
                beh[str(t)] = ops
        # no action re-registers itself (would never terminate)
        for t, ops in beh.items():
            beh[t] = [o for o in ops if not (o[0] == 'a' and str(o[2]) == t)]
        return {'adds': adds, 'beh': beh}

    def gen_sched(self, rng):
        """the non-real-time scheduler: clock tasks on 1-3 stub clocks, few beats (ties frequent),
        the same task scheduled again on the same clock, tempo changes with tasks pending, and a
        run in which waking tasks re-schedule themselves, schedule others and change tempo"""
        nc, nt, nb = rng.randint(1, 3), rng.randint(1, 5), rng.randint(1, 4)
        ops = [['clock', c, rng.choice([1, 1, 2, 3]), rng.choice([0, 0, 1, 4])] for c in range(nc)]

        def sched():
            return ['sched', rng.randrange(nb), rng.randrange(nc), rng.randrange(nt)]

        def tempo():
            return ['tempo', rng.randrange(nc), rng.choice([1, 2, 2, 3, 4]), rng.choice([0, 0, 1, 2, 4])]
        for _ in range(rng.choice([rng.randint(1, 6), rng.randint(4, 20)])):
            r = rng.random()
            ops.append(sched() if r < 0.62 else tempo() if r < 0.85 else ['iter'])
        beh = {}
        for t in range(nt):
            for n in range(rng.choice([0, 1, 1, 2, 3])):
                if rng.random() < 0.7:
                    sub = [sched() if rng.random() < 0.6 else tempo() for _ in range(rng.choice([0, 0, 1, 1, 2]))]
                    beh[f'{t}:{n}'] = [rng.choice([None, 0, 1, 1, 2]), sub]
        ops += [['iter'], ['run'], ['iter']]
        return {'kind': 'sched', 'ops': ops, 'beh': beh}

    def gen_score(self, rng):
        """score entries: few distinct times and contents, so byte-identical bundles are frequent"""
        ntimes, ncont = rng.randint(1, 4), rng.randint(1, 3)
        n = rng.choice([rng.randint(0, 5), rng.randint(3, 25)])
        adds = [[8 * rng.randrange(ntimes), rng.randrange(ncont)] for _ in range(n)]
        # negative bundle times count as "now" (0 from the main thread): after the entries already at 0
        for _ in range(rng.choice([0, 0, 1, 2])):
            adds.insert(rng.randint(0, len(adds)), [-8 * rng.choice([1, 2]), rng.randrange(ncont)])
        # bundles the encoder refuses (content -1), often later than everything accepted
        for _ in range(rng.choice([0, 0, 1, 2])):
            adds.insert(rng.randint(0, len(adds)), [8 * rng.choice([0, ntimes, ntimes + 3]), -1])
        return {'kind': 'score', 'adds': adds, 'tail': 8 * rng.choice([0, 0, 1, ntimes, ntimes + 2])}

    def gen_appsched(self, rng):
        """AppClock's scheduler object: items scheduled relative / absolute, time advanced in steps so that
        several entries with different (and equal) times are due in one pass; waking items re-schedule
        themselves and others; both the recursive and the non-recursive (AppClock) variant"""
        nt = rng.randint(1, 6)
        ops = []

        def one():
            r = rng.random()
            if r < 0.5:
                return ['sched', rng.choice([0, 1, 2, 4, 8, 8, 12]), rng.randrange(nt)]
            if r < 0.9:
                return ['abs', rng.choice([0, 2, 4, 8, 8, 16, 24]), rng.randrange(nt)]
            return ['clear']
        now = 0
        for _ in range(rng.randint(2, 14)):
            if rng.random() < 0.7:
                ops.append(one())
            else:
                now += rng.choice([1, 4, 8, 16])
                ops.append(['to', now])
        ops.append(['to', now + 40])
        beh = {}
        for t in range(nt):
            for n in range(rng.choice([0, 1, 1, 2])):
                if rng.random() < 0.7:
                    beh[f'{t}:{n}'] = [rng.choice([None, 0, 1, 2, 8]), [one() for _ in range(rng.choice([0, 0, 1, 2]))]]
        return {'kind': 'appsched', 'ops': ops, 'beh': beh, 'recursive': rng.random() < 0.4}

    def oracle_appsched(self, case, out):
        """reference: stable priority queue; advancing to time v wakes the due entries in time order (first in
        first out among equals); non-recursive: what the woken items schedule waits for the next advance"""
        s, seq, now, wakes = [], 0, 0, {}

        def add(time, t):
            nonlocal s, seq
            s = [x for x in s if x[2] != t]
            s.append((time, seq, t)); seq += 1; s.sort()

        def do(op):
            nonlocal s
            if op[0] == 'sched':
                add(now + op[1], op[2])
            elif op[0] == 'abs':
                add(op[1], op[2])
            elif op[0] == 'clear':
                s = []

        def wake(time, t, woke):
            nonlocal now
            now = time
            woke.append((time, t))
            n = wakes.get(t, 0); wakes[t] = n + 1
            b = case['beh'].get(f'{t}:{n}')
            if b:
                for sub in b[1]:
                    do(sub)
                if b[0] is not None:
                    add(now + b[0], t)
        for i, (op, o) in enumerate(zip(case['ops'], out)):
            exp = 'ok'
            if op[0] == 'to':
                v, woke = op[1], []
                if s:
                    if case.get('recursive'):
                        while s and s[0][0] <= v and len(woke) <= 400:
                            time, _, t = s.pop(0)
                            wake(time, t, woke)
                    else:
                        due = []
                        while s and s[0][0] <= v:
                            due.append(s.pop(0))
                        for time, _, t in due:
                            wake(time, t, woke)
                now = v
                exp = 'woke [' + ','.join(f'({a},{b})' for a, b in woke) + f'] now {v} empty {not s}'
            else:
                do(op)
            if o != exp:
                return {'what': f'AppClock scheduler op #{i} {op}: observed `{o}`; due entries in time order, first in first out: `{exp}`',
                        'signature': f'appsched:{op[0]}', 'index': i}
        return None

    def gen_ppar(self, rng):
        """parallel pattern streams: 1-5 children with 1-6 deltas from a small set (zero deltas and
        equal times frequent)"""
        nch = rng.randint(1, 5)
        ds = rng.choice([[0, 8], [0, 0, 8, 4], [0, 4, 8, 12], [8], [0, 1, 2, 8]])
        return {'kind': 'ppar', 'rem': [[rng.choice(ds) for _ in range(rng.randint(1, 6))] for _ in range(nch)]}

    def gen(self, rng, n):
        cases = [self.gen_one(rng) for _ in range(n)]
        cases += [self.gen_ppar(rng) for _ in range(max(60, n // 6))]
        cases += [self.gen_appsched(rng) for _ in range(max(60, n // 8))]
        cases += [self.gen_shutdown(rng) for _ in range(max(20, n // 8))]
        cases += [self.gen_sched(rng) for _ in range(max(60, n // 4))]
        cases += [self.gen_score(rng) for _ in range(max(40, n // 8))]
        if self.tier == 'thorough':
            import itertools
            alpha = ['add 0 0', 'add 0 1', 'add 1 0', 'add 1 1', 'remove 0', 'remove 1', 'pop',
                     'peekS', 'peekL', 'empty', 'iter']
            for k in range(1, 6):
                for h in itertools.product(alpha, repeat=k):
                    if h[-1].startswith(('add', 'remove')):
                        continue
                    cases.append(list(h))
        return cases

    def impl(self, cases):
        res, err = common.run_impl('c09', 'run', {'cases': cases})
        if res is None:
            self.notes.append(err)
            return res
        self._score_base = {}
        self._last_impl = {i: o for i, (c, o) in enumerate(zip(cases, res)) if isinstance(c, dict) and c.get('kind') == 'appsched'}
        for i, (c, o) in enumerate(zip(cases, res)):
            if isinstance(c, dict) and c.get('kind') == 'score' and len(o) == 3:
                self._score_base[i] = o[1]
                if not o[2]:
                    o[0] = 'EMPTY-RAW ' + o[0]
                o[1:] = [f'base {o[1]}']
        return res

    @staticmethod
    def sched_lines(case):
        def bop(op):
            return ('s.' if op[0] == 'sched' else 't.') + '.'.join(str(x) for x in op[1:])
        lines = []
        for op in case['ops']:
            if op[0] == 'run':
                lines.append('cs-run ' + ' '.join(
                    f'{k}:{"n" if v[0] is None else v[0]}:' + ';'.join(bop(o) for o in v[1]) for k, v in case['beh'].items()))
            else:
                lines.append('cs-' + ' '.join(str(x) for x in op))
        return lines

    def model(self, cases):
        lines = []
        for ci, ops in enumerate(cases):
            lines.append('reset')
            if isinstance(ops, dict) and ops.get('kind') == 'sched':
                lines.extend(self.sched_lines(ops))
            elif isinstance(ops, dict) and ops.get('kind') == 'appsched':
                pass          # no Lean model of AppClock's scheduler object: decided by the reference oracle only
            elif isinstance(ops, dict) and ops.get('kind') == 'ppar':
                lines.append('ppar ' + ' '.join(','.join(str(d) for d in ds) if ds else '-' for ds in ops['rem']))
            elif isinstance(ops, dict) and ops.get('kind') == 'score':
                base = getattr(self, '_score_base', {}).get(ci, 0)
                lines.append('score 0 ' + ' '.join(str(max(t, 0)) for t, c in ops['adds'] if c >= 0) + f' {ops["tail"] + base}')
            elif isinstance(ops, dict):
                lines.extend(f'add {p} {t}' for p, t in ops['adds'])
                lines.append('drain ' + ' '.join(
                    f'{t}:' + ';'.join('.'.join(str(x) for x in o) for o in os_) for t, os_ in ops['beh'].items()))
            else:
                lines.extend(ops)
        out, err = common.run_driver('Sc3Verif/C09/Driver.lean', lines)
        if out is None:
            raise RuntimeError('driver failed: ' + err)
        res, cur = [], None
        for l in out:
            if l == 'reset':
                cur = []; res.append(cur)
            else:
                cur.append(l)
        # a shutdown case prints one 'ok' per add and then the drain line; keep the drain line
        final = []
        for ci, (case, c) in enumerate(zip(cases, res)):
            if isinstance(case, dict) and case.get('kind') == 'appsched':
                final.append(list((getattr(self, '_last_impl', None) or {}).get(ci, [])))     # not compared
                continue
            if isinstance(case, dict) and case.get('kind') in ('sched', 'ppar'):
                final.append(c)
            elif isinstance(case, dict) and case.get('kind') == 'score':
                # entry identities -> what the entry carries
                acc = [a for a in case['adds'] if a[1] >= 0]
                n = len(acc)
                names = {0: 'root', n + 1: 'tail'}
                names.update({i + 1: str(cont) for i, (_, cont) in enumerate(acc)})
                body = c[-1][len('listing ['):-1]
                items = [x.strip('()').split(',') for x in body.split('),(')] if body else []
                # `duration` = time of the latest entry (peek largest): before `finish` over root + adds,
                # afterwards (asked twice) over everything listed
                tail_t = [int(t) for t, i in items if int(i) == n + 1]
                before = max([int(t) for t, i in items if int(i) != n + 1], default=0)
                after = max([int(t) for t, i in items], default=0)
                final.append(['listing [' + ','.join(f'({t},{names.get(int(i), "?")})' for t, i in items) + ']'
                              + f' duration {before} {after} {after} refused {len(case["adds"]) - n}',
                              f'base {getattr(self, "_score_base", {}).get(len(final), 0)}'])
            elif isinstance(case, dict):
                final.append([c[-1]])
            else:
                final.append(c)
        return final

    # ---- property oracle on the real behaviour (independent of the Lean model) -----------
    def oracle_shutdown(self, case, out):
        s, seq, ran = [], 0, []

        def add(p, t):
            nonlocal s, seq
            s = [x for x in s if x[2] != t]
            s.append((p, seq, t)); seq += 1; s.sort()
        for p, t in case['adds']:
            add(p, t)
        while s and len(ran) <= 200:
            _, _, t = s.pop(0)
            ran.append(t)
            for op in case['beh'].get(str(t), []):
                if op[0] == 'a':
                    add(op[1], op[2])
                else:
                    s = [x for x in s if x[2] != op[1]]
        exp = 'ran ' + ' '.join(str(t) for t in ran)
        if out != [exp]:
            return {'what': f'shutdown ran exit actions as `{out[0] if out else None}`; every registered action, in time '
                            f'order with FIFO ties, including those registered or moved during shutdown: `{exp}`',
                    'signature': 'taskq:shutdown'}
        return None

    def oracle_sched(self, case, out):
        """reference scheduler: sorted list of (time, seq, ct), one entry per (clock, task)"""
        s, seq = [], 0
        cts, clocks, wakes = [], {}, {}

        def secs(c, b):
            sc, off = clocks.get(c, (1, 0))
            return off + b * sc

        def add(time, ct):
            nonlocal s, seq
            key = cts[ct][1:]
            s = [x for x in s if cts[x[2]][1:] != key]
            s.append((time, seq, ct)); seq += 1; s.sort()

        def do(op):
            nonlocal s
            if op[0] == 'clock':
                clocks[op[1]] = (op[2], op[3])
            elif op[0] == 'sched':
                cts.append([op[1], op[2], op[3]])
                add(secs(op[2], op[1]), len(cts) - 1)
            elif op[0] == 'tempo':
                clocks[op[1]] = (op[2], op[3])
                for _, _, ct in list(s):          # queue order
                    if cts[ct][1] == op[1]:
                        add(secs(op[1], cts[ct][0]), ct)

        def items(l):
            return '[' + ','.join(f'({t},{ct})' for t, ct in l) + ']'
        for i, (op, o) in enumerate(zip(case['ops'], out)):
            exp = 'ok'
            if op[0] == 'iter':
                exp = items([(t, ct) for t, _, ct in s])
            elif op[0] == 'run':
                woke = []
                while s and len(woke) <= 400:
                    t, _, ct = s.pop(0)
                    woke.append((t, ct))
                    task = cts[ct][2]
                    n = wakes.get(task, 0); wakes[task] = n + 1
                    b = case['beh'].get(f'{task}:{n}')
                    if b:
                        for sub in b[1]:
                            do(sub)
                        if b[0] is not None:
                            cts[ct][0] += b[0]
                            add(secs(cts[ct][1], cts[ct][0]), ct)
                exp = 'woke ' + items(woke)
            else:
                do(op)
            if o != exp:
                return {'what': f'scheduler op #{i} {op}: observed {o}; time order with first-in-first-out ties, one entry '
                                f'per (clock, task), tempo changes re-inserting in queue order gives {exp}',
                        'signature': f'sched:{op[0]}', 'index': i}
        if len(out) != len(case['ops']):
            return {'what': 'output length mismatch', 'signature': 'sched:len'}
        return None

    def oracle_ppar(self, case, out):
        """reference merge: always the pending child with the earliest time, first (re)queued first
        among equal times; an ended child costs one rest up to the next pending time"""
        rem = [list(d) for d in case['rem']]
        s = [(0, i, i) for i in range(len(rem))]       # (time, seq, child)
        seq, now, evs = len(rem), 0, []
        while s:
            _, _, c = s.pop(0)
            if rem[c]:
                d = rem[c].pop(0)
                s.append((now + d, seq, c)); seq += 1; s.sort()
                nxt = s[0][0]
                evs.append(f'{c}:{nxt - now}')
                now = nxt
            elif s:
                nxt = s[0][0]
                evs.append(f'r:{nxt - now}')
                now = nxt
        exp = 'merge ' + ' '.join(evs)
        if out != [exp]:
            return {'what': f'Ppar over children with deltas {case["rem"]} (1/8 s) yields `{out[0] if out else None}`; '
                            f'time order with first-in-first-out among equal times gives `{exp}`',
                    'signature': 'ppar:merge'}
        return None

    def oracle_score(self, case, out):
        if len(out) != 2 or not out[1].startswith('base '):
            return {'what': f'score not produced: {out}', 'signature': 'score:error'}
        base = int(out[1].split()[1])
        out = out[:1]
        entries = [(0, 'root')] + [(max(t, 0), str(c)) for t, c in case['adds'] if c >= 0] + [(case['tail'] + base, 'tail')]
        exp = 'listing [' + ','.join(f'({t},{c})' for t, c in sorted(entries, key=lambda e: e[0])) + ']'   # stable
        exp += f' duration {max(t for t, _ in entries[:-1])} {max(t for t, _ in entries)} {max(t for t, _ in entries)}'
        exp += f' refused {sum(1 for _, c in case["adds"] if c < 0)}'
        if out != [exp]:
            return {'what': f'score lists {out[0] if out else None}; every added bundle once, by time, first in first out: {exp}',
                    'signature': 'score:listing'}
        return None

    def oracle(self, ops, out):
        if isinstance(ops, dict) and ops.get('kind') == 'sched':
            return self.oracle_sched(ops, out)
        if isinstance(ops, dict) and ops.get('kind') == 'score':
            return self.oracle_score(ops, out)
        if isinstance(ops, dict) and ops.get('kind') == 'ppar':
            return self.oracle_ppar(ops, out)
        if isinstance(ops, dict) and ops.get('kind') == 'appsched':
            return self.oracle_appsched(ops, out)
        if isinstance(ops, dict):
            return self.oracle_shutdown(ops, out)
        s = []   # list of (prio, seq, task), kept sorted by (prio, seq)
        seq = 0
        for i, (line, o) in enumerate(zip(ops, out)):
            w = line.split()
            exp = 'ok'
            if w[0] == 'add':
                p, t = int(w[1]), int(w[2])
                s = [x for x in s if x[2] != t]
                s.append((p, seq, t)); seq += 1
                s.sort()
            elif w[0] == 'remove':
                s = [x for x in s if x[2] != int(w[1])]
            elif w[0] == 'pop':
                exp = f'({s[0][0]},{s[0][2]})' if s else 'KeyError'
                s = s[1:]
            elif w[0] == 'peekS':
                exp = f'({s[0][0]},{s[0][2]})' if s else 'KeyError'
            elif w[0] == 'peekL':
                exp = f'({s[-1][0]},{s[-1][2]})' if s else 'KeyError'
            elif w[0] == 'empty':
                exp = str(not s)
            elif w[0] == 'clear':
                s = []
            elif w[0] == 'iter':
                exp = '[' + ','.join(f'({x[0]},{x[2]})' for x in s) + ']'
            if o != exp:
                return {'what': f'op #{i} `{line}` returned {o}, a stable priority queue returns {exp}',
                        'signature': f'taskq:{w[0]}', 'index': i}
        if len(out) != len(ops):
            return {'what': 'output length mismatch', 'signature': 'taskq:len'}
        return None

    def nontrivial(self, ops, out):
        if isinstance(ops, dict) and ops.get('kind') == 'sched':
            return any(o[0] == 'tempo' for o in ops['ops']) and any(o.startswith('woke [(') for o in out)
        if isinstance(ops, dict) and ops.get('kind') == 'score':
            return len(set(map(tuple, ops['adds']))) < len(ops['adds'])
        if isinstance(ops, dict) and ops.get('kind') == 'ppar':
            return len(ops['rem']) > 1 and any(0 in d for d in ops['rem'])
        if isinstance(ops, dict) and ops.get('kind') == 'appsched':
            return any(o.startswith('woke [(') and '),(' in o for o in out)
        if isinstance(ops, dict):
            return bool(ops['beh'])
        seen, re_add = set(), False
        for l in ops:
            w = l.split()
            if w[0] == 'add':
                if w[2] in seen:
                    re_add = True
                seen.add(w[2])
            if w[0] == 'remove' and w[1] in seen:
                re_add = True
        return re_add and any(o.startswith('(') or o.startswith('[(') for o in out)

    def histogram(self, cases, outs):
        h = {'shutdown_cases': sum(1 for c in cases if isinstance(c, dict) and 'kind' not in c),
             'scheduler_cases': sum(1 for c in cases if isinstance(c, dict) and c.get('kind') == 'sched'),
             'scheduler_tempo_changes': sum(sum(1 for o in c['ops'] if o[0] == 'tempo') for c in cases
                                            if isinstance(c, dict) and c.get('kind') == 'sched'),
             'appclock_scheduler_cases': sum(1 for c in cases if isinstance(c, dict) and c.get('kind') == 'appsched'),
             'ppar_cases': sum(1 for c in cases if isinstance(c, dict) and c.get('kind') == 'ppar'),
             'score_cases': sum(1 for c in cases if isinstance(c, dict) and c.get('kind') == 'score')}
        for ops, out in zip(cases, outs):
            if isinstance(ops, dict):
                continue
            for l, o in zip(ops, out):
                k = l.split()[0] + (':KeyError' if o == 'KeyError' else '')
                h[k] = h.get(k, 0) + 1
        h['histories'] = len(cases)
        h['max_len'] = max((len(c) for c in cases if not isinstance(c, dict)), default=0)
        return h

    def shrink(self, ops, fails):
        if isinstance(ops, dict):
            return ops
        return common.shrink_list(ops, fails)
