"""C15 — Operators lift uniformly over functions, streams, patterns, lists, operands; the numeric
kernels of sc3/base/builtins.py obey their range and inverse laws."""
import sys
from fractions import Fraction

from harness import common

sys.path.insert(0, str(common.VERIF / 'tools'))
import py2lean  # noqa: E402

LAW3 = ('wrap', 'fold', 'clip')                  # (x, lo, hi)
LAW2B = ('wrap2', 'fold2', 'clip2')              # (x, b)  = (x, -b, b)
LAWQ = ('round', 'roundup', 'trunc')             # (x, quant)
INVERSE = [('midicps', 'cpsmidi', 'any'), ('cpsmidi', 'midicps', 'pos'),
           ('midiratio', 'ratiomidi', 'any'), ('ratiomidi', 'midiratio', 'pos'),
           ('octcps', 'cpsoct', 'any'), ('cpsoct', 'octcps', 'pos'),
           ('dbamp', 'ampdb', 'any'), ('ampdb', 'dbamp', 'pos')]


def val(s):
    """'i:3' / 'f:7/2' -> Fraction ; anything else -> None"""
    if isinstance(s, str) and s[:2] in ('i:', 'f:'):
        return Fraction(s[2:])
    return None


def is_int(s):
    return s.startswith('i:')


def fnum(q, as_int=False):
    q = Fraction(q)
    if not as_int:
        q = Fraction(float(q))          # exactly the float the implementation will receive
    if as_int:
        assert q.denominator == 1
        return f'i:{q.numerator}'
    return f'f:{q.numerator}' if q.denominator == 1 else f'f:{q.numerator}/{q.denominator}'


def integral(q, tol):
    """q is (within tol of) an integer"""
    return abs(q - round(q)) <= tol


class Check(common.Check):
    PROP = 'C15'
    LEAN_TARGETS = ['Sc3Verif.C15.Props']
    LEAN_DIRS = ['Sc3Verif/C15']
    THEOREMS = ['Sc3Verif.C15.' + t for t in (
        # kernels (about the definitions generated from builtins.py)
        'wrap_in_bounds', 'wrap_int_in_bounds', 'wrap_congruent', 'fold_in_bounds', 'fold_reflects',
        'fold_int_in_bounds', 'wrap2_in_bounds', 'fold2_in_bounds', 'clip_idem', 'clip_bounds',
        'clip_int_truncates', 'round_multiple_nearest', 'roundup_multiple_ge', 'roundup_least',
        'trunc_multiple_le', 'mod_nonneg_lt', 'kernels_total',
        'cpsmidi_midicps', 'midicps_cpsmidi', 'ratiomidi_midiratio', 'midiratio_ratiomidi',
        'cpsoct_octcps', 'octcps_cpsoct', 'ampdb_dbamp', 'dbamp_ampdb',
    )]
    N_QUICK = 3000
    N_THOROUGH = 60000
    ASSUMPTIONS = [
        'Python float idealised as an exact rational / real number (binary64 rounding not modelled); '
        'the exact correspondence stream uses dyadic inputs on which the real code is exact',
        'arguments are int or float (no bool, Fraction, numpy scalars)',
    ]

    # ------------------------------------------------------------------ translator tie
    def regen(self):
        err, res = py2lean.generate('C15', str(common.REPO))
        if err:
            return err
        self.index = res['index']
        return None

    # ------------------------------------------------------------------ generator
    def rule(self):
        return ('kernels: every function translated from builtins.py (GenKernels.kernelNames) applied to '
                'int / dyadic-float arguments in every int/float type pattern; bounds lo<hi (85%), lo=hi, '
                'lo>hi; x inside, on the bounds, up to 6 ranges outside; quanta 2^j*{1,3,5,7} incl. 0 and '
                'negative; a decimal (non-dyadic) stream checked by the law oracle with tolerance only; '
                'inverse pairs on positive / arbitrary floats. lifting: see design.d/C15.md. '
                'Non-trivial: a law-bearing call whose hypotheses hold and whose argument is outside the '
                'bounds / not a multiple, or an inverse round trip; distinct by case')

    def dyadic(self, rng, big=False):
        m = rng.choice([0, 0, 1, 1, 2, 3, 4])
        k = rng.randint(-(1 << (9 if big else 6)), 1 << (9 if big else 6))
        return Fraction(k, 1 << m)

    def decimal(self, rng):
        return Fraction(float(round(rng.uniform(-50, 50), rng.choice([1, 2, 3]))))

    def num(self, rng, ty, approx=False, lo=None):
        if ty == 'I':
            return fnum(rng.randint(-40, 40), True)
        return fnum(self.decimal(rng) if approx else self.dyadic(rng))

    def gen_bounds(self, rng, tys, approx):
        """x, lo, hi with the given type pattern"""
        def draw(t):
            return Fraction(rng.randint(-12, 12)) if t == 'I' else \
                (self.decimal(rng) if approx else Fraction(rng.randint(-48, 48), rng.choice([1, 2, 4, 8])))
        lo = draw(tys[1])
        r = rng.random()
        if r < 0.85:
            w = Fraction(rng.randint(1, 9)) if tys[2] == 'I' and tys[1] == 'I' else \
                Fraction(rng.randint(1, 40), rng.choice([1, 2, 4, 8]))
            hi = lo + w
            if tys[2] == 'I':
                hi = Fraction(int(hi) + (1 if int(hi) <= lo else 0))
        elif r < 0.90:
            hi = lo if tys[2] != 'I' or lo.denominator == 1 else Fraction(int(lo) + 1)
        else:
            hi = lo - Fraction(rng.randint(1, 20), 1 if tys[2] == 'I' else 4)
            if tys[2] == 'I':
                hi = Fraction(int(hi))
        rg = abs(hi - lo) or 1
        r = rng.random()
        if r < 0.25:
            x = rng.choice([lo, hi, lo - 1, hi + 1, lo + rg / 2, hi - Fraction(1, 8), lo + Fraction(1, 8)])
        elif r < 0.5:
            x = lo + Fraction(rng.randint(0, 64), 64) * rg
        else:
            x = lo + Fraction(rng.randint(-6 * 16, 7 * 16), 16) * rg
        if tys[0] == 'I':
            x = Fraction(int(x))
        elif approx:
            x = Fraction(float(x) + rng.uniform(-0.01, 0.01))
        return [fnum(x, tys[0] == 'I'), fnum(lo, tys[1] == 'I'), fnum(hi, tys[2] == 'I')]

    def gen_quant(self, rng, tys, approx):
        r = rng.random()
        if tys[1] == 'I':
            q = Fraction(rng.choice([1, 1, 2, 3, 4, 5, 7, 8, 12]))
        else:
            q = Fraction(rng.choice([1, 3, 5, 7]), rng.choice([1, 2, 4, 8, 16])) * rng.choice([1, 1, 2, 4])
            if approx:
                q = Fraction(float(round(rng.uniform(0.05, 6), 2)))
        if r < 0.05:
            q = Fraction(0)
        elif r < 0.13:
            q = -q
        r = rng.random()
        if r < 0.3 and q:
            x = q * rng.randint(-9, 9) + rng.choice([0, 0, q / 2, -q / 2, q / 4])
        else:
            x = self.dyadic(rng, big=True)
        if tys[0] == 'I':
            x = Fraction(int(x))
        elif approx:
            x = Fraction(float(x) + rng.uniform(-0.01, 0.01))
        return [fnum(x, tys[0] == 'I'), fnum(q, tys[1] == 'I')]

    def pattern(self, rng, n):
        r = rng.random()
        if r < 0.25:
            return 'I' * n
        if r < 0.55:
            return 'F' * n
        return ''.join(rng.choice('IF') for _ in range(n))

    def gen_kernel(self, rng):
        names = self.index['exec'] if getattr(self, 'index', None) else {}
        r = rng.random()
        approx = rng.random() < 0.15
        if r < 0.30:
            name = rng.choice(LAW3)
            tys = self.pattern(rng, 3)
            c = {'k': name, 'a': self.gen_bounds(rng, tys, approx)}
            if name == 'clip':
                c['then'] = 'clip'
        elif r < 0.40:
            name = rng.choice(LAW2B)
            tys = self.pattern(rng, 2)
            x, lo, hi = self.gen_bounds(rng, tys[0] + tys[1] + tys[1], approx)
            b = val(hi) - val(lo)
            if rng.random() < 0.1:
                b = -b
            c = {'k': name, 'a': [x, fnum(int(b) if tys[1] == 'I' else b, tys[1] == 'I')]}
            if name == 'clip2':
                c['then'] = 'clip2'
        elif r < 0.62:
            name = rng.choice(LAWQ)
            c = {'k': name, 'a': self.gen_quant(rng, self.pattern(rng, 2), approx)}
        elif r < 0.72:
            tys = self.pattern(rng, 2)
            a, b = self.gen_quant(rng, tys[::-1] if False else tys, approx)
            c = {'k': rng.choice(['mod', 'mod', 'div']), 'a': [a, b]}
            if c['k'] == 'div':
                approx = False
        elif r < 0.84:
            f, g, dom = rng.choice(INVERSE)
            if dom == 'pos':
                x = Fraction(rng.randint(1, 1 << 14), rng.choice([1, 2, 16, 256, 1000, 4096]))
            else:
                x = Fraction(rng.randint(-96 * 8, 128 * 8), 8)
                if f == 'octcps':
                    x = x / 12
                if f == 'dbamp':
                    x = x - 60
            if rng.random() < 0.1 and dom == 'pos':
                x = rng.choice([Fraction(440), Fraction(1), Fraction(220), Fraction(880), Fraction(1, 2)])
            c = {'k': f, 'a': [fnum(x)], 'then': g}
            approx = True
        else:
            name = rng.choice(sorted(names) or ['mod'])
            n = len(names[name][0]) if names else 2
            tys = self.pattern(rng, n)
            approx = False
            c = {'k': name, 'a': [self.num(rng, t) for t in tys]}
        if approx:
            c['approx'] = True
        return c

    def gen(self, rng, n):
        if not getattr(self, 'index', None):
            err, res = py2lean.generate('C15', str(common.REPO), write=False)
            self.index = res['index'] if res else {'exec': {}, 'real': {}}
        return [self.gen_kernel(rng) for _ in range(n)]

    # ------------------------------------------------------------------ runners
    def impl(self, cases):
        res, err = common.run_impl('c15', 'run', {'cases': cases})
        if res is None:
            self.notes.append(err)
        return res

    def model(self, cases):
        lines = []
        for c in cases:
            if 'k' in c:
                lines.append('k ' + c['k'] + ' ' + ' '.join(c['a']))
            else:
                lines.append('l ' + c['line'])
        out, err = common.run_driver('Sc3Verif/C15/Driver.lean', lines)
        if out is None:
            raise RuntimeError('driver failed: ' + err)
        return [{'r': o} if 'k' in c else {'t': o} for c, o in zip(cases, out)]

    def compare(self, case, io, mo):
        if 'k' in case:
            if case.get('approx') or mo['r'] == '?':
                return None
            a, b = io['r'], mo['r']
            if a == b:
                return None
            va, vb = val(a), val(b)
            if va is not None and va == vb:
                return None                 # same value, int/float tag differs (see design.d/C15.md)
            if va is not None and vb is not None and a[0] == b[0] == 'f' and Fraction(float(vb)) == va:
                return None                 # the float result is the correctly rounded exact rational
            return {'impl': a, 'model': b}
        return super().compare(case, io, mo)

    # ------------------------------------------------------------------ oracle: the laws
    def oracle(self, case, out):
        if 'k' in case:
            return self.kernel_oracle(case, out)
        return None

    def kernel_oracle(self, case, out):
        name, args = case['k'], case['a']
        a = [val(s) for s in args]
        r = val(out['r'])
        approx = bool(case.get('approx'))
        scale = max([1] + [abs(v) for v in a])
        tol = Fraction(scale, 10 ** 9) if approx else Fraction(0)
        allint = all(is_int(s) for s in args)

        def bad(law, what):
            return {'what': f'{name}({", ".join(args)}) = {out["r"]}: {what}', 'signature': f'kernel:{name}:{law}'}

        if name in LAW3 or name in LAW2B:
            base = name.rstrip('2')
            if name in LAW2B:
                x, lo, hi = a[0], -a[1], a[1]
            else:
                x, lo, hi = a
            if base in ('wrap', 'fold'):
                ok_hyp = (lo <= hi) if allint else (lo < hi)
                if not ok_hyp:
                    return None
                if r is None:
                    return bad('raises', f'raised/returned {out["r"]} although lo {"≤" if allint else "<"} hi')
                if base == 'wrap':
                    if allint:
                        if not (lo <= r <= hi):
                            return bad('bounds', f'outside [{lo}, {hi}]')
                        if (r - x) % (hi - lo + 1) != 0:
                            return bad('congruent', f'not congruent to x modulo hi-lo+1 = {hi - lo + 1}')
                    else:
                        if not (lo - tol <= r < hi + tol):
                            return bad('bounds', f'outside [{float(lo)}, {float(hi)})')
                        if not integral((r - x) / (hi - lo), tol):
                            return bad('congruent', f'not congruent to x modulo hi-lo = {float(hi - lo)}')
                else:
                    if not (lo - tol <= r <= hi + tol):
                        return bad('bounds', f'outside [{float(lo)}, {float(hi)}]')
                    rg = hi - lo
                    if rg == 0:
                        if r != lo:
                            return bad('bounds', 'lo = hi but result differs')
                    elif not (integral(((r - lo) - (x - lo)) / (2 * rg), tol)
                              or integral(((r - lo) + (x - lo)) / (2 * rg), tol)):
                        return bad('reflect', f'not a reflection of x in the bounds (period {float(2 * rg)})')
            else:                                   # clip: idempotent (the property); bounds when no truncation
                if r is None:
                    return bad('raises', f'returned {out["r"]}')
                rr = out.get('rr')
                if rr is not None and val(rr) != r:
                    return bad('idempotent', f'clipping the result again gives {rr}')
                if lo <= hi and (allint or not is_int(args[0])):
                    exp = max(min(x, hi), lo)
                    if r != exp:
                        return bad('bounds', f'expected {float(exp)}')
            return None
        if name in LAWQ:
            x, q = a
            if q <= 0:
                return None
            if r is None:
                return bad('raises', f'returned {out["r"]} with quant > 0')
            if not integral(r / q, tol / q):
                return bad('multiple', f'not a multiple of the quantum {float(q)}')
            if name == 'round' and not abs(r - x) <= q / 2 + tol:
                return bad('side', f'not a nearest multiple (|r-x| = {float(abs(r - x))} > quant/2)')
            if name == 'roundup' and not (-tol <= r - x < q + tol):
                return bad('side', 'not the least multiple ≥ x')
            if name == 'trunc' and not (-tol <= x - r < q + tol):
                return bad('side', 'not the greatest multiple ≤ x')
            return None
        if name == 'mod':
            x, b = a
            if b <= 0:
                return None
            if r is None:
                return bad('raises', f'returned {out["r"]} with modulus > 0')
            if not (-tol <= r < b + tol):
                return bad('range', f'outside [0, {float(b)})')
            if not integral((x - r) / b, tol / b):
                return bad('congruent', 'not congruent to the dividend')
            return None
        for f, g, dom in INVERSE:
            if name == f and case.get('then') == g:
                x = a[0]
                rr = out.get('rr')
                if dom == 'pos' and x <= 0:
                    return None
                if rr is None or val(rr) is None:
                    return bad('inverse', f'{g}({f}(x)) is {rr}')
                if abs(val(rr) - x) > Fraction(max(1, abs(x)), 10 ** 9):
                    return bad('inverse', f'{g}({f}({float(x)})) = {float(val(rr))}')
        return None

    # ------------------------------------------------------------------ evidence
    def nontrivial(self, case, out):
        if 'k' not in case:
            return True
        name, a = case['k'], [val(s) for s in case['a']]
        if None in a or val(out.get('r')) is None:
            return False
        if name in LAW3:
            return a[1] < a[2] and not (a[1] <= a[0] < a[2])
        if name in LAW2B:
            return a[1] > 0 and not (-a[1] <= a[0] < a[1])
        if name in LAWQ or name == 'mod':
            return a[1] > 0 and (a[0] / a[1]).denominator != 1
        return 'then' in case

    def histogram(self, cases, outs):
        h = {}
        for c, o in zip(cases, outs):
            if 'k' in c:
                pat = ''.join('I' if is_int(s) else 'F' for s in c['a'])
                key = f"k:{c['k']}:{pat}" + (':approx' if c.get('approx') else '')
                if isinstance(o.get('r'), str) and o['r'].startswith('E:'):
                    key += ':' + o['r']
            else:
                key = 'l:' + c.get('via', '?')
            h[key] = h.get(key, 0) + 1
        return dict(sorted(h.items()))
