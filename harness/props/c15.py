"""C15 — Operators lift uniformly over functions, streams, patterns, lists, operands; the numeric
kernels of sc3/base/builtins.py obey their range and inverse laws."""
import json
import sys
from fractions import Fraction

from harness import common

sys.path.insert(0, str(common.VERIF / 'tools'))
import py2lean  # noqa: E402

LAW3 = ('wrap', 'fold', 'clip')                  # (x, lo, hi)
LAW2B = ('wrap2', 'fold2', 'clip2')              # (x, b)  = (x, -b, b)
LAWQ = ('round', 'roundup', 'trunc')             # (x, quant)
INVERSE = [('midicps', 'cpsmidi', 'any'), ('cpsmidi', 'midicps', 'pos'),
           ('midiratio', 'ratiomidi', 'any'), ('ratiomidi', 'midiratio', 'pos'),
           ('octcps', 'cpsoct', 'any'), ('cpsoct', 'octcps', 'pos'),
           ('dbamp', 'ampdb', 'any'), ('ampdb', 'dbamp', 'pos')]


def val(s):
    """'i:3' / 'f:7/2' -> Fraction ; anything else -> None"""
    if isinstance(s, str) and s[:2] in ('i:', 'f:'):
        return Fraction(s[2:])
    return None


def is_int(s):
    return s.startswith('i:')


def fnum(q, as_int=False):
    q = Fraction(q)
    if not as_int:
        q = Fraction(float(q))          # exactly the float the implementation will receive
    if as_int:
        assert q.denominator == 1
        return f'i:{q.numerator}'
    return f'f:{q.numerator}' if q.denominator == 1 else f'f:{q.numerator}/{q.denominator}'


def integral(q, tol):
    """q is (within tol of) an integer"""
    return abs(q - round(q)) <= tol


class Check(common.Check):
    PROP = 'C15'
    LEAN_TARGETS = ['Sc3Verif.C15.Props']
    LEAN_DIRS = ['Sc3Verif/C15']
    THEOREMS = ['Sc3Verif.C15.' + t for t in (
        # lifting (about Model.lean + the operator table generated from absobject.py)
        'fn_lift', 'fn_lift_scalar', 'fn_reflected', 'fn_unop_lift', 'fn_narop_lift',
        'stream_lift', 'stream_ends_with_shorter', 'stream_scalar', 'pattern_lift',
        'list_lift', 'list_binop_lift', 'list_scalar_lift', 'list_nested_lift', 'operand_lift',
        'builtin_dispatch', 'builtin_is_dispatch', 'reflected_table_consistent',
        'comparison_table_consistent', 'reflected_forms', 'reflected_comparison',
        # kernels (about the definitions generated from builtins.py)
        'wrap_in_bounds', 'wrap_int_in_bounds', 'wrap_congruent', 'fold_in_bounds', 'fold_reflects',
        'fold_int_in_bounds', 'wrap2_in_bounds', 'fold2_in_bounds', 'clip_idem', 'clip_bounds',
        'clip_int_truncates', 'round_multiple_nearest', 'roundup_multiple_ge', 'roundup_least',
        'trunc_multiple_le', 'mod_nonneg_lt', 'kernels_total',
        'cpsmidi_midicps', 'midicps_cpsmidi', 'ratiomidi_midiratio', 'midiratio_ratiomidi',
        'cpsoct_octcps', 'octcps_cpsoct', 'ampdb_dbamp', 'dbamp_ampdb',
    )]
    N_QUICK = 3000
    N_THOROUGH = 60000
    ASSUMPTIONS = [
        'Python float idealised as an exact rational / real number (binary64 rounding not modelled); '
        'the exact correspondence stream uses dyadic inputs on which the real code is exact',
        'arguments are int or float (no bool, Fraction, numpy scalars)',
    ]

    # ------------------------------------------------------------------ translator tie
    def regen(self):
        p = common.sh([sys.executable, str(common.VERIF / 'tools' / 'py2lean_selftest.py')], timeout=120)
        if p.returncode != 0:
            return 'py2lean self-test failed: ' + (p.stdout + p.stderr)[-600:]
        err, res = py2lean.generate('C15', str(common.REPO))
        if err:
            # the tie is broken, but inputs must still be generated for the failing-input search
            self.index = py2lean.c15_index_tolerant(str(common.REPO))
            return err
        self.index = res['index']
        return None

    # ------------------------------------------------------------------ generator
    def rule(self):
        return ('kernels: every function translated from builtins.py (GenKernels.kernelNames) applied to '
                'int / dyadic-float arguments in every int/float type pattern; bounds lo<hi (85%), lo=hi, '
                'lo>hi; x inside, on the bounds, up to 6 ranges outside; quanta 2^j*{1,3,5,7} incl. 0 and '
                'negative; a decimal (non-dyadic) stream checked by the law oracle with tolerance only; '
                'inverse pairs on positive / arbitrary floats. lifting: see design.d/C15.md. '
                'Non-trivial: a law-bearing call whose hypotheses hold and whose argument is outside the '
                'bounds / not a multiple, or an inverse round trip; distinct by case')

    def dyadic(self, rng, big=False):
        m = rng.choice([0, 0, 1, 1, 2, 3, 4])
        k = rng.randint(-(1 << (9 if big else 6)), 1 << (9 if big else 6))
        return Fraction(k, 1 << m)

    def decimal(self, rng):
        return Fraction(float(round(rng.uniform(-50, 50), rng.choice([1, 2, 3]))))

    def num(self, rng, ty, approx=False, lo=None):
        if ty == 'I':
            return fnum(rng.randint(-40, 40), True)
        return fnum(self.decimal(rng) if approx else self.dyadic(rng))

    def gen_bounds(self, rng, tys, approx):
        """x, lo, hi with the given type pattern"""
        def draw(t):
            return Fraction(rng.randint(-12, 12)) if t == 'I' else \
                (self.decimal(rng) if approx else Fraction(rng.randint(-48, 48), rng.choice([1, 2, 4, 8])))
        lo = draw(tys[1])
        r = rng.random()
        if r < 0.85:
            w = Fraction(rng.randint(1, 9)) if tys[2] == 'I' and tys[1] == 'I' else \
                Fraction(rng.randint(1, 40), rng.choice([1, 2, 4, 8]))
            hi = lo + w
            if tys[2] == 'I':
                hi = Fraction(int(hi) + (1 if int(hi) <= lo else 0))
        elif r < 0.90:
            hi = lo if tys[2] != 'I' or lo.denominator == 1 else Fraction(int(lo) + 1)
        else:
            hi = lo - Fraction(rng.randint(1, 20), 1 if tys[2] == 'I' else 4)
            if tys[2] == 'I':
                hi = Fraction(int(hi))
        rg = abs(hi - lo) or 1
        r = rng.random()
        if r < 0.25:
            x = rng.choice([lo, hi, lo - 1, hi + 1, lo + rg / 2, hi - Fraction(1, 8), lo + Fraction(1, 8)])
        elif r < 0.5:
            x = lo + Fraction(rng.randint(0, 64), 64) * rg
        else:
            x = lo + Fraction(rng.randint(-6 * 16, 7 * 16), 16) * rg
        if tys[0] == 'I':
            x = Fraction(int(x))
        elif approx:
            x = Fraction(float(x) + rng.uniform(-0.01, 0.01))
        return [fnum(x, tys[0] == 'I'), fnum(lo, tys[1] == 'I'), fnum(hi, tys[2] == 'I')]

    def gen_quant(self, rng, tys, approx, near=False):
        r = rng.random()
        if tys[1] == 'I':
            q = Fraction(rng.choice([1, 1, 2, 3, 4, 5, 7, 8, 12]))
        else:
            q = Fraction(rng.choice([1, 3, 5, 7]), rng.choice([1, 2, 4, 8, 16])) * rng.choice([1, 1, 2, 4])
            if approx:
                q = Fraction(float(round(rng.uniform(0.05, 6), 2)))
        if r < 0.05:
            q = Fraction(0)
        elif r < 0.13:
            q = -q
        r = rng.random()
        if r < 0.3 and q:
            x = q * rng.randint(-9, 9) + rng.choice([0, 0, q / 2, -q / 2, q / 4])
        else:
            x = self.dyadic(rng, big=True)
        if tys[0] == 'I':
            x = Fraction(int(x))
        elif approx:
            x = Fraction(float(x) + rng.uniform(-0.01, 0.01))
        elif near and q > 0 and rng.random() < 0.12:
            # exact ties: half way above an even / an odd multiple (pinned: the tie goes up)
            x = q * rng.randint(-9, 9) + q / 2
        elif near and q > 0 and rng.random() < 0.25:
            # a hair beside a multiple of the quantum: one ulp, or 1e-10 quanta (as binary64 values)
            import math
            m = float(q * rng.choice([-9, -8, -5, -4, -3, -2, -1, 1, 2, 3, 4, 5, 6, 7, 8, 9]))   # not 0: no denormals
            x = Fraction(rng.choice([math.nextafter(m, math.inf), math.nextafter(m, -math.inf),
                                     m + 1e-10 * float(q), m - 1e-10 * float(q),
                                     m + 2.0 ** -36 * float(q), m - 2.0 ** -36 * float(q)]))
        return [fnum(x, tys[0] == 'I'), fnum(q, tys[1] == 'I')]

    def pattern(self, rng, n):
        r = rng.random()
        if r < 0.25:
            return 'I' * n
        if r < 0.55:
            return 'F' * n
        return ''.join(rng.choice('IF') for _ in range(n))

    def gen_kernel(self, rng):
        names = self.index['exec'] if getattr(self, 'index', None) else {}
        r = rng.random()
        approx = rng.random() < 0.15
        if r < 0.30:
            name = rng.choice(LAW3)
            tys = self.pattern(rng, 3)
            c = {'k': name, 'a': self.gen_bounds(rng, tys, approx)}
            if name == 'clip':
                c['then'] = 'clip'
        elif r < 0.40:
            name = rng.choice(LAW2B)
            tys = self.pattern(rng, 2)
            x, lo, hi = self.gen_bounds(rng, tys[0] + tys[1] + tys[1], approx)
            b = val(hi) - val(lo)
            if rng.random() < 0.1:
                b = -b
            c = {'k': name, 'a': [x, fnum(int(b) if tys[1] == 'I' else b, tys[1] == 'I')]}
            if name == 'clip2':
                c['then'] = 'clip2'
        elif r < 0.62:
            name = rng.choice(LAWQ)
            c = {'k': name, 'a': self.gen_quant(rng, self.pattern(rng, 2), approx, near=True)}
        elif r < 0.72:
            tys = self.pattern(rng, 2)
            a, b = self.gen_quant(rng, tys[::-1] if False else tys, approx)
            c = {'k': rng.choice(['mod', 'mod', 'div']), 'a': [a, b]}
            if c['k'] == 'div':
                approx = False
        elif r < 0.84:
            f, g, dom = rng.choice(INVERSE)
            if dom == 'pos':
                x = Fraction(rng.randint(1, 1 << 14), rng.choice([1, 2, 16, 256, 1000, 4096]))
            else:
                x = Fraction(rng.randint(-96 * 8, 128 * 8), 8)
                if f == 'octcps':
                    x = x / 12
                if f == 'dbamp':
                    x = x - 60
            if rng.random() < 0.1 and dom == 'pos':
                x = rng.choice([Fraction(440), Fraction(1), Fraction(220), Fraction(880), Fraction(1, 2)])
            as_int = rng.random() < 0.4          # Python ints as well: small, negative, beyond any table
            if as_int:
                if dom == 'pos':
                    x = Fraction(rng.choice([rng.randint(1, 200), rng.randint(1, 20000), 2 ** rng.randint(0, 40)]))
                else:
                    x = Fraction(rng.choice([rng.randint(-140, 140), rng.randint(-1500, 1500), rng.randint(-70, -1),
                                             rng.choice([-129, -128, -127, -1, 0, 127, 128, 129])]))
                    if f == 'octcps':
                        x = Fraction(int(x / 12))
            c = {'k': f, 'a': [fnum(x, as_int)], 'then': g}
            approx = True
        else:
            name = rng.choice(sorted(names) or ['mod'])
            n = len(names[name][0]) if names else 2
            tys = self.pattern(rng, n)
            approx = False
            c = {'k': name, 'a': [self.num(rng, t) for t in tys]}
        if approx:
            c['approx'] = True
        # exact Python ints beyond 2^53: the int kernels must not detour through binary64
        if c['k'] in LAW3 + LAW2B + ('mod',) and all(is_int(x) for x in c['a']) and rng.random() < 0.3:
            big = rng.choice([3 ** 35, 2 ** 60, 2 ** 53, 2 ** 64, 10 ** 18 + 7, 7 ** 23]) + rng.randint(-9, 9)
            c['a'][0] = fnum(rng.choice([-1, 1]) * big, True)
            c.pop('approx', None)
        return c


    # ------------------------------------------------------------------ lifting cases
    RANDOM_OPS = {'rand', 'rand2', 'linrand', 'bilinrand', 'sum3rand', 'coin', 'rrand', 'exprand',
                  'xrand', 'xrand2', 'gauss'}
    SKIP_BI = RANDOM_OPS | {'urshift', 'lg3interp', 'calcfeedback', 'next_power_of_two',
                            'next_near_power', 'previous_near_power', 'linlin', 'linexp', 'explin',
                            'expexp', 'lincurve', 'curvelin', 'bilin', 'biexp', 'moddif', 'lcurve',
                            'gauss_curve', 'snap', 'softround', 'blend'}
    PY_BIN = ['add', 'sub', 'mul', 'truediv', 'floordiv', 'mod', 'pow', 'lshift', 'rshift', 'and_',
              'or_', 'xor', 'lt', 'le', 'eq', 'ne', 'gt', 'ge']
    PY_UN = ['neg', 'pos', 'abs', 'invert', 'round', 'trunc', 'ceil', 'floor']
    KINDS = ['fn', 'strm', 'pat', 'chan', 'opnd']

    def sym(self, rng):
        return ['sym', rng.choice('abcdefgh') + str(rng.randint(0, 9))]

    def chan_overrides(self):
        """methods ChannelList defines itself (UGen conveniences through `_multichannel_perform`),
        read from the source: for these `chan.m(...)` is not the AbstractSequence hook."""
        if not hasattr(self, '_chan_over'):
            import ast
            tree = ast.parse((common.REPO / 'sc3' / 'synth' / 'ugen.py').read_text())
            self._chan_over = {m.name for c in tree.body if isinstance(c, ast.ClassDef) and c.name == 'ChannelList'
                               for m in c.body if isinstance(m, ast.FunctionDef)}
        return self._chan_over

    def snum(self, rng):
        return ['num', fnum(rng.randint(-9, 9), True) if rng.random() < 0.5 else fnum(self.dyadic(rng))]

    def seq_of(self, rng, kind, depth, leaf):
        n = rng.choice([0, 1, 1, 2, 2, 3, 3, 4, 5])
        items = []
        for _ in range(n):
            if depth > 0 and rng.random() < 0.3:
                items.append(self.seq_of(rng, rng.choice(['list', 'tuple', 'chan', 'list']), depth - 1, leaf))
            else:
                items.append(leaf(rng))
        return [kind, items]

    def operand(self, rng, kind, leaf=None):
        leaf = leaf or self.sym
        if kind == 'num':
            return self.snum(rng)
        if kind == 'fn':
            return ['fn' if rng.random() < 0.7 else 'fnc', rng.choice('FGHK')]
        if kind in ('strm', 'pat'):
            if rng.random() < 0.25:          # values that depend on the input value passed to next()
                return ['f' + kind, rng.choice('PQRS')]
            return [kind, [self.sym(rng) for _ in range(rng.choice([1, 1, 2, 3, 3, 4, 5]))]]
        if kind == 'opnd':
            return ['opnd', self.sym(rng)]
        if kind == 'chan':
            r = rng.random()
            if r < 0.25:          # members with their own hooks
                def lazy(g):
                    q = g.random()
                    return ['fn', g.choice('FGHK')] if q < 0.65 else self.sym(g)
                return self.seq_of(rng, 'chan', 1, lazy)
            return self.seq_of(rng, 'chan', rng.choice([0, 0, 1, 2]), leaf)
        raise ValueError(kind)

    def partner(self, rng, kind):
        """an operand that the model covers on the other side of `kind`"""
        r = rng.random()
        if kind == 'fn':
            return self.operand(rng, 'num' if r < 0.5 else 'fn')
        if kind in ('strm', 'pat'):
            return self.operand(rng, 'num' if r < 0.4 else rng.choice(['strm', 'pat']))
        if kind == 'opnd':
            return self.operand(rng, 'num' if r < 0.6 else 'opnd')
        return self.operand(rng, rng.choice(['num', 'num', 'chan', 'chan', 'fn', 'opnd']))

    def gen_lift(self, rng):
        ops = self.index.get('ops') or []
        kinds = self.index.get('builtin_kinds') or {}
        r = rng.random()
        k = rng.choice(self.KINDS)
        if r < 0.30:
            name = rng.choice(self.PY_BIN)
            if k == 'opnd' and name in ('eq', 'ne'):
                k = 'chan'
            a, b = self.operand(rng, k), self.partner(rng, k)
            while name in ('eq', 'ne') and 'opnd' in (a[0], b[0]):
                b = self.partner(rng, k)    # Operand.__eq__/__ne__ are redefined as plain comparisons
            side = rng.random()
            args = [a, b] if side < 0.5 or b[0] in ('fn', 'strm', 'pat', 'chan', 'opnd') and side < 0.7 else [b, a]
            return {'via': 'pyop', 'name': name, 'args': args}
        if r < 0.36:
            return {'via': 'pyop', 'name': rng.choice(self.PY_UN), 'args': [self.operand(rng, k)]}
        if r < 0.62 and ops:
            row = rng.choice([o for o in ops if not o['method'].startswith('__')])
            if k == 'chan' and row['method'] in self.chan_overrides():
                k = rng.choice(['fn', 'strm', 'pat', 'opnd'])   # ChannelList redefines these (C03's domain)
            args = [self.operand(rng, k)]
            nreq = len(row['params']) - len(row['defaults'])
            n = rng.randint(nreq, len(row['params']))
            for i in range(n):
                if row['params'][i] == 'clip':
                    args.append(['num', 's:' + rng.choice(['minmax', 'min', 'max'])])
                elif row['hook'] == '_compose_narop':
                    args.append(self.operand(rng, 'num') if rng.random() < 0.6 or k not in ('fn', 'strm', 'pat')
                                else self.operand(rng, k))
                else:
                    args.append(self.partner(rng, k))
            return {'via': 'meth', 'name': row['method'], 'args': args}
        if r < 0.86 and kinds:
            name = rng.choice(sorted(set(kinds) - self.SKIP_BI))
            kind = kinds[name]
            if kind == 'unop':
                args = [self.operand(rng, k)]
            elif kind == 'binop':
                a, b = self.operand(rng, k), self.partner(rng, k)
                args = [a, b] if rng.random() < 0.5 else [b, a]
            else:
                import inspect  # noqa: F401
                nargs = {'wrap': 2, 'fold': 2, 'clip': 2}.get(name, 2)
                args = [self.operand(rng, k)] + [self.operand(rng, 'num') for _ in range(nargs)]
            return {'via': 'bi', 'name': name, 'args': args}
        fn = rng.choice(['list_unop', 'list_binop', 'list_binop', 'list_binop', 'list_narop'])
        ns, sel = rng.choice([('operator', 'add'), ('operator', 'sub'), ('bi', 'round'), ('bi', 'mod'),
                              ('operator', 'lt'), ('bi', 'max')])
        depth = rng.choice([0, 0, 1, 1, 2, 3])

        def seq(g):
            return self.seq_of(g, g.choice(['list', 'list', 'tuple', 'chan']), depth, self.sym)
        if fn == 'list_unop':
            ns, sel = rng.choice([('operator', 'neg'), ('bi', 'midicps'), ('bi', 'squared')])
            args = [seq(rng)]
        elif fn == 'list_binop':
            a = seq(rng) if rng.random() < 0.85 else self.sym(rng)
            b = seq(rng) if rng.random() < 0.75 else self.sym(rng)
            args = [a, b]
        else:
            ns, sel = 'bi', rng.choice(['clip', 'wrap', 'fold'])
            args = [seq(rng), self.sym(rng), self.snum(rng)]
        return {'via': 'listfn', 'name': fn, 'ns': ns, 'sel': sel, 't': rng.choice(['list', 'tuple', 'chan']),
                'args': args}

    def numeric_of(self, rng, d, nonzero=False):
        """the same operand shape with numeric leaves (functions become x -> a x + b)"""
        k = d[0]
        if k in ('num', 'sym'):
            v = rng.choice([1, 2, 3, 5, 7, -2, -3, 4]) if rng.random() < 0.6 else rng.choice([0.5, 1.5, 2.25, -0.75, 3.0, 0])
            if isinstance(d[1], str) and d[1].startswith('s:'):
                return d
            return ['num', fnum(v, isinstance(v, int))]
        if k in ('fn', 'fnc'):
            return ['fnn' if k == 'fn' else 'fnnc', fnum(rng.choice([1, 2, 3, -1]), True), fnum(rng.choice([0, 1, 2, 0.5]))]
        if k in ('fstrm', 'fpat'):
            return [k + 'n', fnum(rng.choice([1, 2, 3, -1]), True), fnum(rng.choice([0, 1, 0.5, 2]))]
        if k in ('strm', 'pat', 'list', 'tuple', 'chan'):
            return [k, [self.numeric_of(rng, i) for i in d[1]]]
        if k == 'opnd':
            return ['opnd', self.numeric_of(rng, d[1])]
        raise ValueError(d)

    def sweep_builtin_reflected(self, rng):
        """Every binary builtin called as a module function with a plain number on the left and a
        lifted object on the right, `bi.f(number, lifted)` — incl. the builtins whose second argument
        has a default (round, roundup, trunc, next_near_power, previous_near_power)."""
        kinds = self.index.get('builtin_kinds') or {}
        cases = []
        for name in sorted(kinds):
            if kinds[name] != 'binop' or name in self.RANDOM_OPS or name == 'urshift':
                continue
            for k in ('fn', 'strm', 'pat', 'chan', 'opnd'):
                left = ['num', fnum(rng.choice([7.25, 3.5, 10, 6, 2.75, 12]), False)]
                if rng.random() < 0.4:
                    left = ['num', fnum(rng.choice([7, 3, 10, 6, 12]), True)]
                right = self.numeric_of(rng, self.operand(rng, k, leaf=self.sym))
                if right[0] == 'chan' and not right[1]:
                    right = ['chan', [['num', 'f:3/2'], ['num', 'i:2']]]
                cases.append({'via': 'bi', 'name': name, 'ns': 'bi', 'sel': name, 'kind': 'binop', 'numeric': True,
                              'x0': fnum(rng.choice([1, 2, 0.5, 3]), False), 'args': [left, right]})
        return cases

    def sweep_chan_narops(self, rng):
        """N-ary operators of the table that ChannelList defines itself (`cl.clip(lo, hi)` …, through
        `_multichannel_perform`): number channels, arguments that are numbers or lists SHORTER and
        LONGER than the channel list.  Law (flag `flop`): receiver and arguments are expanded together
        with wrap-around to the longest of them, channel i is the numeric selector on the i-th row."""
        over = self.chan_overrides()
        ops = [o for o in (self.index.get('ops') or []) if o['hook'] == '_compose_narop' and o['method'] in over]
        cases = []
        for row in ops:
            for shape in ('longer', 'shorter', 'mixed', 'random'):
                n = rng.choice([1, 2, 3])
                lo, hi = rng.choice([(1.0, 4.0), (2.0, 8.0), (0.5, 2.0)])
                recv = ['chan', [['num', fnum(rng.choice([lo / 2, (lo + hi) / 2, hi * 2, lo, hi + 1]))] for _ in range(n)]]
                rest = []
                for j, p_ in enumerate(row['params']):
                    if p_ == 'clip':
                        rest.append(['num', 's:' + rng.choice(['minmax', 'min', 'max'])])
                        continue
                    base = {'inmin': lo, 'lo': lo, 'inmax': hi, 'hi': hi, 'outmin': 2.0, 'outmax': 16.0,
                            'incenter': (lo + hi) / 2, 'outcenter': 6.0, 'curve': -2.0}.get(p_, 1.0)
                    ln = {'longer': n + 1 + j % 2, 'shorter': max(1, n - 1), 'mixed': (n + 2) if j == 0 else 0,
                          'random': rng.choice([0, 1, 2, 3, 4, 5])}[shape]
                    if ln == 0:
                        rest.append(['num', fnum(base)])
                    else:
                        rest.append(['list', [['num', fnum(base + rng.choice([0, 0.25, 0.5, 1.0]) * k)] for k in range(ln)]])
                cases.append({'name': row['method'], 'ns': row['ns'], 'sel': row['sel'], 'numeric': True, 'flop': True,
                              'x0': fnum(1.0), 'args': [recv] + rest, 'via': 'meth', 'hook': '_compose_narop'})
        return cases

    def sweep_mappers(self, rng):
        """Range mappers (every method of the operator table that takes a `clip` argument) through the
        METHOD entry and the FUNCTION entry, with every clip value ('minmax', 'min', 'max', None) and
        inputs below, inside and above [inmin, inmax]."""
        ops = [o for o in (self.index.get('ops') or []) if 'clip' in o['params'] and o['hook'] == '_compose_narop']
        cases = []
        for row in ops:
            for clip in (['num', 's:minmax'], ['num', 's:min'], ['num', 's:max'], ['none']):
                for kind in ('fn', 'strm', 'pat', 'opnd'):
                    lo, hi = rng.choice([(1.0, 4.0), (2.0, 8.0), (0.5, 2.0)])
                    olo, ohi = rng.choice([(2.0, 16.0), (1.0, 8.0), (4.0, 1.0)])
                    xs = [lo / 2, (lo + hi) / 2, hi * 2]
                    x = rng.choice(xs)
                    rest = []
                    for p_ in row['params']:
                        if p_ == 'clip':
                            rest.append(clip)
                        elif p_ == 'inmin':
                            rest.append(['num', fnum(lo)])
                        elif p_ == 'inmax':
                            rest.append(['num', fnum(hi)])
                        elif p_ == 'outmin':
                            rest.append(['num', fnum(olo)])
                        elif p_ == 'outmax':
                            rest.append(['num', fnum(ohi)])
                        elif p_ == 'incenter':
                            rest.append(['num', fnum((lo + hi) / 2)])
                        elif p_ == 'outcenter':
                            rest.append(['num', fnum((olo + ohi) / 2)])
                        elif p_ == 'curve':
                            rest.append(['num', fnum(rng.choice([-4, 2, -1.5]))])
                        else:
                            rest.append(['num', fnum(1.0)])
                    first = {'fn': ['fnn', 'i:1', 'f:0'], 'opnd': ['opnd', ['num', fnum(x)]],
                             'strm': ['strm', [['num', fnum(v)] for v in xs]],
                             'pat': ['pat', [['num', fnum(v)] for v in xs]]}[kind]
                    base = {'name': row['method'], 'ns': row['ns'], 'sel': row['sel'], 'numeric': True,
                            'x0': fnum(x), 'args': [first] + rest,
                            'mapper': {'xs': [fnum(x)] if kind in ('fn', 'opnd') else [fnum(v) for v in xs],
                                       'lo': fnum(lo), 'hi': fnum(hi), 'olo': fnum(olo), 'ohi': fnum(ohi),
                                       'clip': clip[1][2:] if clip[0] == 'num' else None}}
                    cases.append(dict(base, via='meth', hook='_compose_narop'))
                    cases.append(dict(base, via='bi', kind='narop'))
        return cases

    @staticmethod
    def mapper_reference(name, x, lo, hi, olo, ohi, clip):
        """linlin / linexp as documented (sclang SimpleNumber.linlin / linexp), written independently."""
        if clip in ('minmax', 'min') and x <= lo:
            return olo
        if clip in ('minmax', 'max') and x >= hi:
            return ohi
        if name == 'linlin':
            return (x - lo) / (hi - lo) * (ohi - olo) + olo
        if name == 'linexp':
            return (ohi / olo) ** ((x - lo) / (hi - lo)) * olo
        return None

    def gen_lift_numeric(self, rng):
        ops = self.index.get('ops') or []
        kinds = self.index.get('builtin_kinds') or {}
        by_method = {o['method']: o for o in ops}
        for _ in range(50):
            c = self.gen_lift(rng)
            if c['via'] == 'listfn':
                c['numeric'] = True
            elif c['via'] == 'pyop':
                name = c['name']
                if len(c['args']) == 1 and name in ('round', 'trunc'):
                    c.update(ns='bi', sel=name, defaults=['i:1'])
                elif len(c['args']) == 1 and name in ('ceil', 'floor'):
                    c.update(ns='bi', sel=name)
                elif name == 'mod':
                    c.update(ns='bi', sel='mod')
                else:
                    c.update(ns='operator', sel=name)
            elif c['via'] == 'meth':
                row = by_method[c['name']]
                if row['sel'] in self.RANDOM_OPS or row['sel'] == 'urshift':
                    continue
                if len(c['args']) - 1 != len(row['params']) or row['passes'] != row['params']:
                    continue          # numeric cases pass every parameter explicitly
                c.update(ns=row['ns'], sel=row['sel'], hook=row['hook'])
            else:
                c.update(ns='bi', sel=c['name'], kind=kinds[c['name']])
            c['args'] = [self.numeric_of(rng, a) for a in c['args']]
            c['numeric'] = True
            c['x0'] = fnum(rng.choice([0, 1, 2, 3, -1, 0.5, 2.5]), False)
            return c
        return None

    def gen(self, rng, n):
        if not getattr(self, 'index', None):
            err, res = py2lean.generate('C15', str(common.REPO), write=False)
            self.index = res['index'] if res else py2lean.c15_index_tolerant(str(common.REPO))
        cases = self.sweep_builtin_reflected(rng) + self.sweep_mappers(rng) + self.sweep_chan_narops(rng)
        for _ in range(n):
            r = rng.random()
            if r < 0.55:
                cases.append(self.gen_kernel(rng))
            elif r < 0.8:
                cases.append(self.gen_lift(rng))
            else:
                c = self.gen_lift_numeric(rng)
                cases.append(c if c else self.gen_kernel(rng))
        return cases

    # ------------------------------------------------------------------ runners
    def impl(self, cases):
        res, err = common.run_impl('c15', 'run', {'cases': cases})
        if res is None:
            self.notes.append(err)
        return res

    def model(self, cases):
        lines = []
        for c in cases:
            if 'k' in c:
                lines.append('k ' + c['k'] + ' ' + ' '.join(c['a']))
            elif c.get('numeric'):
                lines.append('reset')
            else:
                lines.append('l ' + json.dumps(c))
        out, err = common.run_driver('Sc3Verif/C15/Driver.lean', lines)
        if out is None:
            raise RuntimeError('driver failed: ' + err)
        res = []
        for c, o in zip(cases, out):
            if 'k' in c:
                res.append({'r': o})
            elif c.get('numeric'):
                res.append({})
            else:
                try:
                    res.append({'t': json.loads(o)})
                except ValueError:
                    raise RuntimeError(f'driver output is not JSON: {o!r}')
        return res

    def compare(self, case, io, mo):
        if 'k' in case:
            if case.get('approx') or mo['r'] == '?':
                return None
            a, b = io['r'], mo['r']
            if a == b:
                return None
            va, vb = val(a), val(b)
            if va is not None and va == vb:
                return None                 # same value, int/float tag differs (see design.d/C15.md)
            if va is not None and vb is not None and a[0] == b[0] == 'f' and Fraction(float(vb)) == va:
                return None                 # the float result is the correctly rounded exact rational
            return {'impl': a, 'model': b}
        if case.get('numeric'):
            return None
        if 'E:unmodelled' in json.dumps(mo.get('t')):
            return None                     # operand combination outside the lifting model
        if case.get('name') == 'not_' or case.get('sel') == 'not_':
            return None                     # `not x` cannot be observed on a symbolic leaf (numeric oracle only)

        def first_error(t):
            if isinstance(t, str):
                return t if t.startswith('E:') else None
            for i in t:
                e = first_error(i)
                if e:
                    return e
            return None
        m = first_error(mo.get('t')) or mo.get('t')      # an exception anywhere aborts the whole operation
        if common.canon(io.get('t')) == common.canon(m):
            return None
        return {'impl': io.get('t'), 'model': m}

    # ------------------------------------------------------------------ oracle: the laws
    def oracle(self, case, out):
        if 'k' in case:
            return self.kernel_oracle(case, out)
        if case.get('numeric'):
            lf, dr = out.get('lifted'), out.get('direct')
            both_raise = isinstance(lf, str) and isinstance(dr, str) and lf[:2] == dr[:2] == 'E:'
            mp = case.get('mapper')
            if mp and case.get('sel') in ('linlin', 'linexp') and not (isinstance(lf, str) and lf[:2] == 'E:') \
                    and not (isinstance(lf, list) and lf and str(lf[0]).endswith('-differs')):
                vals = [x for x in (lf[1:] if isinstance(lf, list) else [lf]) if x != 'stop']
                for xs_, got in zip(mp['xs'], vals):
                    ref = self.mapper_reference(case['sel'], float(val(xs_)), float(val(mp['lo'])), float(val(mp['hi'])),
                                                float(val(mp['olo'])), float(val(mp['ohi'])), mp['clip'])
                    g = val(got) if isinstance(got, str) else None
                    if g is None or abs(float(g) - ref) > 1e-9 * max(1.0, abs(ref)):
                        return {'what': f"{case['via']} {case['name']}(x={float(val(xs_))}, {float(val(mp['lo']))}, "
                                        f"{float(val(mp['hi']))}, {float(val(mp['olo']))}, {float(val(mp['ohi']))}, "
                                        f"clip={mp['clip']!r}) evaluates to {got}, the documented mapping gives {ref}",
                                'signature': f"lift:{case['via']}:mapper"}
            if lf != dr and not both_raise:     # which exception comes first depends on evaluation order
                sel = case.get('sel')
                kinds = '/'.join(a[0] for a in case['args'])
                return {'what': f"{case['via']} {case['name']} on {kinds}: evaluating the lifted object gives "
                                f"{json.dumps(out.get('lifted'))}, applying `{sel}` to the evaluated operands "
                                f"gives {json.dumps(out.get('direct'))}",
                        'signature': f"lift:{case['via']}:{'narop' if case.get('hook') == '_compose_narop' or case.get('kind') == 'narop' else 'op'}"}
        return None

    def kernel_oracle(self, case, out):
        name, args = case['k'], case['a']
        a = [val(s) for s in args]
        r = val(out['r'])
        approx = bool(case.get('approx'))
        scale = max([1] + [abs(v) for v in a])
        tol = Fraction(scale, 10 ** 9) if approx else Fraction(0)
        allint = all(is_int(s) for s in args)

        def bad(law, what):
            return {'what': f'{name}({", ".join(args)}) = {out["r"]}: {what}', 'signature': f'kernel:{name}:{law}'}

        if name in LAW3 or name in LAW2B:
            base = name.rstrip('2')
            if name in LAW2B:
                x, lo, hi = a[0], -a[1], a[1]
            else:
                x, lo, hi = a
            if base in ('wrap', 'fold'):
                ok_hyp = (lo <= hi) if allint else (lo < hi)
                if not ok_hyp:
                    return None
                if r is None:
                    return bad('raises', f'raised/returned {out["r"]} although lo {"≤" if allint else "<"} hi')
                if base == 'wrap':
                    if allint:
                        if not (lo <= r <= hi):
                            return bad('bounds', f'outside [{lo}, {hi}]')
                        if (r - x) % (hi - lo + 1) != 0:
                            return bad('congruent', f'not congruent to x modulo hi-lo+1 = {hi - lo + 1}')
                    else:
                        if not (lo - tol <= r < hi + tol):
                            return bad('bounds', f'outside [{float(lo)}, {float(hi)})')
                        if not integral((r - x) / (hi - lo), tol):
                            return bad('congruent', f'not congruent to x modulo hi-lo = {float(hi - lo)}')
                else:
                    if not (lo - tol <= r <= hi + tol):
                        return bad('bounds', f'outside [{float(lo)}, {float(hi)}]')
                    rg = hi - lo
                    if rg == 0:
                        if r != lo:
                            return bad('bounds', 'lo = hi but result differs')
                    elif not (integral(((r - lo) - (x - lo)) / (2 * rg), tol)
                              or integral(((r - lo) + (x - lo)) / (2 * rg), tol)):
                        return bad('reflect', f'not a reflection of x in the bounds (period {float(2 * rg)})')
            else:                                   # clip: idempotent (the property); bounds when no truncation
                if r is None:
                    return bad('raises', f'returned {out["r"]}')
                rr = out.get('rr')
                if rr is not None and val(rr) != r:
                    return bad('idempotent', f'clipping the result again gives {rr}')
                if lo <= hi and (allint or not is_int(args[0])):
                    exp = max(min(x, hi), lo)
                    if r != exp:
                        return bad('bounds', f'expected {float(exp)}')
            return None
        if name in LAWQ:
            x, q = a
            if q <= 0:
                return None
            if r is None:
                return bad('raises', f'returned {out["r"]} with quant > 0')
            if not integral(r / q, tol / q):
                return bad('multiple', f'not a multiple of the quantum {float(q)}')
            if name == 'round' and not abs(r - x) <= q / 2 + tol:
                return bad('side', f'not a nearest multiple (|r-x| = {float(abs(r - x))} > quant/2)')
            if name == 'round' and not approx and (x / q - Fraction(1, 2)).denominator == 1 and r != x + q / 2:
                return bad('tie', f'a tie goes to the multiple above ({float(x + q / 2)}), as in sclang')
            if name == 'roundup' and not (-tol <= r - x < q + tol):
                return bad('side', 'not the least multiple ≥ x')
            if name == 'trunc' and not (-tol <= x - r < q + tol):
                return bad('side', 'not the greatest multiple ≤ x')
            return None
        if name == 'mod':
            x, b = a
            if b <= 0:
                return None
            if r is None:
                return bad('raises', f'returned {out["r"]} with modulus > 0')
            if not (-tol <= r < b + tol):
                return bad('range', f'outside [0, {float(b)})')
            if not integral((x - r) / b, tol / b):
                return bad('congruent', 'not congruent to the dividend')
            return None
        for f, g, dom in INVERSE:
            if name == f and case.get('then') == g:
                x = a[0]
                rr = out.get('rr')
                if dom == 'pos' and x <= 0:
                    return None
                if rr is None or val(rr) is None:
                    return bad('inverse', f'{g}({f}(x)) is {rr}')
                if abs(val(rr) - x) > Fraction(max(1, abs(x)), 10 ** 9):
                    return bad('inverse', f'{g}({f}({float(x)})) = {float(val(rr))}')
        return None

    # ------------------------------------------------------------------ evidence
    def nontrivial(self, case, out):
        if 'k' not in case:
            return True
        name, a = case['k'], [val(s) for s in case['a']]
        if None in a or val(out.get('r')) is None:
            return False
        if name in LAW3:
            return a[1] < a[2] and not (a[1] <= a[0] < a[2])
        if name in LAW2B:
            return a[1] > 0 and not (-a[1] <= a[0] < a[1])
        if name in LAWQ or name == 'mod':
            return a[1] > 0 and (a[0] / a[1]).denominator != 1
        return 'then' in case

    def histogram(self, cases, outs):
        h = {}
        for c, o in zip(cases, outs):
            if 'k' in c:
                pat = ''.join('I' if is_int(s) else 'F' for s in c['a'])
                key = f"k:{c['k']}:{pat}" + (':approx' if c.get('approx') else '')
                if isinstance(o.get('r'), str) and o['r'].startswith('E:'):
                    key += ':' + o['r']
            else:
                key = 'l:' + c.get('via', '?')
            h[key] = h.get(key, 0) + 1
        return dict(sorted(h.items()))
