"""C18 — Incoming messages reach exactly the responders that should fire."""
import ast
import struct
import sys
from fractions import Fraction

from harness import common

sys.path.insert(0, str(common.VERIF / 'tools'))
import osc10  # noqa: E402

IP = 0x7f000001
IP2 = 0x0a000005


# ---------------------------------------------------------------------------------------------
# tiny independent OSC writer (for the generator) and helpers
# ---------------------------------------------------------------------------------------------
def ostr(s):
    b = s.encode('utf-8') if isinstance(s, str) else bytes(s)
    return b + b'\x00' * (4 - len(b) % 4)


def enc_args(args):
    tags, body = '', b''
    for a in args:
        if isinstance(a, list):                                   # OSC array: '[' ... ']' in the type tags only
            t, b = enc_args(a)
            tags += '[' + t + ']'; body += b
        elif isinstance(a, bool):
            tags += 'T' if a else 'F'
        elif isinstance(a, int):
            tags += 'i'; body += struct.pack('>i', a)
        elif isinstance(a, float):
            tags += 'f'; body += struct.pack('>f', a)
        elif isinstance(a, str):
            tags += 's'; body += ostr(a)
        elif isinstance(a, bytes):
            tags += 'b'; body += struct.pack('>i', len(a)) + a + b'\x00' * (-len(a) % 4)
    return tags, body


def enc_msg(addr, args):
    tags, body = enc_args(args)
    return ostr(addr) + ostr(',' + tags) + body


def enc_bundle(tt, elems):
    d = b'#bundle\x00' + struct.pack('>Q', tt)
    for e in elems:
        d += struct.pack('>i', len(e)) + e
    return d


def cps(s):
    return ','.join(str(ord(c)) for c in s) or '-'


# ---------------------------------------------------------------------------------------------
# independent OSC 1.0 pattern reader / matcher (oracle). Wildcards may match '/' (liblo / sclang
# reading, which sc3 follows); everything else as in the OSC 1.0 specification.
# ---------------------------------------------------------------------------------------------
SPECIAL = set(' #*,?[]{}')


def ordinary(c):
    return 0x21 <= ord(c) <= 0x7e and c not in SPECIAL


def parse_pattern(p):
    """-> ('ok', tokens) | ('malformed', why) | ('outside', why)
    tokens: ('lit', c) ('any',) ('star',) ('cls', neg, [(lo, hi)]) ('alt', [str])"""
    toks, i, n = [], 0, len(p)
    while i < n:
        c = p[i]
        if c == '?':
            toks.append(('any',)); i += 1
        elif c == '*':
            toks.append(('star',)); i += 1
        elif c == '[':
            j = p.find(']', i + 1)
            if j < 0:
                return ('malformed', 'unclosed [')
            body = p[i + 1:j]
            neg = body.startswith('!')
            if neg:
                body = body[1:]
            if not body:
                return ('outside', 'empty set')
            items, k = [], 0
            while k < len(body):
                a = body[k]
                if not ordinary(a) or a in '-/\\^' or (a == '!' and k == 0):
                    return ('outside', f'set member {a!r}')
                if k + 2 < len(body) and body[k + 1] == '-':
                    b = body[k + 2]
                    if not ordinary(b) or b in '-/\\^!' or ord(b) < ord(a):
                        return ('outside', 'range')
                    items.append((ord(a), ord(b))); k += 3
                elif k + 1 < len(body) and body[k + 1] == '-':
                    return ('outside', 'trailing -')
                else:
                    items.append((ord(a), ord(a))); k += 1
            toks.append(('cls', neg, items)); i = j + 1
        elif c == '{':
            j = p.find('}', i + 1)
            if j < 0:
                return ('malformed', 'unclosed {')
            body = p[i + 1:j]
            if any((not ordinary(x) or x == '/') and x != ',' for x in body):
                return ('outside', 'alternative with special character')
            toks.append(('alt', body.split(','))); i = j + 1
        elif c in ']},':
            return ('outside', f'stray {c}')
        elif c == '/' or ordinary(c):
            toks.append(('lit', c)); i += 1
        else:
            return ('outside', f'character {c!r}')
    return ('ok', toks)


def pmatch(toks, s):
    if not toks:
        return s == ''
    t = toks[0]
    if t[0] == 'lit':
        return s[:1] == t[1] and pmatch(toks[1:], s[1:])
    if t[0] == 'any':
        return len(s) >= 1 and s[0] != '\n' and pmatch(toks[1:], s[1:])
    if t[0] == 'star':
        return any(pmatch(toks[1:], s[k:]) for k in range(len(s) + 1) if '\n' not in s[:k])
    if t[0] == 'cls':
        if not s:
            return False
        inside = any(lo <= ord(s[0]) <= hi for lo, hi in t[2])
        return inside != t[1] and pmatch(toks[1:], s[1:])
    if t[0] == 'alt':
        return any(s.startswith(a) and pmatch(toks[1:], s[len(a):]) for a in t[1])
    return False


# ---------------------------------------------------------------------------------------------
class LostTrack(Exception):
    """the oracle cannot follow the responders' state any further (see resync_one)"""


class Check(common.Check):
    PROP = 'C18'
    LEAN_TARGETS = ['Sc3Verif.C18.Props']
    LEAN_DIRS = ['Sc3Verif/C18']
    THEOREMS = []
    N_QUICK = 1500
    N_THOROUGH = 60000
    ASSUMPTIONS = [
        "CPython's re engine decides membership for the fragment the rewritten texts reach (literals, escapes, '.', '.*', (?:|), sets); the model implements that fragment of re/_parser.py and is compared with the real re on every run",
        "callbacks are opaque (they do not themselves create/enable/disable responders), except the one-shot wrapper the library builds, which frees its responder",
        "wildcards may match '/' (liblo / sclang reading followed by sc3); pattern nesting depth stays below CPython's recursion limit",
        "SystemClock runs every scheduled dispatch function in its own try/except (emulated by the harness; the clock itself is C08's subject); set iteration order of the two dispatchers is recorded from the real run and fed to the model (theorems hold for both orders)",
        "weak references of NotificationCenter are not modelled (the harness keeps the objects alive)",
    ]

    # ---- translator tie: the rewrite table and the matching call ---------------------------------
    def regen(self):
        src = (common.REPO / 'sc3' / 'base' / '_oscmatch.py').read_text()
        try:
            tree = ast.parse(src)
        except SyntaxError as e:
            return f'_oscmatch.py does not parse: {e}'
        table, call, guarded = None, None, False
        for node in tree.body:
            if isinstance(node, ast.Assign) and len(node.targets) == 1 and \
                    getattr(node.targets[0], 'id', None) == '_rewrite_symbols' and isinstance(node.value, ast.Dict):
                try:
                    table = [(k.value, v.value) for k, v in zip(node.value.keys, node.value.values)]
                except AttributeError:
                    return '_rewrite_symbols is not a dict of string literals'
            if isinstance(node, ast.FunctionDef) and node.name == 'osc_rematch_pattern':
                for sub in ast.walk(node):
                    if isinstance(sub, ast.Call) and isinstance(sub.func, ast.Attribute) and \
                            sub.func.attr in ('match', 'fullmatch'):      # re.fullmatch(p, a) or compiled.fullmatch(a)
                        call = sub.func.attr
                    if isinstance(sub, ast.ExceptHandler):
                        guarded = True
        if table is None or not all(isinstance(k, str) and isinstance(v, str) for k, v in table):
            return '_rewrite_symbols not found as a literal dict'
        if call is None:
            return 'osc_rematch_pattern does not call re.match / re.fullmatch any more'

        def lst(s):
            return '[' + ', '.join(str(ord(c)) for c in s) + ']'
        text = ('-- REGENERATED by harness/props/c18.py:regen() from sc3/base/_oscmatch.py (_rewrite_symbols, in dict order) — do not edit.\n'
                'namespace Sc3Verif.C18\n'
                '/-- `(key, replacement)` pairs as code point lists -/\n'
                'def rewriteTable : List (List Nat × List Nat) := [\n'
                + ',\n'.join(f'  ({lst(k)}, {lst(v)})' for k, v in table) + '\n]\n'
                '/-- `True` iff the code calls `re.fullmatch` (repair D2), `False` for `re.match` -/\n'
                f'def useFullmatch : Bool := {"true" if call == "fullmatch" else "false"}\n'
                '/-- `True` iff `re.error` is caught and answered `False` (repair D-C18-2) -/\n'
                f'def catchesReError : Bool := {"true" if guarded else "false"}\n'
                'end Sc3Verif.C18\n')
        f = common.LEAN / 'Sc3Verif' / 'C18' / 'GenRewrite.lean'
        if not f.exists() or f.read_text() != text:
            f.write_text(text)
        return None

    def rule(self):
        return ('match: patterns from the OSC grammar (depth <= 3), near-miss addresses (shared prefix, one char off, '
                'extra segment), malformed and hostile patterns over the regex-special alphabet; dec: valid packets '
                'with flipped bytes, truncated at every offset, element sizes -8..-1, 0, not multiples of 4, > remaining, '
                'random bytes; hist: 3-40 ops (OscFunc / OscFunc.matching with src / port / template filters, enable, '
                'disable, free, one_shot, func=, permanent, CmdPeriod add/remove/run) interleaved with datagrams '
                '(messages, bundles with timetags, hostile bytes) from 2 senders on 2 ports; registries: add / re-add / '
                'remove / run histories incl. actions that modify the registry while it runs. Non-trivial: a history '
                'in which >= 1 callback fires and >= 1 enabled responder must not fire; a match that is True; a '
                'datagram that decodes; distinct by case')

    # ---- generators --------------------------------------------------------------------------
    PATHS = ['/x', '/foo', '/foobar', '/foo/bar', '/a.b', '/a+b', '/m1', '/m2', '/x/1', '/x/12', '/(a)', '/a|b',
             '/a$', '/^a', '/a\\b', '/ab', '/ac', '/abc', '/aXc', '/a.c']

    def g_pattern_for(self, rng, path, depth=0):
        """an OSC pattern built from `path` (usually matching it)"""
        out, i = '', 0
        while i < len(path):
            c = path[i]
            r = rng.random()
            if c == '/' or r < 0.45:
                out += c; i += 1
            elif r < 0.6:
                out += '?'; i += 1
            elif r < 0.7:
                k = rng.randrange(0, 3)
                out += '*'; i += min(k, len(path) - i)
            elif r < 0.85 and c not in SPECIAL | set('-!\\^/'):
                others = ''.join(rng.choice('abcmxyz0129') for _ in range(rng.randrange(0, 3)))
                if rng.random() < 0.3 and 0x22 <= ord(c) <= 0x7d and chr(ord(c) - 1) not in SPECIAL | set('-!\\^/') \
                        and chr(ord(c) + 1) not in SPECIAL | set('-!\\^/'):
                    body = others + chr(ord(c) - 1) + '-' + chr(ord(c) + 1)
                else:
                    body = others + c
                if rng.random() < 0.25:
                    body = '!' + ''.join(x for x in 'qrs' if x != c)
                out += '[' + body + ']'; i += 1
            elif r < 0.97:
                k = rng.randrange(1, 4)
                seg = path[i:i + k]
                if '/' in seg or any(x in SPECIAL for x in seg):
                    out += c; i += 1
                else:
                    alts = [seg] + [''.join(rng.choice('abxy') for _ in range(rng.randrange(0, 3)))
                                    for _ in range(rng.randrange(0, 3))]
                    rng.shuffle(alts)
                    out += '{' + ','.join(alts) + '}'; i += len(seg)
            else:
                out += c; i += 1
        return out

    def g_address(self, rng):
        """message address: exact path, near miss, pattern, malformed / hostile pattern"""
        path = rng.choice(self.PATHS)
        r = rng.random()
        if r < 0.30:
            return path
        if r < 0.45:                                             # near misses
            return rng.choice([path[:-1], path + 'x', path + '/x', path[:2], path[:-1] + 'Z', path.upper(),
                               path + '/', '/' + path])
        if r < 0.80:
            p = self.g_pattern_for(rng, path)
            if rng.random() < 0.2:                                # near-miss pattern
                p = rng.choice([p + '?', p[:-1], p + 'x', 'x' + p])
            return p
        if r < 0.92:                                             # malformed for OSC
            return rng.choice(['/[', '/{a,b', '/x[', '/foo{', '/[abc', '/{', path + '[', path + '{x', '/[!',
                               '/a]', '/a}', '/a,b', '/x,/foo', '/[b-a]', '/[]', '/[!]', '/{a}}', '/[a-]', '/[--a]',
                               '/[[a]]', '/[a[]', '/{a,{b,c}}', '/(', '/)', '/a\\'])
        return '/' + ''.join(rng.choice('ab[]{},*?!-()^$.+|\\/') for _ in range(rng.randrange(1, 9)))

    def g_match(self, rng):
        path = rng.choice(self.PATHS + ['/', '', 'x', '/a\nb', '/é'])
        if rng.random() < 0.55 and path.startswith('/') and len(path) > 1:
            p = self.g_pattern_for(rng, path)                    # built to match this very address
            if rng.random() < 0.25:
                p = rng.choice([p + '?', p[:-1], p + 'x', p.replace('?', '', 1), p + '*'])
            return {'k': 'match', 'p': p, 'a': path}
        return {'k': 'match', 'p': self.g_address(rng), 'a': path}

    def g_args(self, rng):
        n = rng.choice([0, 0, 1, 1, 2, 3])
        out = []
        for _ in range(n):
            r = rng.random()
            if r < 0.4:
                out.append(rng.choice([0, 1, 2, 7, -1, 1000]))
            elif r < 0.65:
                out.append(rng.choice([0.0, 1.0, 0.5, -2.25, 7.0]))
            elif r < 0.85:
                out.append(rng.choice(['abc', '', 'x', 'é']))
            elif r < 0.93:
                out.append(bytes(rng.randrange(256) for _ in range(rng.choice([0, 1, 2, 3, 4, 5, 6, 7, 9]))))
            else:
                out.append(rng.choice([True, False]))
        return out

    def g_blob_args(self, rng, depth=0):
        """a blob of every size mod 4 in every argument position, followed by data-carrying arguments"""
        n = rng.randrange(1, 5)
        pos = rng.randrange(n)
        out = []
        for j in range(n):
            if j == pos or rng.random() < 0.2:
                out.append(bytes(rng.randrange(1, 256) for _ in range(rng.choice([0, 1, 2, 3, 4, 5, 6, 7, 8, 9, 13]))))
            else:
                out.append(rng.choice([rng.choice([1, -2, 70000]), rng.choice([0.5, -2.25, 7.0]),
                                       rng.choice(['abc', 'x', 'abcd', '']), rng.choice([True, False])]))
        if depth < 3 and rng.random() < 0.45:                     # array type tags, nested too, data before and after
            for _ in range(rng.randrange(1, 3)):
                out.insert(rng.randrange(len(out) + 1), self.g_blob_args(rng, depth + 1) if rng.random() < 0.85 else [])
        return out

    def g_blob_dgram(self, rng):
        """datagrams written by the harness's own OSC writer (the library's builder re-parses its output,
        so a decoder defect cannot be seen through it)"""
        def one():
            return enc_msg(rng.choice(self.PATHS), self.g_blob_args(rng))
        if rng.random() < 0.55:
            return one()
        els = [one() for _ in range(rng.randrange(1, 4))]
        if rng.random() < 0.4:
            els.insert(rng.randrange(len(els) + 1), enc_bundle(rng.choice([1, 2 ** 32]), [one()]))
        return enc_bundle(rng.choice([1, 2 ** 32, 3 * 2 ** 32]), els)

    def g_tmpl(self, rng):
        n = rng.choice([0, 1, 1, 2, 3])
        items = []
        for _ in range(n):
            r = rng.random()
            if r < 0.3:
                items.append(None)
            elif r < 0.55:
                items.append(rng.choice([0, 1, 2, 7]))
            elif r < 0.7:
                items.append({'f': float(rng.choice([1.0, 0.5, 7.0])).hex()})
            elif r < 0.85:
                items.append({'s': rng.choice(['abc', 'x', ''])})
            else:
                items.append({'p': rng.randrange(4)})
        return items

    def g_dgram(self, rng, hostile_ok=True):
        """-> (hex, expectation) ; expectation 'strict' (well-formed OSC 1.0), 'nothing' (undecodable:
        must dispatch nothing) or 'lenient' (damaged; only liveness is required)"""
        def one():
            return enc_msg(self.g_address(rng), self.g_args(rng))
        r = rng.random()
        if rng.random() < 0.25:
            return self.g_blob_dgram(rng).hex(), 'strict'
        if r < 0.6:
            d, tag = one(), 'strict'
        elif r < 0.8:
            off_tt = rng.choice([1, 1, 2 ** 32, 5 * 2 ** 31, 3 * 2 ** 32 + 2 ** 20])
            els = [one() for _ in range(rng.randrange(0, 4))]
            if els and rng.random() < 0.4:
                els.append(enc_bundle(rng.choice([1, 2 ** 32, 2 ** 33]), [one() for _ in range(rng.randrange(1, 3))]))
                rng.shuffle(els)
            d, tag = enc_bundle(off_tt, els), 'strict'
        else:
            d, tag = one(), 'strict'
        if not hostile_ok or rng.random() < 0.78:
            return d.hex(), tag
        r = rng.random()
        if r < 0.2:                                              # truncation
            k = rng.randrange(len(d))
            return d[:k].hex(), 'lenient'
        if r < 0.4:                                              # bad element size
            body = one()
            sz = rng.choice([-8, -4, -1, -2 ** 31, 0, 1, 2, 3, 5, len(body) + 4, len(body) + 1, 2 ** 31 - 1, 2 ** 20])
            d = b'#bundle\x00' + struct.pack('>Q', 1) + struct.pack('>i', sz) + body
            if rng.random() < 0.5:
                d += struct.pack('>i', len(body)) + body
            return d.hex(), ('nothing' if sz < 0 or sz > len(d) - 20 else 'lenient')
        if r < 0.55:                                             # byte flips
            b = bytearray(d)
            for _ in range(rng.randrange(1, 4)):
                b[rng.randrange(len(b))] = rng.choice([0, 1, 0x2c, 0x2f, 0x80, 0xff, 0x5b, 0x5d, rng.randrange(256)])
            return bytes(b).hex(), 'lenient'
        if r < 0.65:
            return bytes(rng.randrange(256) for _ in range(rng.randrange(0, 40))).hex(), 'lenient'
        if r < 0.75:                                             # unterminated / invalid text
            return rng.choice([b'/abc', b'/ab\xff\x00,\x00\x00\x00', b'/x\x00\x00,s\x00\x00abcd', b'/x\x00\x00,i\x00\x00\x00\x01',
                               b'/x\x00\x00,b\x00\x00\x00\x00\x00\x09abc\x00', b'#bundle\x00\x00\x00', b'#bundle\x00',
                               b'/x\x00\x00,b\x00\x00\xff\xff\xff\xf0abcd', b'', b'\x00\x00\x00\x00', b'#bundle']).hex(), 'nothing'
        if r < 0.85:                                             # unbalanced arrays / odd tags
            return rng.choice([b'/x\x00\x00,[i\x00\x00\x00\x00\x01', b'/x\x00\x00,i]\x00\x00\x00\x00\x01',
                               b'/x\x00\x00,]\x00\x00']).hex(), 'nothing'
        return (d + bytes(rng.randrange(256) for _ in range(rng.randrange(1, 9)))).hex(), 'lenient'

    def g_hist(self, rng):
        ops, rids, n = [], [], rng.choice([rng.randrange(3, 10), rng.randrange(8, 25), rng.randrange(20, 41)])
        paths = rng.sample(self.PATHS, rng.randrange(1, 5))
        nfid = 0
        while len(ops) < n:
            r = rng.random()
            if r < 0.27 or not rids:
                rid = len(rids)
                kind = 'E' if rng.random() < 0.55 else 'P'
                path = rng.choice(paths)
                if rng.random() < 0.08:
                    path = path[1:] or 'x'                      # no leading slash: added by OscFunc
                src = None if rng.random() < 0.7 else [rng.choice([IP, IP2]), rng.choice([None, 5000, 5001])]
                if src is not None and rng.random() < 0.4:
                    src.append('B')                             # src_id is a BundleNetAddr (NetAddr subclass) of that host/port
                port = None if rng.random() < 0.8 else rng.choice([57120, 57121])
                tmpl = None if rng.random() < 0.7 else self.g_tmpl(rng)
                if rng.random() < 0.75 or nfid == 0:
                    fid = nfid; nfid += 1
                else:
                    fid = rng.randrange(nfid)                     # shared callback object
                ops.append(['new', rid, kind, path, src, port, tmpl, fid]); rids.append(rid)
            elif r < 0.62:
                hexd, tag = self.g_dgram(rng)
                ops.append(['recv', float(rng.choice([100.75, 3.5, 0.0])).hex(), rng.choice([0, 0, 2 ** 32, 2 ** 31]),
                            rng.choice([57120, 57120, 57121]), hexd, [rng.choice([IP, IP, IP2]), rng.choice([5000, 5001])],
                            tag])
            elif r < 0.69:
                ops.append(['disable', rng.choice(rids)])
            elif r < 0.75:
                ops.append(['enable', rng.choice(rids)])
            elif r < 0.80:
                ops.append(['free', rng.choice(rids)])
            elif r < 0.88:
                ops.append(['oneshot', rng.choice(rids)])
            elif r < 0.92:
                ops.append(['setfunc', rng.choice(rids), nfid]); nfid += 1
            elif r < 0.95:
                ops.append(['permanent', rng.choice(rids), rng.random() < 0.6])
            elif r < 0.97:
                ops.append([rng.choice(['cmdadd', 'cmdadd', 'cmdremove']), rng.randrange(3)])
            else:
                ops.append(['cmdperiod'])
        # messages aimed at the registered paths so that something fires
        for _ in range(rng.randrange(1, 4)):
            p = rng.choice(paths)
            a = p if rng.random() < 0.5 else self.g_pattern_for(rng, p)
            ops.insert(rng.randrange(len(ops) // 2, len(ops) + 1),
                       ['recv', float(100.75).hex(), 0, 57120, enc_msg(a, self.g_args(rng)).hex(), [IP, 5000], 'strict'])
        if rids and rng.random() < 0.3:                           # permanent toggled forth and back, then CmdPeriod
            rid = rng.choice(rids)
            path = next(op[3] for op in ops if op[0] == 'new' and op[1] == rid)
            path = path if path.startswith('/') else '/' + path
            tail = [['permanent', rid, True]] + ([['disable', rid], ['enable', rid]] if rng.random() < 0.2 else []) + \
                   [['permanent', rid, False]]
            if rng.random() < 0.3:
                tail += [['permanent', rid, True], ['permanent', rid, False]]
            tail += [['cmdperiod'],
                     ['recv', float(100.75).hex(), 0, 57120, enc_msg(path, self.g_args(rng)).hex(), [IP, 5000], 'strict']]
            ops += tail
        case = {'k': 'hist', 'ops': ops}
        if rng.random() < 0.3 and nfid:                   # some user functions raise while handling a message
            case['raise'] = sorted(set(rng.randrange(nfid) for _ in range(rng.randrange(1, 3))))
        return case

    def g_hist_udp(self, rng):
        """history whose datagrams travel from a plain socket through the library's own UDP receive loop:
        zero-length and other malformed datagrams in between, each followed (sooner or later) by a
        well-formed message for a registered path — whatever arrives, the interface keeps receiving"""
        c = self.g_hist(rng)
        paths = [op[3] if op[3].startswith('/') else '/' + op[3] for op in c['ops'] if op[0] == 'new'] or ['/a']
        ops = []
        for op in c['ops']:
            op = list(op)
            if op[0] == 'new':
                if op[4] is not None:
                    op[4] = [op[4][0], None]
                op[5] = None
            elif op[0] == 'recv':
                op[3] = 57120; op[5] = [IP, 5000]
            ops.append(op)
        good = lambda: ['recv', float(100.75).hex(), 0, 57120, enc_msg(rng.choice(paths), self.g_args(rng)).hex(),
                        [IP, 5000], 'strict']
        bad = lambda: ['recv', float(100.75).hex(), 0, 57120,
                       rng.choice([b'', b'', b'', b'\x00', b'\x00\x00\x00\x00', b'#bundle\x00', b'/x', b',',
                                   b'#bundle\x00' + b'\x00' * 8 + b'\xff\xff\xff\xfc']).hex(), [IP, 5000], 'nothing']
        for _ in range(rng.randrange(1, 4)):
            k = rng.randrange(len(ops) // 2, len(ops) + 1)
            ops[k:k] = [bad() for _ in range(rng.randrange(1, 3))] + [good()]
        ops.append(good())
        c['ops'] = ops
        c['udp'] = True
        return c

    def g_hist_mutate(self, rng):
        """a plain AND a matching responder on one address (one responder per dispatcher), handlers that append to /
        pop from / assign into the message list they receive: every responder receives the message as it arrived"""
        a = rng.choice(self.PATHS)
        a = a if a.startswith('/') else '/' + a
        ops = [['new', 0, 'E', a, None, None, None, 0], ['new', 1, 'P', a, None, None, None, 1]]
        rng.shuffle(ops)
        for _ in range(rng.randrange(1, 4)):
            args = self.g_args(rng) or [1]
            d = enc_msg(a, args) if rng.random() < 0.6 else enc_bundle(1, [enc_msg(a, args), enc_msg(a, self.g_args(rng))])
            ops.append(['recv', float(100.75).hex(), 0, 57120, d.hex(), [IP, 5000], 'strict'])
        return {'k': 'hist', 'ops': ops, 'mutate': rng.choice([[0], [1], [0, 1]])}

    def g_hist_reent(self, rng):
        """a handler registers / enables the responder for a LATER message of the same bundle (written as the
        sequence recv bundle[m1]; ops; recv bundle[m2, ...] and marked `fuse`: the implementation side sends ONE
        bundle and lets m1's handler do the ops)"""
        suf = rng.choice(['', 'x', '/1', '/foo'])
        a, b = '/a' + suf, '/b' + suf
        k0, k1 = rng.choice('EP'), rng.choice('EP')
        ops = [['new', 0, k0, a, None, None, None, 0]]
        if rng.random() < 0.3:
            ops.append(['new', 2, rng.choice('EP'), rng.choice([a, b]), None, None, None, 2])
        if rng.random() < 0.5:
            script = [['new', 1, k1, b, None, None, None, 1]]
        else:
            ops += [['new', 1, k1, b, None, None, None, 1], ['disable', 1]]
            script = [['enable', 1]]
        if rng.random() < 0.3:
            script.append(['new', 3, rng.choice('EP'), b, None, None, None, rng.choice([1, 3])])
        tt = rng.choice([1, 1, 2 ** 32, 5 * 2 ** 31])
        now, off = float(rng.choice([100.75, 3.5])).hex(), rng.choice([0, 2 ** 31])
        rest = [enc_msg(b, self.g_args(rng))] + [enc_msg(rng.choice([a, b]), self.g_args(rng)) for _ in range(rng.randrange(0, 3))]
        i = len(ops)
        ops.append(['recv', now, off, 57120, enc_bundle(tt, [enc_msg(a, self.g_args(rng))]).hex(), [IP, 5000], 'strict'])
        ops += script
        ops.append(['recv', now, off, 57120, enc_bundle(tt, rest).hex(), [IP, 5000], 'strict'])
        fuse = [[i, len(ops) - 1]]
        ops.append(['recv', now, off, 57120, enc_msg(b, self.g_args(rng)).hex(), [IP, 5000], 'strict'])
        return {'k': 'hist', 'ops': ops, 'fuse': fuse}

    def g_sysact(self, rng):
        ops, scripts = [], {}
        for a in range(4):
            if rng.random() < 0.3:
                scripts[str(a)] = [rng.choice([['remove', rng.randrange(4)], ['add', rng.randrange(5), [rng.randrange(9)]],
                                               ['removeall']]) for _ in range(rng.randrange(1, 3))]
        cmd = rng.random() < 0.5                                  # a CmdPeriod registry: do_once available
        nonce = 0
        for _ in range(rng.randrange(2, 14)):
            r = rng.random()
            if cmd and r < 0.3:                                   # several do_once pending at the same time
                ops.append(['once', 100 + nonce, [rng.randrange(9)]]); nonce += 1
            elif r < 0.5:
                ops.append(['add', rng.randrange(5), [rng.randrange(9)]])
            elif r < 0.7:
                ops.append(['remove', rng.randrange(5)])
            elif r < 0.74:
                ops.append(['removeall'])
            else:
                ops.append(['run'])
        ops.append(['run'])
        if cmd:
            ops.append(['run'])                                   # do_once actions never again
            return {'k': 'sysact', 'ops': ops, 'scripts': scripts, 'cmd': True}
        return {'k': 'sysact', 'ops': ops, 'scripts': scripts}

    def g_srvact(self, rng):
        ops = []
        keys = ['default', 'all', 2, 3, 4]
        multi = rng.random() < 0.5                                # two or three registries side by side
        for _ in range(rng.randrange(2, 14) + (6 if multi else 0)):
            r = rng.random()
            if multi and r < 0.2:
                ops.append(['sel', rng.randrange(3)])
            elif r < 0.5:
                ops.append(['add', rng.choice(keys), rng.randrange(5), [rng.randrange(9)]])
            elif r < 0.68:
                ops.append(['remove', rng.choice(keys), rng.randrange(5)])
            elif r < 0.72:
                ops.append(['removeserver', rng.choice(keys)])
            elif r < 0.75:
                ops.append(['removeall'])
            else:
                ops.append(['run', rng.choice([2, 3, 4]), rng.random() < 0.4])
        ops.append(['run', rng.choice([2, 3, 4]), rng.random() < 0.5])
        if multi:
            for k in range(3):
                ops += [['sel', k], ['run', rng.choice([2, 3, 4]), rng.random() < 0.5]]
        return {'k': 'srvact', 'ops': ops}

    def g_notif(self, rng):
        """several objects x several messages x several listeners, any order of register / unregister / notify"""
        ops = []
        no, nm, nl = rng.randrange(1, 4), rng.randrange(1, 4), rng.randrange(1, 5)
        for _ in range(rng.randrange(3, 22)):
            r = rng.random()
            o, m, l = rng.randrange(no), rng.randrange(nm), rng.randrange(nl)
            if r < 0.40:
                ops.append(['register', o, m, l, rng.randrange(20)])
            elif r < 0.50:
                ops.append(['oneshot', o, m, l, rng.randrange(20)])
            elif r < 0.64:
                ops.append(['unregister', o, m, l])
            elif r < 0.68:
                ops.append(['unregister', o, m, None])
            elif r < 0.70:
                ops.append(['unregister', o, None, None])
            elif r < 0.76:
                ops.append(['exists', o, m, l])
            elif r < 0.77:
                ops.append(['clear'])
            else:
                ops.append(['notify', o, m])
        for o in range(no):
            for m in range(nm):
                ops.append(['notify', o, m])
        return {'k': 'notif', 'ops': ops}

    def gen_one(self, rng):
        r = rng.random()
        if r < 0.30:
            return self.g_match(rng)
        if r < 0.45:
            hexd, tag = self.g_dgram(rng)
            return {'k': 'dec', 'hex': hexd, 'tag': tag}
        if r < 0.81:
            return self.g_hist(rng)
        if r < 0.84:
            return self.g_hist_udp(rng)
        if r < 0.845:
            return self.g_hist_reent(rng)
        if r < 0.85:
            return self.g_hist_mutate(rng)
        if r < 0.91:
            return self.g_sysact(rng)
        if r < 0.96:
            return self.g_srvact(rng)
        return self.g_notif(rng)

    def gen(self, rng, n):
        cases = [self.gen_one(rng) for _ in range(n)]
        if self.tier == 'thorough':                               # exhaustive single-character table
            chars = [chr(c) for c in range(0x20, 0x7f)]
            for p in chars:
                for a in chars:
                    cases.append({'k': 'match', 'p': '/' + p, 'a': '/' + a})
        return cases

    # ---- runners -----------------------------------------------------------------------------
    def impl(self, cases):
        res, err = common.run_impl('c18', 'run', {'cases': cases}, timeout=3000)
        if res is None:
            self.notes.append(err)
        else:
            self._impl = {common.canon(c): o for c, o in zip(cases, res)}
        return res

    @staticmethod
    def tok_tmpl(t):
        if t is None:
            return '-'
        if not t:
            return '[]'
        out = []
        for x in t:
            if x is None:
                out.append('N')
            elif isinstance(x, bool):
                out.append(f'I{int(x)}')
            elif isinstance(x, int):
                out.append(f'I{x}')
            elif 'f' in x:
                fr = Fraction(float.fromhex(x['f']))
                out.append(f'Q{fr.numerator}/{fr.denominator}')
            elif 's' in x:
                out.append('S' + x['s'].encode().hex())
            else:
                out.append(f'P{x["p"]}')
        return ';'.join(out)

    def hist_lines(self, c, impl_out):
        lines = ['reset']
        for i, op in enumerate(c['ops']):
            o = op[0]
            if o == 'new':
                _, rid, kind, path, src, port, tmpl, fid = op
                s = '-' if src is None else f'{src[0]}:{"-" if src[1] is None else src[1]}'
                lines.append(f'new {rid} {kind} {cps(path)} {s} {"-" if port is None else port} '
                             f'{self.tok_tmpl(tmpl)} {fid}')
            elif o == 'permanent':
                lines.append(f'permanent {op[1]} {int(op[2])}')
            elif o == 'recv':
                _, now, off, port, data, sender = op[:6]
                fr = Fraction(float.fromhex(now))
                pf = 0
                if impl_out is not None and i < len(impl_out):      # set iteration order of the real run
                    txt = impl_out[i]
                    k = txt.find('[')
                    pf = 1 if txt[k:k + 3] == '[P:' else 0
                    # the order may differ per message of one datagram only if the set changed; first one decides
                lines.append(f'recv {fr.numerator}/{fr.denominator} {off} {port} {pf} {data or "-"} {sender[0]}:{sender[1]}')
            else:
                lines.append(' '.join(str(x) for x in op))
        return lines

    def model(self, cases):
        lines, spans = [], []
        dec = []
        for c in cases:
            k = c['k']
            start = len(lines)
            if k == 'match':
                lines.append(f'match {cps(c["p"])} {cps(c["a"])}')
            elif k == 'dec':
                dec.append(c); spans.append(None); continue
            elif k == 'hist':
                lines.extend(self.hist_lines(c, getattr(self, '_impl', {}).get(common.canon(c))))
            elif k == 'sysact':
                lines.append('sys reset')
                for a, sc in c.get('scripts', {}).items():
                    lines.append(f'sys script {a} ' + ';'.join(':'.join(self.sys_toks(s)) for s in sc))
                for op in c['ops']:
                    lines.append('sys ' + ' '.join(self.sys_toks(op)))
            elif k == 'srvact':
                key = {'default': 0, 'all': 1}
                lines.append('srv reset')
                for op in c['ops']:
                    if op[0] == 'sel':
                        lines.append(f'srv sel {op[1]}')
                    elif op[0] == 'add':
                        lines.append(f'srv add {key.get(op[1], op[1])} {op[2]} {op[3][0]}')
                    elif op[0] == 'remove':
                        lines.append(f'srv remove {key.get(op[1], op[1])} {op[2]}')
                    elif op[0] == 'removeserver':
                        lines.append(f'srv removeserver {key.get(op[1], op[1])}')
                    elif op[0] == 'removeall':
                        lines.append('srv removeall')
                    else:
                        lines.append(f'srv run {op[1]} {int(op[2])}')
            elif k == 'notif':
                lines.append('nc reset')
                d = lambda x: '-' if x is None else str(x)
                for op in c['ops']:
                    if op[0] in ('register', 'oneshot'):
                        lines.append(f'nc {op[0]} {op[1]} {op[2]} {op[3]} {op[4]}')
                    elif op[0] == 'unregister':
                        lines.append(f'nc unregister {op[1]} {d(op[2])} {d(op[3])}')
                    elif op[0] == 'exists':
                        lines.append(f'nc exists {op[1]} {op[2]} {op[3]}')
                    elif op[0] == 'clear':
                        lines.append('nc clear')
                    else:
                        lines.append(f'nc notify {op[1]} {op[2]}')
            spans.append((start, len(lines)))
        out, err = common.run_driver('Sc3Verif/C18/Driver.lean', lines)
        if out is None or len(out) != len(lines):
            raise RuntimeError('driver failed: ' + (err or f'{len(out)} lines for {len(lines)}'))
        dec_out = []
        if dec:
            dec_out, err = common.run_driver('Sc3Verif/C06/Driver.lean', ['dec ' + (c['hex'] or '') for c in dec])
            if dec_out is None or len(dec_out) != len(dec):
                raise RuntimeError('C06 driver failed: ' + err)
        res, di = [], 0
        for c, sp in zip(cases, spans):
            if sp is None:
                res.append(dec_out[di]); di += 1
            elif c['k'] == 'match':
                res.append(out[sp[0]])
            else:
                res.append([l for l in out[sp[0]:sp[1]] if l != 'reset' and not (c['k'] == 'sysact' and l == 'ok' and False)])
        # drop the answers to `sys script` lines
        for i, c in enumerate(cases):
            if c['k'] == 'sysact':
                res[i] = res[i][len(c.get('scripts', {})):]
        return res

    @staticmethod
    def sys_toks(op):
        t = [op[0]]
        if len(op) > 1:
            t.append(str(op[1]))
        if len(op) > 2:
            t.append(str(op[2][0]))
        return t

    def compare(self, case, io, mo):
        if case['k'] == 'match':
            io = {'ok True': 'True', 'ok False': 'False', 'err re.error': 're.error'}.get(io, io)
        if case['k'] == 'hist':
            # the order in which the two dispatchers (members of a SET) are called is not claimed; the flag fed to
            # the model from the real run can be stale when one case occurs twice in a batch
            io = [self.norm_groups(x.rstrip()) for x in io]
            mo = [self.norm_groups(x.rstrip()) for x in mo]
        if io == mo:
            return None
        if isinstance(io, list) and isinstance(mo, list):
            for i, (a, b) in enumerate(zip(io, mo)):
                if a != b:
                    return {'op_index': i, 'op': case['ops'][i] if i < len(case['ops']) else None, 'impl': a, 'model': b}
        return {'impl': io, 'model': mo}

    @staticmethod
    def norm_groups(line):
        if not line.startswith('recv '):
            return line
        out = []
        for m in line[5:].split(' || '):
            if not m.startswith('['):
                out.append(m); continue
            k = m.find(']')
            toks = m[1:k].split()
            out.append('[' + ' '.join(sorted(t for t in toks if not t.startswith('!')) + [t for t in toks if t.startswith('!')])
                       + m[k:])
        return 'recv ' + ' || '.join(out)

    # ---- property oracle (independent of the Lean model) ---------------------------------------
    def oracle(self, c, o):
        k = c['k']
        if k == 'match':
            return self.oracle_match(c, o)
        if k == 'dec':
            return self.oracle_dec(c, o)
        if k == 'hist':
            return self.oracle_hist(c, o)
        if k == 'sysact':
            return self.oracle_sysact(c, o)
        if k == 'srvact':
            return self.oracle_srvact(c, o)
        if k == 'notif':
            return self.oracle_notif(c, o)
        return None

    def oracle_match(self, c, o):
        if o == 'HANG':
            return {'what': 'osc_rematch_pattern did not return', 'signature': 'c18:match-hang'}
        st = parse_pattern(c['p'])
        if '\n' in c['a']:
            return None
        if st[0] == 'ok':
            want = pmatch(st[1], c['a'])
            if o != f'ok {want}':
                return {'what': f'pattern {c["p"]!r} vs address {c["a"]!r}: library says {o}, OSC 1.0 reading says {want}',
                        'signature': 'c18:match-prefix' if (o == 'ok True' and any(
                            pmatch(st[1], c['a'][:i]) for i in range(len(c['a'])))) else 'c18:match-wrong'}
        elif st[0] == 'malformed':
            if o == 'ok True':
                return {'what': f'malformed pattern {c["p"]!r} ({st[1]}) matched {c["a"]!r}', 'signature': 'c18:match-malformed'}
            if o.startswith('err'):
                return {'what': f'malformed pattern {c["p"]!r} ({st[1]}) raised {o} out of the matcher '
                                '(the dispatcher and the rest of the delivery are aborted)',
                        'signature': 'c18:match-raises'}
        else:
            if o.startswith('err'):
                return {'what': f'pattern {c["p"]!r} ({st[1]}) raised {o} out of the matcher',
                        'signature': 'c18:match-raises'}
        return None

    def oracle_dec(self, c, o):
        if o == 'HANG':
            return {'what': 'OscPacket(datagram) did not return within 10 s: the receiver thread is stuck',
                    'signature': 'c18:decoder-hang'}
        try:
            pkt = osc10.read_packet(bytes.fromhex(c['hex']))
            strict = True
            for _, a, vs in osc10.flatten(pkt):               # text must be UTF-8 (sc3 decodes it)
                a.decode('utf-8')
                for v in self.leaves(vs):
                    if v[0] in 'sS':
                        v[1].decode('utf-8')
        except (osc10.Osc10Error, UnicodeDecodeError):
            strict = False
        if strict and not o.startswith('ok '):
            return {'what': f'well-formed OSC 1.0 datagram rejected: {o}', 'signature': 'c18:decoder-rejects'}
        if strict:
            want = self.canon_decoded(pkt)
            if want is not None and o != 'ok ' + want:
                return {'what': f'decode(independent_encode(msg)) != msg: OscPacket gives {o[3:]!r:.300}, the strict '
                                f'OSC 1.0 reading of the datagram is {want!r:.300}', 'signature': 'c18:decoder-wrong'}
        if c.get('tag') == 'nothing' and o.startswith('ok ') and o != 'ok ':
            return {'what': f'undecodable datagram produced messages: {o[:120]}', 'signature': 'c18:decoder-accepts-garbage'}
        return None

    @classmethod
    def canon_vals(cls, vs):
        out = []
        for v in vs:
            t = v[0]
            if t == 'i':
                out.append(f'i{v[1]}')
            elif t == 'f':
                out.append('fnan' if (v[1] >> 23) & 255 == 255 and v[1] & 0x7fffff else f'f{v[1]}')
            elif t == 's':
                out.append('s' + v[1].hex())
            elif t == 'b':
                out.append('b' + v[1].hex())
            elif t in 'TF':
                out.append(t)
            elif t == '[':
                inner = cls.canon_vals(v[1])
                if inner is None:
                    return None
                out.append(' '.join(['['] + inner + [']']))
            else:
                return None             # kinds the impl formatter prints differently (d, t, r, m, N, I …)
        return out

    @classmethod
    def canon_decoded(cls, pkt):
        rows = []
        for t, addr, vals in osc10.flatten(pkt):
            cv = cls.canon_vals(vals)
            if cv is None:
                return None
            rows.append((t, ('None' if t is None else str(t)) + ';' + addr.hex() + ';' + ' '.join(cv)))
        rows.sort(key=lambda r: r[0] or 0)
        return '|'.join(r for _, r in rows)

    @classmethod
    def leaves(cls, vs):
        for v in vs:
            if v[0] == '[':
                yield from cls.leaves(v[1])
            else:
                yield v

    # reference bookkeeping of the abstract specification
    def oracle_hist(self, c, o):
        R = {}          # rid -> dict
        seq = 0
        cmd_user = []   # user CmdPeriod actions in registration order
        for i, op in enumerate(c['ops']):
            out = o[i] if i < len(o) else 'missing'
            k = op[0]
            if out in ('HANG',) or out.startswith('ESCAPED'):
                return {'what': f'op #{i} {k}: {out} — the datagram stalled or raised into the receiver',
                        'signature': 'c18:receiver-' + out.split()[0].lower(), 'index': i}
            if out.startswith('DEAD'):
                return {'what': f'op #{i}: a datagram sent from a plain UDP socket after {sum(1 for q in c["ops"][:i] if q[0] == "recv")} '
                                f'earlier datagrams (the last of them: {next((q[4] for q in reversed(c["ops"][:i]) if q[0] == "recv"), None)!r}) '
                                f'(or this one: {op[4]!r}) was never processed — the interface stopped receiving although it was not stopped',
                        'signature': 'c18:receiver-dead', 'index': i}
            if k == 'new':
                _, rid, kind, path, src, port, tmpl, fid = op
                if not path.startswith('/'):
                    path = '/' + path
                R[rid] = dict(kind=kind, path=path, src=src, port=port, tmpl=tmpl, fid=fid, once=False,
                              enabled=True, perm=False, seq=seq, cmd=True)
                seq += 1
            elif k in ('enable', 'disable', 'free', 'oneshot', 'setfunc', 'permanent') and op[1] not in R:
                continue                                   # (shrunk histories) unknown responder
            elif k == 'enable':
                r = R[op[1]]
                if not r['enabled']:
                    r['enabled'] = True; r['seq'] = seq; seq += 1
                    if not r['perm']:
                        r['cmd'] = True
            elif k in ('disable', 'free'):
                r = R[op[1]]
                if r['enabled']:
                    r['enabled'] = False
                    if not r['perm']:
                        r['cmd'] = False
            elif k == 'oneshot':
                R[op[1]]['once'] = True
            elif k == 'setfunc':
                R[op[1]]['fid'] = op[2]; R[op[1]]['once'] = False
            elif k == 'permanent':
                r = R[op[1]]
                r['perm'] = op[2]
                r['cmd'] = not (op[2] and r['enabled'])
            elif k == 'cmdadd':
                if op[1] not in cmd_user:
                    cmd_user.append(op[1])
            elif k == 'cmdremove':
                if op[1] in cmd_user:
                    cmd_user.remove(op[1])
            elif k == 'cmdperiod':
                want = 'actions ' + ','.join(str(a) for a in cmd_user)
                if out != want:
                    return {'what': f'op #{i}: CmdPeriod.run ran {out!r}, registered user actions are {want!r}',
                            'signature': 'c18:cmdperiod', 'index': i}
                for r in R.values():
                    if r['cmd']:
                        r['enabled'] = False      # __on_cmd_period frees it
                        if not r['perm']:
                            r['cmd'] = False
            elif k == 'recv':
                try:
                    v = self.oracle_recv(op, out, R, i)
                except LostTrack:
                    return None          # no opinion about the rest of this history (the Lean model still is compared)
                if v:
                    return v
        return None

    @staticmethod
    def plain(v):
        """canonical text of a strictly parsed value, as a callback sees it"""
        t = v[0]
        if t == 'i':
            return f'n{v[1]}'
        if t == 'f':
            x = struct.unpack('>f', struct.pack('>I', v[1]))[0]
            if x != x:
                return 'nnan'
            if x in (float('inf'), float('-inf')):
                return 'n' + str(x)
            fr = Fraction(x)
            return f'n{fr.numerator}' if fr.denominator == 1 else f'n{fr.numerator}/{fr.denominator}'
        if t == 's':
            return 's' + v[1].hex()
        if t == 'b':
            return 'b' + v[1].hex()
        if t in 'TF':
            return t
        return '?'

    def oracle_recv(self, op, out, R, i):
        _, now, off, port, data, sender = op[:6]
        tag = op[6] if len(op) > 6 else 'lenient'
        if not out.startswith('recv'):
            return {'what': f'op #{i}: reception answered {out!r}', 'signature': 'c18:recv-error', 'index': i}
        body = out[5:]
        msgs = [m for m in body.split(' || ')] if body.strip() else []
        try:
            pkt = osc10.read_packet(bytes.fromhex(data))
            strict = True
            for _, a, vs in osc10.flatten(pkt):               # text must be UTF-8 (else: malformed)
                a.decode('utf-8')
                for v in vs:
                    if v[0] == 's':
                        v[1].decode('utf-8')
                    elif v[0] not in 'ifsbTF':
                        strict = False                        # value kinds outside the generator's writer
        except (osc10.Osc10Error, ValueError):
            strict = False
        if '!' in ''.join(m.split(']')[0] for m in msgs):
            exc = [m.split(']')[0].split('!')[1] for m in msgs if '!' in m.split(']')[0]][0]
            return {'what': f'op #{i}: dispatching the datagram raised {exc} out of a dispatcher: the delivery of that '
                            f'message to the remaining responders / dispatchers was aborted ({out[:160]})',
                    'signature': f'c18:dispatch-raised:{exc}', 'index': i}
        if not strict:
            if tag == 'nothing' and any(']' in m and m.split(']')[0].strip('[ EP:') for m in msgs):
                return {'what': f'op #{i}: an undecodable datagram invoked callbacks: {out[:160]}',
                        'signature': 'c18:malformed-dispatched', 'index': i}
            # lenient reading of a damaged datagram: one-shot responders may have fired — resynchronise
            self.resync(out, R)
            return None
        flat = osc10.flatten(pkt)
        # the library sorts the messages of a bundle by time (stable)
        order = sorted(range(len(flat)), key=lambda j: flat[j][0] or 0)
        if len(msgs) != len(flat):
            return {'what': f'op #{i}: datagram carries {len(flat)} messages, {len(msgs)} were dispatched ({out[:160]})',
                    'signature': 'c18:message-count', 'index': i}
        for m, j in zip(msgs, order):
            tt, addr_b, vals = flat[j]
            head, _, pay = m.partition('] ')
            if not pay and m.endswith(']'):
                head = m[:-1]
            groups = dict(g.split(':') for g in head.strip('[]').split())
            got = {d: [int(x) for x in groups.get(d, '').split(',') if x] for d in 'EP'}
            try:
                addr = addr_b.decode('utf-8')
            except UnicodeDecodeError:
                return None
            # float(osctime - offset) * 2**-32, as the library computes it (rounds above 2**53)
            t = Fraction(float.fromhex(now)) if tt is None or tt == 1 else Fraction(float(tt - off)) / 2 ** 32
            want_pay = (cps(addr) + ';' + ' '.join(self.plain(v) for v in vals) + ';'
                        + (str(t.numerator) if t.denominator == 1 else f'{t.numerator}/{t.denominator}')
                        + ';' + f'{sender[0]}:{sender[1]}' + ';' + str(port))
            params = vals
            st = parse_pattern(addr)
            for d in 'EP':
                cands = [(r['seq'], rid) for rid, r in R.items() if r['enabled'] and r['kind'] == d]
                exp = []
                for _, rid in sorted(cands):
                    r = R[rid]
                    if d == 'E':
                        hit = r['path'] == addr
                    else:
                        if st[0] == 'outside':
                            hit = None
                        elif st[0] == 'malformed':
                            hit = False
                        else:
                            hit = pmatch(st[1], r['path'])
                    if hit is None:
                        exp = None
                        break
                    if hit and self.accepts(r, params, sender, port):
                        exp.append(rid)
                if exp is None:
                    self.resync_one(got[d], R, d)
                    continue
                want = [R[rid]['fid'] for rid in exp]
                if d == 'E' or len({R[rid]['path'] for rid in exp}) <= 1:
                    ok = got[d] == want
                else:                       # several keys: order between keys is not claimed
                    ok = sorted(got[d]) == sorted(want)
                    for path in {R[rid]['path'] for rid in exp}:
                        sub = [R[rid]['fid'] for rid in exp if R[rid]['path'] == path]
                        uniq = [f for f in sub if want.count(f) == 1]
                        pos = [got[d].index(f) for f in uniq if f in got[d]]
                        ok = ok and pos == sorted(pos)
                if not ok:
                    sig = 'c18:fired-wrong'
                    if len(got[d]) < len(want) and all(f in want for f in got[d]):
                        sig = 'c18:missed'
                    elif len(got[d]) > len(want):
                        sig = 'c18:extra'
                    return {'what': f'op #{i}: message {addr!r} {[self.plain(v) for v in vals]} from {sender} on port '
                                    f'{port}: {"exact" if d == "E" else "matching"} responders fired {got[d]}, '
                                    f'should fire {want} (callback ids, registration order)',
                            'signature': sig, 'index': i}
                for rid in exp:
                    if R[rid]['once']:
                        R[rid]['enabled'] = False
                        if not R[rid]['perm']:
                            R[rid]['cmd'] = False
            if (got['E'] or got['P']) and pay.strip() != want_pay:
                return {'what': f'op #{i}: callbacks received {pay.strip()!r}, the datagram says {want_pay!r}',
                        'signature': 'c18:payload', 'index': i}
        return None

    def resync(self, out, R):
        for m in out[5:].split(' || '):
            head = m.split(']')[0]
            for g in head.strip('[ ').split():
                if ':' in g and '!' not in g:
                    d, _, ids = g.partition(':')
                    self.resync_one([int(x) for x in ids.split(',') if x], R, d)

    @staticmethod
    def resync_one(fids, R, d):
        """after a delivery the oracle has no opinion about: one-shot responders that fired are gone"""
        for f in set(fids):
            cands = [r for r in R.values() if r['enabled'] and r['kind'] == d and r['fid'] == f]
            if len(cands) > 1 and any(r['once'] for r in cands):
                raise LostTrack()       # a shared callback: which of its responders fired cannot be told from outside
        for f in fids:
            for r in R.values():
                if r['enabled'] and r['kind'] == d and r['fid'] == f and r['once']:
                    r['enabled'] = False
                    if not r['perm']:
                        r['cmd'] = False

    @staticmethod
    def accepts(r, vals, sender, port):
        if r['src'] is not None:
            if r['src'][0] != sender[0] or (r['src'][1] is not None and r['src'][1] != sender[1]):
                return False
        if r['port'] is not None and r['port'] != port:
            return False
        if r['tmpl'] is not None:
            for j, item in enumerate(r['tmpl']):
                if item is None:
                    continue
                if j >= len(vals):
                    return False                  # a missing argument matches only None
                v = vals[j]
                if v[0] == 'i':
                    x = v[1]
                elif v[0] == 'f':
                    x = struct.unpack('>f', struct.pack('>I', v[1]))[0]
                elif v[0] == 's':
                    x = v[1].decode('utf-8', 'replace')
                elif v[0] in 'TF':
                    x = v[0] == 'T'
                else:
                    x = v[1]
                if isinstance(item, dict) and 'p' in item:
                    p = item['p']
                    ok = [True, False, isinstance(x, (int, float)) and not isinstance(x, bool) and x > 0,
                          isinstance(x, str)][p]
                    if not ok:
                        return False
                else:
                    want = float.fromhex(item['f']) if isinstance(item, dict) and 'f' in item else \
                        item['s'] if isinstance(item, dict) else item
                    if isinstance(want, str) != isinstance(x, str) or want != x:
                        return False
        return True

    def oracle_sysact(self, c, o):
        reg = {}
        scripts = c.get('scripts', {})
        for i, op in enumerate(c['ops']):
            if op[0] == 'run':
                log = []
                for a in list(reg):
                    if a in reg:
                        log.append(f'{a}({reg[a]})')
                        if a >= 100:                              # a do_once registration: once, then never again
                            del reg[a]
                        for s in scripts.get(str(a), []):
                            self.sys_apply(reg, s)
                want = ('run ' + ' '.join(log))
                if o[i].rstrip() != want.rstrip():
                    return {'what': f'op #{i}: run executed {o[i]!r}; registered at that moment, in registration order '
                                    f'(removals during the run honoured): {want!r}', 'signature': 'c18:sysaction-run'}
            else:
                self.sys_apply(reg, op)
        return None

    @staticmethod
    def sys_apply(reg, op):
        if op[0] in ('add', 'once'):
            reg[op[1]] = op[2][0]
        elif op[0] == 'remove':
            reg.pop(op[1], None)
        elif op[0] == 'removeall':
            reg.clear()

    def oracle_srvact(self, c, o):
        regs = {0: {}}
        reg = regs[0]
        for i, op in enumerate(c['ops']):
            if op[0] == 'sel':
                reg = regs.setdefault(op[1], {})                  # each registry is a table of its own
            elif op[0] == 'add':
                reg.setdefault(op[1], {})[op[2]] = op[3][0]
            elif op[0] == 'remove':
                reg.get(op[1], {}).pop(op[2], None)
            elif op[0] == 'removeserver':
                reg.pop(op[1], None)
            elif op[0] == 'removeall':
                reg.clear()
            else:
                seqs = [reg.get(op[1], {})] + ([reg.get('default', {})] if op[2] else []) + [reg.get('all', {})]
                want = 'run ' + ' '.join(f'{a}({x})' for d in seqs for a, x in d.items())
                if o[i].rstrip() != want.rstrip():
                    return {'what': f'op #{i}: ServerAction.run executed {o[i]!r}, currently registered: {want!r}',
                            'signature': 'c18:serveraction-run'}
        return None

    def oracle_notif(self, c, o):
        reg = {}                                  # obj -> msg -> listener -> (action, one-shot)
        for i, op in enumerate(c['ops']):
            k = op[0]
            if k in ('register', 'oneshot'):
                reg.setdefault(op[1], {}).setdefault(op[2], {})[op[3]] = (op[4], k == 'oneshot')
                want = 'ok'
            elif k == 'unregister':
                _, ob, m, l = op
                try:
                    if m is None:
                        del reg[ob]
                    elif l is None:
                        del reg[ob][m]
                    else:
                        del reg[ob][m][l]
                    want = 'ok'
                except KeyError:
                    want = 'err KeyError'
            elif k == 'exists':
                want = str(op[3] in reg.get(op[1], {}).get(op[2], {}))
            elif k == 'clear':
                reg.clear(); want = 'ok'
            else:
                cur = reg.get(op[1], {}).get(op[2], {})
                want = 'notify ' + ' '.join(f'{a}:{l}' for l, (a, _) in cur.items())
                for l in [l for l, (_, once) in cur.items() if once]:
                    del cur[l]
            if o[i].rstrip() != want.rstrip():
                return {'what': f'op #{i} {op}: NotificationCenter answered {o[i]!r}; the registrations made so far '
                                f'(per object, message, listener, in registration order) say {want!r}',
                        'signature': 'c18:notification', 'index': i}
        return None

    # ---- evidence bits ---------------------------------------------------------------------------
    def nontrivial(self, c, o):
        if c['k'] == 'match':
            return o == 'ok True'
        if c['k'] == 'dec':
            return isinstance(o, str) and o.startswith('ok ') and len(o) > 3
        if c['k'] == 'hist':
            fired = any(x.startswith('recv') and any(ch.isdigit() for ch in x.split(']')[0]) for x in o)
            silent = any(x.startswith('recv [') and (x.split(']')[0].endswith(':') or 'E: ' in x or 'P: ' in x) for x in o)
            return fired and silent
        return any(x.startswith(('run ', 'notify ')) and len(x.split()) > 1 for x in o)

    def histogram(self, cases, outs):
        h = {}

        def inc(k, n=1):
            h[k] = h.get(k, 0) + n
        for c, o in zip(cases, outs):
            inc('kind:' + c['k'])
            if c['k'] == 'match':
                inc('match:' + str(o))
            elif c['k'] == 'dec':
                inc('dec:' + (o.split()[1] if o.startswith('err') else o.split()[0] if o else 'empty'))
            elif c['k'] == 'hist':
                for op, x in zip(c['ops'], o):
                    inc('op:' + op[0])
                    if op[0] == 'recv':
                        inc('recv:' + (op[6] if len(op) > 6 else '?'))
                        inc('callbacks', sum(ch == ',' for ch in x.split('] ')[0]) + ('E:' in x and not x.split('E:')[1][:1] in ' ]') + ('P:' in x and not x.split('P:')[1][:1] in ' ]'))
        return h

    def shrink(self, c, fails):
        if c.get('fuse'):
            return c                                              # op indices are part of the case
        if c['k'] in ('hist', 'sysact', 'srvact', 'notif') and len(c['ops']) > 1:
            return dict(c, ops=common.shrink_list(c['ops'], lambda l: fails(dict(c, ops=l))))
        return c


Check.THEOREMS = ['Sc3Verif.C18.' + t for t in (
    'fullmatch_iff_language', 'match_iff_language', 'malformed_matches_nothing', 'literal_matches_only_itself', 'wildcard_pattern_language',
    'dispatch_refines', 'dispatch_refines_state', 'dispatch_exact', 'dispatch_matching', 'only_enabled_fire', 'oneshot_fires_once',
    'malformed_no_dispatch', 'decoder_total', 'negative_element_size_rejected',
    'registry_runs_current', 'registry_runs_subsequence', 'registry_add_order', 'registry_remove_removes', 'registry_do_once',
    'server_action_remove_removes', 'server_action_run', 'notification_notify',
    'notification_center_notify', 'notification_unregister_local')]
