"""C12 — TempoClock time arithmetic and quantisation are consistent."""
import math
import sys
from fractions import Fraction

from harness import common

sys.path.insert(0, str(common.VERIF / 'tools'))
import py2lean  # noqa: E402

TOL = Fraction(1, 10 ** 9)


def F(s):
    return Fraction(s)


def fq(q):
    q = Fraction(float(Fraction(q)))          # exactly the float the implementation receives
    return str(q.numerator) if q.denominator == 1 else f'{q.numerator}/{q.denominator}'


def num(q, as_int):
    return f'i:{int(q)}' if as_int else 'f:' + fq(q)


def numval(s):
    return None if s == '-' else Fraction(s[2:])


def parse(line):
    """'v:3/2 | now beats tempo bbb bpb bbar' -> (res, snapshot dict) ; errors -> (res, None)"""
    if ' | ' not in line:
        return line, None
    res, snap = line.split(' | ')
    try:
        vals = [Fraction(x) for x in snap.split()]
    except ValueError:
        return res, None
    return res.strip(), dict(zip(('now', 'beats', 'tempo', 'bbb', 'bpb', 'bbar'), vals))


def close(a, b, tol):
    return abs(a - b) <= tol * max(1, abs(a), abs(b))


class Check(common.Check):
    PROP = 'C12'
    LEAN_TARGETS = ['Sc3Verif.C12.Props']
    LEAN_DIRS = ['Sc3Verif/C12', 'Sc3Verif/C15']
    THEOREMS = ['Sc3Verif.C12.' + t for t in (
        'secs_beats_inverse', 'beats_advance_at_tempo', 'tempo_change_continuous', 'tempo_change_domain',
        'etempo_change_continuous', 'beats_set_continuous', 'ntog_least', 'ntog_total', 'ntog_quant0',
        'play_quant_schedules_there', 'other_routine_keeps_its_beat', 'bars_beats_inverse', 'next_bar_ge', 'next_bar_current_ge',
        'bar_and_beat_in_bar', 'meter_change_rebase', 'init_wf', 'wf_history', 'wfm_history',
        'wait_resumes_after_delta', 'routine_timeline')]
    N_QUICK = 600
    N_THOROUGH = 20000
    ASSUMPTIONS = [
        'Python float idealised as an exact rational (binary64 rounding not modelled); the exact '
        'correspondence stream uses dyadic values and power-of-two tempi / meters, the decimal stream is '
        'compared with relative tolerance 1e-9 and ignored at discontinuities (floor/ceil/round)',
        'the clock is running and driven from a routine playing on it (NRT mode: physical time = logical time)',
        'translator assumptions listed in the header of GenTempo.lean',
    ]

    def regen(self):
        for prop in ('C15', 'C12'):               # C12 uses the kernels generated for C15
            err, res = py2lean.generate(prop, str(common.REPO))
            if err:
                return err
        self.index = res['index']
        return None

    # ------------------------------------------------------------------ generator
    def rule(self):
        return ('histories of 1-40 ops on one TempoClock driven by a routine in NRT mode: waits, tempo / etempo / '
                'beats / beats_per_bar changes (zero and negative values included), conversions, inverse round '
                'trips, next_time_on_grid with int/float quant, phase in (-quant, quant) mostly (also outside, '
                'quant 0, negative), explicit / current reference beat, bars, next_bar, play(quant) wake time; '
                'clock created at time 0 or later with optional beats/seconds; 80 % exact stream (dyadic values, '
                'tempo and meter powers of two), 20 % decimal stream (tolerance). Non-trivial: a history with a '
                'tempo/beats/meter change followed by a quantisation or conversion query; distinct by op list')

    def dy(self, rng, lo=-64, hi=64, dens=(1, 2, 4, 8)):
        return Fraction(rng.randint(lo, hi), rng.choice(dens))

    def gen_case(self, rng):
        approx = rng.random() < 0.2

        def tempo():
            if approx:
                return Fraction(rng.choice(['3', '1.5', '0.7', '2.2', '120/60', '1/3', '5']))
            return Fraction(rng.choice([1, 1, 2, 4, 8]), rng.choice([1, 1, 2, 4]))

        def meter():
            if approx:
                return Fraction(rng.choice([3, 5, 6, 7, 12])) / rng.choice([1, 1, 2, 8])
            return Fraction(rng.choice([1, 2, 4, 4, 8, 16]), rng.choice([1, 1, 2]))

        def value(lo=-40, hi=80):
            if approx and rng.random() < 0.5:
                return Fraction(float(round(rng.uniform(lo, hi), 2)))
            return self.dy(rng, lo * 4, hi * 4, (4, 8, 2, 1))

        init = [fq(tempo()) if rng.random() < 0.9 else '-',
                fq(value(-8, 16)) if rng.random() < 0.4 else '-',
                fq(value(-4, 8)) if rng.random() < 0.25 else '-']
        start = fq(self.dy(rng, 0, 32, (4,))) if rng.random() < 0.4 else '0'
        ops = []
        for _ in range(rng.choice([rng.randint(1, 6), rng.randint(4, 16), rng.randint(10, 40)])):
            r = rng.random()
            if r < 0.16:
                w = self.dy(rng, 0, 64, (1, 2, 4, 8, 16))
                if not approx and rng.random() < 0.15:       # a routine that waited 8.0000000002 beats
                    w += Fraction(1, 2 ** rng.choice([33, 36, 40]))
                ops.append('wait ' + fq(w))
            elif r < 0.25:
                v = tempo()
                q = rng.random()
                if q < 0.06:
                    v = Fraction(0)
                elif q < 0.12:
                    v = -v
                ops.append('tempo ' + fq(v))
            elif r < 0.28:
                v = tempo() * (-1 if rng.random() < 0.15 else 1)
                ops.append('etempo ' + fq(v if rng.random() > 0.05 else 0))
            elif r < 0.34:
                ops.append(rng.choice(['beats ', 'beats ', 'obeats ']) + fq(value()))
            elif r < 0.42:
                v = meter()
                q = rng.random()
                if q < 0.04:
                    v = Fraction(0)
                ops.append('bpb ' + fq(v))
            elif r < 0.62:
                if approx:
                    quant = Fraction(rng.choice(['1', '3', '1.5', '0.3', '4', '2.5', '0.75']))
                else:
                    quant = Fraction(rng.choice([1, 1, 2, 3, 4, 5, 6, 8, 12]), rng.choice([1, 1, 1, 2, 4]))
                qi = quant.denominator == 1 and rng.random() < 0.6
                q = rng.random()
                if q < 0.05:
                    quant = Fraction(0)
                elif q < 0.09:
                    quant = -quant
                if rng.random() < 0.85 and quant > 0:
                    k = rng.randint(-15, 15)
                    phase = quant * k / 16 if not qi or rng.random() < 0.5 else Fraction(rng.randint(1 - int(quant), int(quant) - 1) if quant > 1 else 0)
                else:
                    phase = self.dy(rng, -24, 24)
                pi = phase.denominator == 1 and rng.random() < 0.6
                rr = rng.random()
                if rr < 0.45:
                    ref = '-'
                else:
                    refv = value() if rng.random() < 0.7 else Fraction(rng.randint(-30, 60))
                    if rng.random() < 0.3 and quant > 0:     # exactly on the grid, or a hair beside it
                        refv = quant * rng.randint(-6, 12) + phase
                        if not approx and rng.random() < 0.6:
                            refv += rng.choice([1, -1]) * Fraction(1, 2 ** rng.choice([34, 36, 40, 44]))
                    ref = num(refv, refv.denominator == 1 and rng.random() < 0.5)
                kind = 'playat' if ref == '-' and rng.random() < 0.35 else 'ntog'
                if ref == '-' and kind == 'ntog' and quant >= 0 and rng.random() < 0.4:
                    ops.append(f'q ttnb {num(quant, qi)} {num(phase, pi)} -')
                elif kind == 'playat':
                    via = rng.choice(['clock', 'rplay', 'rrun', 'deco', 'resume'])
                    form = rng.choice(['Q', 'Q', 'L'] + (['N'] if phase == 0 else []))
                    ops.append(f'q playat {num(quant, qi)} {num(phase, pi)} {via}:{form}')
                else:
                    ops.append(f'q ntog {num(quant, qi)} {num(phase, pi)} {ref}')
            elif r < 0.74:
                ops.append('q ' + rng.choice(['invb', 'invs', 'invbars', 'b2s', 's2b', 'b2bars', 'bars2b']) + ' ' + fq(value()))
            elif r < 0.82:
                rb = rng.random()
                ops.append('q playbar -' if rb < 0.25 else 'q nextbar ' + (fq(value()) if rb < 0.7 else '-'))
            else:
                ops.append('q ' + rng.choice(['beats', 'tempo', 'beatdur', 'ebeats', 'bar', 'bar', 'bib', 'bib']))
        if rng.random() < 0.3:
            # a beats jump by a non-multiple of the quant, then the grid / bar line / play(quant) are asked
            q = rng.choice([1, 2, 3, 4, 4, 8]) if not approx else rng.choice([3, 1.5, 4])
            jump = value() + Fraction(rng.choice([1, 3, 5, 7]), 8)
            ops.append(rng.choice(['beats ', 'obeats ']) + fq(jump))
            tail = [f'q ntog {num(Fraction(q), Fraction(q).denominator == 1)} i:0 -', 'q nextbar -', 'q playbar -',
                    f'q ttnb {num(Fraction(q), Fraction(q).denominator == 1)} i:0 -',
                    f'q playat {num(Fraction(q), Fraction(q).denominator == 1)} i:0 ' + rng.choice(['clock:Q', 'rplay:N', 'deco:L']),
                    'q bar', 'q bib']
            rng.shuffle(tail)
            ops += tail[:rng.randint(2, 5)]
        c = {'init': ' '.join(init), 'start': start, 'ops': ops}
        if rng.random() < 0.5:        # a second routine on the same clock
            c['ticker'] = {'d': fq(Fraction(rng.choice([1, 1, 2, 3, 5, 3, 6]), rng.choice([1, 2, 4]))),
                           'n': rng.randint(3, 12)}
        if approx:
            c['approx'] = True
        return c

    def gen_rt_case(self, rng):
        """real-time mode: play(quant) through every entry point, called from the MAIN thread"""
        plays = []
        for _ in range(rng.randint(2, 6)):
            quant = Fraction(rng.choice([1, 1, 2, 3, 4, 4, 8]), rng.choice([1, 1, 2]))
            phase = quant * rng.randint(-7, 7) / 8 if rng.random() < 0.6 else Fraction(0)
            via = rng.choice(['clock', 'rplay', 'rrun', 'deco', 'resume'])
            entry = [num(quant, quant.denominator == 1 and rng.random() < 0.6),
                     num(phase, phase.denominator == 1 and rng.random() < 0.6), via]
            plays.append(entry)
            if rng.random() < 0.5:                       # a second part with the same quant
                plays.append(entry[:2] + [rng.choice(['clock', 'rplay', 'deco'])])
        c = {'rt': True, 'tempo': fq(Fraction(rng.choice([1, 2, 4, 3, 5]), rng.choice([1, 1, 2, 4]))),
             'skip': fq(self.dy(rng, 0, 40)), 'tick': rng.choice(['1/16384', '1/1024', '1/65536']), 'plays': plays}
        if rng.random() < 0.4:
            c['beats'] = fq(self.dy(rng, -8, 30))
        return c

    def gen_pat_case(self, rng):
        """the pattern player (Pbind(...).play(clock)) paused and resumed at fractional beats, mostly WITHOUT a
        quant (the default quant: next whole beat); handled like the rt cases (oracle on the real clock only)"""
        plays = []
        for _ in range(rng.randint(1, 3)):
            a = Fraction(rng.randint(1, 11), 4)
            b = 1 + Fraction(rng.choice([0, 1, 2, 3, 5, 6, 7]), 4)
            if rng.random() < 0.6:
                plays.append([fq(a), fq(b), '-', '-'])
            else:
                q = rng.choice([1, 2, 3, 4])
                plays.append([fq(a), fq(b), f'i:{q}', num(Fraction(rng.randint(0, 4 * q - 1), 4), False)])
        return {'rt': True, 'pat': True, 'tempo': fq(Fraction(rng.choice([1, 2, 4, 3, 5]), rng.choice([1, 1, 2, 4]))),
                'plays': plays}

    def gen(self, rng, n):
        cases = [self.gen_case(rng) for _ in range(n)]
        cases += [self.gen_rt_case(rng) for _ in range(max(6, n // 60))]
        cases += [self.gen_pat_case(rng) for _ in range(max(6, n // 60))]
        return cases

    # ------------------------------------------------------------------ runners
    def impl(self, cases):
        nrt = [c for c in cases if not c.get('rt')]
        rt = [c for c in cases if c.get('rt') and not c.get('pat')]
        pat = [c for c in cases if c.get('pat')]
        res, err = common.run_impl('c12', 'run', {'cases': nrt})
        if res is None:
            self.notes.append(err)
            return None
        res2 = []
        if rt:                                     # real-time mode needs its own process
            res2, err = common.run_impl('c12', 'run_rt', {'cases': rt})
            if res2 is None:
                self.notes.append(err)
                return None
        res3 = []
        if pat:
            res3, err = common.run_impl('c12', 'run_pat', {'cases': pat})
            if res3 is None:
                self.notes.append(err)
                return None
        a, b, c3 = iter(res), iter(res2), iter(res3)
        return [next(c3) if c.get('pat') else next(b) if c.get('rt') else next(a) for c in cases]

    def model(self, cases):
        lines = []
        for c in cases:
            if c.get('rt'):
                continue                           # checked by the oracle on the real clock only
            lines.append('reset')
            lines.append(f"init {c['init']} {c.get('start', '0')}")
            # play_next_bar wakes at next_bar(current beat); beats + time_to_next_beat is next_time_on_grid
            lines.extend('q nextbar -' if o == 'q playbar -' else o.replace('q ttnb ', 'q ntog ', 1) for o in c['ops'])
            if c.get('ticker'):
                lines.append(f"ticks {c['ticker']['d']} {c['ticker']['n']}")
        out, err = common.run_driver('Sc3Verif/C12/Driver.lean', lines)
        if out is None:
            raise RuntimeError('driver failed: ' + err)
        res, cur = [], None
        for line in out:
            if line == 'reset':
                cur = []
                res.append(cur)
            else:
                cur.append(line)
        it = iter(res)
        return [None if c.get('rt') else next(it) for c in cases]

    DISCONT = ('q bar', 'q bib', 'q nextbar', 'q ntog', 'q playat', 'q playbar', 'q ttnb', 'bpb')

    def compare(self, case, io, mo):
        if case.get('rt'):
            return None
        if len(io) != len(mo):
            return {'impl': io, 'model': mo}
        if io[0].startswith('E:') or mo[0].startswith('E:'):
            return None if io[0] == mo[0] else {'impl': io[0], 'model': mo[0], 'at': 'init'}
        approx = bool(case.get('approx'))
        tainted = False
        if case.get('ticker'):
            ta, tb = io[-1].split()[1:], mo[-1].split()[1:]
            io, mo = io[:-1], mo[:-1]
            if len(ta) != len(tb) or not all(x == y or (approx and close(F(x), F(y), TOL)) for x, y in zip(ta, tb)):
                return {'at': 'ticks', 'impl': ta, 'model': tb}
        for k, (a, b) in enumerate(zip(io, mo)):
            if a == b:
                continue
            if not approx:
                return {'at': k, 'op': (['init'] + case['ops'])[k], 'impl': a, 'model': b}
            op = (['init'] + case['ops'])[k]
            ra, sa = parse(a)
            rb, sb = parse(b)
            if sa is None or sb is None or ra[:2] != rb[:2]:
                if tainted or op.startswith(self.DISCONT):
                    return None             # rounding at a discontinuity earlier in this history
                return {'at': k, 'op': op, 'impl': a, 'model': b}
            ok = all(close(sa[x], sb[x], TOL) for x in sa)
            if ra.startswith('v:'):
                ok = ok and close(F(ra[2:]), F(rb[2:]), TOL)
            if not ok:
                if tainted or op.startswith(self.DISCONT):
                    return None
                return {'at': k, 'op': op, 'impl': a, 'model': b}
        return None

    # ------------------------------------------------------------------ oracle
    def pat_oracle(self, case, out):
        if out.get('error'):
            return {'what': f'pattern player pause/resume: {out["error"]}', 'signature': 'tempo:player-resume'}
        for (a, b, q, p), (before, got) in zip(case['plays'], out['plays']):
            qv, pv = (Fraction(1), Fraction(0)) if q == '-' else (numval(q), numval(p))
            b0 = F(before)
            exp = pv + math.ceil((b0 - pv) / qv) * qv
            if got == 'none' or abs(F(got) - exp) > Fraction(1, 10 ** 9):     # beats↔seconds rounds for tempo 3, 5/4 …
                how = 'resume() without a quant (default: the next whole beat)' if q == '-' else f'resume(quant=Quant({qv}, {pv}))'
                return {'what': f'pattern player paused and resumed at beat {float(b0)} (tempo {case["tempo"]}) with {how}: its next '
                                f'event is at beat {got if got == "none" else float(F(got))}, next_time_on_grid gives {float(exp)}',
                        'signature': 'tempo:player-resume'}
        return None

    def rt_oracle(self, case, out):
        if case.get('pat'):
            return self.pat_oracle(case, out)
        if out.get('error'):
            return {'what': f'real-time play from the main thread: {out["error"]}', 'signature': 'tempo:rt-play'}
        origin = F(out['origin'])
        prev = None
        for (q, p, via), (before, sched, after) in zip(case['plays'], out['plays']):
            q, p = numval(q), numval(p)
            if sched.startswith('E:'):
                return {'what': f'play({via}, quant {q}, phase {p}) from the main thread left {sched} in the clock queue',
                        'signature': 'tempo:rt-play'}
            b0, g, b1 = F(before), F(sched), F(after)

            def grid(ref):
                return origin + p + math.ceil((ref - origin - p) / q) * q
            if ((g - origin - p) / q).denominator != 1 or not (grid(b0) <= g <= grid(b1)):
                return {'what': f'real-time play({via}, quant {float(q)}, phase {float(p)}) from the main thread at beat '
                                f'{float(b0)}…{float(b1)}: the task is queued at beat {float(g)} ({sched}), the grid points '
                                f'not before the call are {float(grid(b0))} / {float(grid(b1))}',
                        'signature': 'tempo:rt-play'}
            if prev and prev[0] == (q, p) and ((g - prev[1]) / q).denominator != 1:
                return {'what': f'two parts played with quant {float(q)} from the main thread start at beats '
                                f'{float(prev[1])} and {float(g)}: not a whole number of quants apart',
                        'signature': 'tempo:rt-play'}
            prev = ((q, p), g)
        return None

    def oracle(self, case, out):
        if case.get('rt'):
            return self.rt_oracle(case, out)
        approx = bool(case.get('approx'))
        tol = TOL if approx else Fraction(0)
        lines = ['init'] + case['ops']
        res0, prev = parse(out[0])
        if prev is None:
            return None
        wake = prev['beats']
        origin, obar = Fraction(0), Fraction(0)       # bar origin: moved only by a meter change
        if prev['bbb'] != 0 or prev['bbar'] != 0 or prev['bpb'] != 4:
            return {'what': f'a new clock ({case["init"]}) counts its grid from base_bar_beat {float(prev["bbb"])}, bar '
                            f'{float(prev["bbar"])}, {float(prev["bpb"])} beats per bar; documented: beat 0, bar 0, 4 beats per bar '
                            f'until the first meter change', 'signature': 'tempo:grid-origin'}
        if case.get('ticker'):
            # every routine on the clock is woken at the beat it was scheduled for
            d, n = F(case['ticker']['d']), case['ticker']['n']
            got = out[-1].split()[1:]
            out = out[:-1]
            want = [prev['beats'] + k * d for k in range(n)]
            if len(got) != n or any(not close(F(g), w, tol) for g, w in zip(got, want)):
                k = next((i for i, (g, w) in enumerate(zip(got, want)) if not close(F(g), w, tol)), min(len(got), n))
                return {'what': f'second routine yielding {float(d)} beats: wake-up #{k} read beat '
                                f'{got[k] if k < len(got) else "none"}, scheduled for beat {float(want[k]) if k < n else "-"}'
                                f' ({len(got)} of {n} wake-ups)', 'signature': 'tempo:other-routine'}

        def bad(k, law, what):
            return {'what': f'op #{k} `{lines[k]}` → {out[k]}: {what}', 'signature': f'tempo:{law}', 'index': k}

        def near_int(q):
            return abs(q - round(q)) <= Fraction(1, 10 ** 7)

        if len(lines) > 1 and not lines[1].startswith('wait'):
            _, first = parse(out[1])
            if first is not None and not close(first['now'], prev['now'], tol if approx else Fraction(0)):
                return {'what': f'the routine played with quant 0 at {float(prev["now"])} s (beat {float(prev["beats"])}) '
                                f'first ran at {float(first["now"])} s (beat {float(first["beats"])}): play() with quant 0 '
                                f'must schedule at the current beat', 'signature': 'tempo:play-quant0'}
        for k in range(1, len(lines)):
            op = lines[k].split()
            res, cur = parse(out[k])
            if cur is None:
                return bad(k, 'output', 'no snapshot')
            P, C = prev, cur
            is_err = res.startswith('E:')
            if op[0] == 'bpb':
                origin, obar = C['bbb'], C['bbar']    # checked below (meter-rebase)
            elif not close(C['bbb'], origin, tol) or not close(C['bbar'], obar, tol):
                return bad(k, 'grid-origin', f'the bar origin moved from beat {float(origin)} (bar {float(obar)}) to beat '
                                             f'{float(C["bbb"])} (bar {float(C["bbar"])}) without a meter change: grid '
                                             f'points are base_bar_beat + k*quant + phase counted from the last meter change')
            val = F(res[2:]) if res.startswith('v:') else None
            if op[0] == 'wait':
                d = F(op[1])
                # a routine resumes d beats after the beat it was last resumed at …
                if not close(C['beats'], wake + d, tol):
                    return bad(k, 'advance', f'resumed at beat {float(C["beats"])}, {float(d)} beats after beat '
                                             f'{float(wake)} expected')
                # … and between changes beats advance at the current tempo
                if not close((C['now'] - P['now']) * P['tempo'], C['beats'] - P['beats'], tol):
                    return bad(k, 'advance', 'Δbeats ≠ tempo × Δseconds')
                wake = C['beats']
            elif op[0] in ('tempo', 'etempo'):
                v = F(op[1])
                should_fail = v == 0 or (op[0] == 'tempo' and (v < 0 or P['tempo'] < 0))
                if should_fail != is_err:
                    return bad(k, 'tempo-domain', f'expected {"an error" if should_fail else "success"}')
                if not is_err:
                    if not close(C['beats'], P['beats'], tol) or not close(C['now'], P['now'], tol):
                        return bad(k, 'tempo-continuous', f'current beat jumped from {float(P["beats"])} to {float(C["beats"])}')
                    if C['tempo'] != v:
                        return bad(k, 'tempo-set', 'tempo not set')
                elif C != P and not (approx and all(close(C[x], P[x], TOL) for x in C)):
                    return bad(k, 'tempo-domain', 'state changed by a rejected call')
            if C['bpb'] == 0 and op[0] == 'q' and op[1] in ('nextbar', 'playbar', 'bar', 'bib', 'invbars', 'b2bars', 'bars2b'):
                prev = cur
                continue                          # meter 0 (rejected by the setter, but already stored)
            elif op[0] in ('beats', 'obeats'):
                v = F(op[1])
                if is_err or not close(C['beats'], v, tol) or C['tempo'] != P['tempo'] or not close(C['now'], P['now'], tol):
                    return bad(k, 'beats-set', f'current beat is {float(C["beats"])} after setting {float(v)}')
            elif op[0] == 'bpb':
                v = F(op[1])
                if (v == 0) != is_err:
                    return bad(k, 'meter-domain', f'expected {"an error" if v == 0 else "success"}')
                if not is_err and P['bpb'] != 0:
                    if not close(C['beats'], P['beats'], tol) or not close(C['bbb'], P['beats'], tol) or C['bpb'] != v:
                        return bad(k, 'meter-rebase', 'base_bar_beat/beats_per_bar not re-based at the current beat')
                    exact = (P['beats'] - P['bbb']) / P['bpb'] + P['bbar']
                    if C['bbar'].denominator != 1 or abs(C['bbar'] - exact) > Fraction(1, 2) + (Fraction(1, 10 ** 6) if approx else 0):
                        return bad(k, 'meter-rebase', f'base_bar {float(C["bbar"])} is not the bar nearest to {float(exact)}')
            elif op[0] == 'q':
                kq = op[1]
                if C != P and not (approx and all(close(C[x], P[x], TOL) for x in C)):
                    return bad(k, 'query-pure', 'a query changed the clock')
                if kq in ('invb', 'invs', 'invbars'):
                    x = F(op[2])
                    if val is None or not close(val, x, tol):
                        return bad(k, 'inverse', f'there and back gives {res}')
                elif kq == 'beats' or kq == 'ebeats':
                    if val is None or not close(val, C['beats'], tol):
                        return bad(k, 'beats', 'beats query disagrees with the snapshot')
                elif kq == 's2b':
                    x = F(op[2])
                    if val is None or not close(val, C['beats'] + (x - C['now']) * C['tempo'], tol):
                        return bad(k, 'affine', 'secs2beats is not the affine map through (now, beats) with slope tempo')
                elif kq == 'b2s':
                    x = F(op[2])
                    if val is None or not close(val, C['now'] + (x - C['beats']) / C['tempo'], tol):
                        return bad(k, 'affine', 'beats2secs is not the inverse affine map')
                elif kq == 'beatdur':
                    if val is None or not close(val * C['tempo'], 1, tol if approx else Fraction(1, 10 ** 12)):
                        return bad(k, 'affine', 'beat_dur × tempo ≠ 1')
                elif kq in ('ntog', 'playat', 'ttnb'):
                    q, p = numval(op[2]), numval(op[3])
                    ref = numval(op[4]) if kq == 'ntog' and op[4] != '-' else C['beats']
                    if q < 0:
                        if not is_err:
                            return bad(k, 'grid-domain', 'negative quant accepted')
                        continue
                    if is_err:
                        return bad(k, 'grid-domain', 'raised for quant ≥ 0')
                    if q == 0:
                        exp = ref + p
                    elif -q < p < q:
                        exp = C['bbb'] + p + math.ceil((ref - C['bbb'] - p) / q) * q
                    else:
                        continue                      # phase outside (-quant, quant): not specified
                    if val is None or not close(val, exp, tol):
                        if approx and q > 0 and near_int((ref - C['bbb'] - p) / q):
                            continue                  # rounding exactly on a grid line
                        what = {'playat': 'beat at which play(quant) wakes the task',
                                'ttnb': 'beats + time_to_next_beat(quant)'}.get(kq, 'next_time_on_grid')
                        return bad(k, 'play' if kq == 'playat' else 'grid', f'{what} = {float(val) if val is not None else res}, '
                                   f'the least grid point ≥ reference is {float(exp)}')
                elif kq in ('nextbar', 'playbar'):
                    x = F(op[2]) if op[2] != '-' else C['beats']
                    if C['bpb'] <= 0:
                        continue
                    bars = (val - C['bbb']) / C['bpb'] + C['bbar'] if val is not None else None
                    if val is None or val < x - tol * max(1, abs(x)) or val - x >= C['bpb'] * (1 + tol) \
                            or not (bars.denominator == 1 or (approx and near_int(bars))):
                        if approx and near_int((x - C['bbb']) / C['bpb']):
                            continue
                        if kq == 'playbar':
                            return bad(k, 'play', f'play_next_bar at beat {float(x)} wakes the task at {res}, '
                                                  f'not at the first bar line ≥ it')
                        return bad(k, 'next-bar', f'next_bar({float(x)}) = {res} is not the first bar line ≥ it')
                elif kq == 'bar':
                    if C['bpb'] <= 0:
                        continue
                    exact = (C['beats'] - C['bbb']) / C['bpb'] + C['bbar']
                    if val is None or val != math.floor(exact):
                        if approx and near_int(exact):
                            continue
                        return bad(k, 'bar', f'bar() = {res}, ⌊{float(exact)}⌋ expected')
                elif kq == 'bib':
                    if C['bpb'] <= 0:
                        continue
                    exact = (C['beats'] - C['bbb']) / C['bpb'] + C['bbar']
                    exp = C['beats'] - ((math.floor(exact) - C['bbar']) * C['bpb'] + C['bbb'])
                    if val is None or not close(val, exp, tol) or not (-tol <= val < C['bpb'] * (1 + tol)):
                        if approx and near_int(exact):
                            continue
                        return bad(k, 'beat-in-bar', f'beat_in_bar() = {res}, expected {float(exp)}')
            prev = cur
        return None

    # ------------------------------------------------------------------ evidence
    def nontrivial(self, case, out):
        if case.get('rt'):
            return bool(out.get('plays'))
        changed = False
        for line in case['ops']:
            w = line.split()
            if w[0] in ('tempo', 'etempo', 'beats', 'obeats', 'bpb'):
                changed = True
            elif changed and w[0] == 'q' and w[1] in ('ntog', 'playat', 'ttnb', 'playbar', 'invb', 'invs', 'invbars', 'nextbar', 'bar', 'bib'):
                return True
        return False

    def histogram(self, cases, outs):
        h = {}
        for c, o in zip(cases, outs):
            if c.get('rt'):
                key = 'pattern-player-resume' if c.get('pat') else 'rt-play-from-main-thread'
                h[key] = h.get(key, 0) + len(c['plays'])
                continue
            for line, res in zip(['init'] + c['ops'], o):
                w = line.split()
                key = ' '.join(w[:2]) if w[0] == 'q' else w[0]
                if res.startswith('E:'):
                    key += ':' + res.split(' ')[0]
                h[key] = h.get(key, 0) + 1
        h['histories'] = len(cases)
        h['approx_histories'] = sum(1 for c in cases if c.get('approx'))
        h['max_len'] = max((len(c['ops']) for c in cases if not c.get('rt')), default=0)
        return dict(sorted(h.items()))

    def shrink(self, case, fails):
        if case.get('rt'):
            return dict(case, plays=common.shrink_list(case['plays'], lambda o: fails(dict(case, plays=o)), max_steps=40))
        ops = common.shrink_list(case['ops'], lambda o: fails(dict(case, ops=o)), max_steps=150)
        return dict(case, ops=ops)
