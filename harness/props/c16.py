"""C16 — Bus, buffer and node-id allocation is safe and complete."""
import ast
import itertools
import re

from harness import common

GEN = common.LEAN / 'Sc3Verif' / 'C16' / 'GenPartition.lean'

OPT_FIELDS = ['control_buses', 'audio_buses', 'buffers', 'input_channels', 'output_channels',
              'max_logins', 'reserved_control_buses', 'reserved_audio_buses', 'reserved_buffers',
              'client_id', 'initial_node_id']


class Unsupported(Exception):
    pass


# ---------------------------------------------------------------------------------------------
# translator (T): partition arithmetic of Server._new_*_allocators -> Lean definitions over Int
# ---------------------------------------------------------------------------------------------
class PartitionTranslator:
    """Translates the straight-line integer arithmetic of `_new_bus_allocators`,
    `_new_buffer_allocators`, `_new_node_allocators` and `ServerOptions.first_private_bus`.
    Accepted: assignments `name = expr`, `self._x_allocator = type(self)._y_alloc_class(e1, e2, e3)`,
    docstrings; expressions over local names, `self.options.<field>`,
    `self.options.first_private_bus()`, `self._status_watcher.max_logins`, `self.client_id`,
    int literals and `+ - * //`.  Anything else is a broken tie."""

    def __init__(self, repo):
        self.src = (repo / 'sc3' / 'synth' / 'server.py').read_text()
        self.tree = ast.parse(self.src)

    def find_method(self, cls, name):
        for node in ast.walk(self.tree):
            if isinstance(node, ast.ClassDef) and node.name == cls:
                for f in node.body:
                    if isinstance(f, ast.FunctionDef) and f.name == name:
                        return f
        raise Unsupported(f'{cls}.{name} not found')

    def expr(self, e, env):
        if isinstance(e, ast.Constant) and type(e.value) is int:
            return f'({e.value} : Int)'
        if isinstance(e, ast.Name):
            if e.id in env:
                return env[e.id]
            raise Unsupported(f'unknown name {e.id}')
        if isinstance(e, ast.BinOp):
            a, b = self.expr(e.left, env), self.expr(e.right, env)
            if isinstance(e.op, ast.Add):
                return f'({a} + {b})'
            if isinstance(e.op, ast.Sub):
                return f'({a} - {b})'
            if isinstance(e.op, ast.Mult):
                return f'({a} * {b})'
            if isinstance(e.op, ast.FloorDiv):
                return f'(Int.fdiv {a} {b})'
            raise Unsupported(f'operator {type(e.op).__name__}')
        src = ast.unparse(e)
        if src == 'self.client_id':
            return 'o.client_id'
        if src == 'self._status_watcher.max_logins':
            return 'o.max_logins'
        if src == 'self.options.first_private_bus()':
            return '(firstPrivateBus o)'
        m = re.fullmatch(r'self\.options\.(\w+)', src)
        if m and m.group(1) in OPT_FIELDS:
            return f'o.{m.group(1)}'
        m = re.fullmatch(r'self\.(\w+)', src)
        if m and env.get('__options__') and m.group(1) in OPT_FIELDS:
            return f'o.{m.group(1)}'
        raise Unsupported(f'expression `{src}`')

    def body(self, fn, targets, ctor_attr):
        """returns ([(lean_name, lean_expr)], {target: [e1, e2, e3]})"""
        lets, env, found = [], {}, {}
        for st in fn.body:
            if isinstance(st, ast.Expr) and isinstance(st.value, ast.Constant) and isinstance(st.value.value, str):
                continue
            if isinstance(st, ast.Assign) and len(st.targets) == 1:
                t = st.targets[0]
                if isinstance(t, ast.Name):
                    lean = self.expr(st.value, env)
                    name = 'v_' + t.id
                    lets.append((name, lean))
                    env[t.id] = name
                    continue
                tsrc = ast.unparse(t)
                if tsrc in targets:
                    c = st.value
                    if not (isinstance(c, ast.Call) and ast.unparse(c.func) == f'type(self).{ctor_attr[tsrc]}'
                            and not c.keywords):
                        raise Unsupported(f'constructor call for {tsrc}: `{ast.unparse(c)}`')
                    found[tsrc] = [self.expr(a, env) for a in c.args]
                    continue
            src = ast.unparse(st)
            if src in ('self._make_default_groups()',):
                continue
            raise Unsupported(f'statement `{src[:80]}` in {fn.name}')
        for t in targets:
            if t not in found:
                raise Unsupported(f'{t} is not assigned in {fn.name}')
        return lets, found

    def check_alloc_classes(self):
        want = {'_node_alloc_class': 'eng.NodeIDAllocator',
                '_buffer_alloc_class': 'eng.ContiguousBlockAllocator',
                '_bus_alloc_class': 'eng.ContiguousBlockAllocator'}
        got = {}
        for node in ast.walk(self.tree):
            if isinstance(node, ast.Assign) and len(node.targets) == 1:
                m = re.fullmatch(r'cls\.(_\w+_alloc_class)', ast.unparse(node.targets[0]))
                if m:
                    got[m.group(1)] = ast.unparse(node.value)
        if got != want:
            raise Unsupported(f'allocator classes bound to {got}, model covers {want}')

    def lean(self):
        self.check_alloc_classes()
        fpb = self.find_method('ServerOptions', 'first_private_bus')
        rets = [s for s in fpb.body if isinstance(s, ast.Return)]
        others = [s for s in fpb.body if not isinstance(s, ast.Return)
                  and not (isinstance(s, ast.Expr) and isinstance(s.value, ast.Constant))]
        if len(rets) != 1 or others:
            raise Unsupported('first_private_bus has an unexpected shape')
        fpb_e = self.expr(rets[0].value, {'__options__': True})

        bus = self.find_method('Server', '_new_bus_allocators')
        bl, bf = self.body(bus, ['self._control_bus_allocator', 'self._audio_bus_allocator'],
                           {'self._control_bus_allocator': '_bus_alloc_class',
                            'self._audio_bus_allocator': '_bus_alloc_class'})
        buf = self.find_method('Server', '_new_buffer_allocators')
        ul, uf = self.body(buf, ['self._buffer_allocator'], {'self._buffer_allocator': '_buffer_alloc_class'})
        nod = self.find_method('Server', '_new_node_allocators')
        nl, nf = self.body(nod, ['self._node_allocator'], {'self._node_allocator': '_node_alloc_class'})
        for name, args, k in (('control bus', bf['self._control_bus_allocator'], 3),
                              ('audio bus', bf['self._audio_bus_allocator'], 3),
                              ('buffer', uf['self._buffer_allocator'], 3),
                              ('node', nf['self._node_allocator'], 2)):
            if len(args) != k:
                raise Unsupported(f'{name} allocator is built with {len(args)} positional arguments')

        def lets(ls):
            return ''.join(f'  let {n} := {e}\n' for n, e in ls)

        def triple(a):
            return '(' + ', '.join(a) + ')'

        out = ['/- GENERATED by harness/props/c16.py from sc3/synth/server.py',
               '   (Server._new_bus_allocators, _new_buffer_allocators, _new_node_allocators,',
               '   ServerOptions.first_private_bus).  Do not edit: rewritten on every run of ./check C16. -/',
               'namespace Sc3Verif.C16', '',
               '/-- the option values and login data the partition arithmetic reads -/',
               'structure Opts where']
        out += [f'  {f} : Int' for f in OPT_FIELDS]
        out += ['', '/-- `ServerOptions.first_private_bus()` -/',
                f'def firstPrivateBus (o : Opts) : Int := {fpb_e}', '',
                '/-- `(size, pos, addr_offset)` given to the control-bus and to the audio-bus allocator -/',
                'def busAllocArgs (o : Opts) : (Int × Int × Int) × (Int × Int × Int) :=',
                lets(bl) + '  (' + triple(bf['self._control_bus_allocator']) + ', '
                + triple(bf['self._audio_bus_allocator']) + ')', '',
                '/-- `(size, pos, addr_offset)` given to the buffer allocator -/',
                'def bufferAllocArgs (o : Opts) : Int × Int × Int :=',
                lets(ul) + '  ' + triple(uf['self._buffer_allocator']), '',
                '/-- `(user, init_temp)` given to the node id allocator -/',
                'def nodeAllocArgs (o : Opts) : Int × Int :=',
                lets(nl) + '  ' + triple(nf['self._node_allocator']), '',
                'end Sc3Verif.C16', '']
        return '\n'.join(out)


class Check(common.Check):
    PROP = 'C16'
    LEAN_TARGETS = ['Sc3Verif.C16.Props']
    LEAN_DIRS = ['Sc3Verif/C16']
    THEOREMS = ['Sc3Verif.C16.' + t for t in (
        'alloc_free_safe_and_complete', 'inv_reachable', 'inv_init', 'inv_alloc', 'inv_free', 'step_good',
        'reach_inv', 'reach_of_run', 'alloc_free_never_raise', 'alloc_in_partition',
        'alloc_disjoint_from_live', 'no_space_only_if_no_run', 'free_run_is_allocatable',
        'live_ranges_disjoint', 'free_coalesces_and_reusable', 'double_free_noop', 'free_not_live_noop',
        'choice_oracle_covers_every_candidate', 'blocks_are_live_ranges',
        'node_id_in_client_range', 'node_id_closed_form', 'node_ids_distinct_in_window',
        'node_id_repeats_after_window', 'node_ids_disjoint_across_clients',
        'partition_inside_total', 'partitions_disjoint', 'node_alloc_args', 'clients_never_collide')]
    N_QUICK = 1500
    N_THOROUGH = 40000
    ASSUMPTIONS = [
        'alloc is called with n >= 1; free with None or ANY address (addresses outside the range are ignored)',
        'bi.choice(list(set)) is an arbitrary choice among the candidates (oracle index k); the real run '
        'uses the k-th candidate by start address, a second stream keeps the real random choice',
        'ContiguousBlockAllocator.reserve() and the other allocator classes are not modelled',
        'NodeIDAllocator: 0 <= init_temp <= 0x03FFFFFF, user <= 31; math.fmod exact below 2^53',
    ]

    def rule(self):
        return ('allocator histories: size 2-64, reserved pos 0-4, addr_offset in {0, size, 3*size, random}, '
                '1-150 ops (alloc 1-8 biased to exact fit/split with choice index, free of live / already '
                'freed / arbitrary / None addresses, probeall = alloc of every maximal free-run length on a '
                'copy, blocks()); node-id histories around the wrap point for users 0-33; Server partition '
                'cases (real NRT Server, random options, every client id, AudioBus/ControlBus/Buffer '
                'constructors). Thorough adds every history of length <= 6 over a 7-letter alphabet on '
                'size 6, offsets 0 and 6. Non-trivial: a history where a free merged with a neighbour or an '
                'alloc returned None or reused a freed range (cba), a wrap-around (nia), client id >= 1 (srv); '
                'distinct by full case')

    # ---- translator ------------------------------------------------------------------------
    def regen(self):
        try:
            text = PartitionTranslator(common.REPO).lean()
        except Unsupported as e:
            return f'server.py partition arithmetic: {e}'
        except (OSError, SyntaxError) as e:
            return f'server.py unreadable: {e}'
        if not GEN.exists() or GEN.read_text() != text:
            GEN.write_text(text)
        return None

    # ---- generator -------------------------------------------------------------------------
    def gen_cba(self, rng, real_choice=False):
        size = rng.choice([rng.randint(2, 8), rng.randint(6, 16), rng.randint(8, 64)])
        pos = min(rng.choice([0, 0, 0, 1, 2, 3, 4]), size - 1)
        off = rng.choice([0, 0, size, size, 3 * size, rng.randint(1, 200)])
        n = rng.choice([rng.randint(1, 10), rng.randint(8, 40), rng.randint(30, 150)])
        maxn = rng.choice([2, 3, 4, 8])
        p_free = rng.choice([0.3, 0.45, 0.55])
        ops = []
        for _ in range(n):
            r = rng.random()
            k = -1 if real_choice else rng.choice([0, 0, 1, 2, 3, 7])
            if r < 1 - p_free - 0.12:
                m = rng.choice([1, 1, 2, rng.randint(1, maxn), rng.randint(1, maxn), rng.randint(1, size)])
                ops.append(f'alloc {m} {k}')
            elif r < 1 - 0.12:
                ops.append(f'freelive {rng.randrange(64)}')
                if rng.random() < 0.5:
                    ops.append('probeall')
            elif r < 1 - 0.07:
                ops.append(f'freedead {rng.randrange(64)}')
            elif r < 1 - 0.04:
                if off and rng.random() < 0.4:      # an address below the client's range (e.g. a hardware bus)
                    ops.append(f'freeaddr {rng.randrange(max(0, off - size), off)}')
                elif rng.random() < 0.25:               # an address above the client's range
                    ops.append(f'freeaddr {off + size + rng.randrange(size + 1)}')
                else:
                    ops.append(f'freeaddr {off + rng.randrange(size)}')
            elif r < 1 - 0.03:
                ops.append('freenone')
            elif r < 1 - 0.01:
                ops.append('probeall')
            else:
                ops.append('blocks')
        return {'kind': 'cba', 'size': size, 'pos': pos, 'off': off, 'ops': ops}

    def gen_fill_free(self, rng):
        """fill the partition with small blocks, free in random order with probes, refill"""
        size = rng.randint(4, 24)
        pos = rng.choice([0, 0, 1, 2]) if size > 3 else 0
        off = rng.choice([0, size, 2 * size, rng.randint(1, 99)])
        ops, left = [], size - pos
        nblocks = 0
        while left > 0:
            m = min(left, rng.choice([1, 2, 2, 3]))
            ops.append(f'alloc {m} 0'); left -= m; nblocks += 1
        ops.append('alloc 1 0')                      # must be None
        order = list(range(nblocks))
        for i in range(nblocks):
            ops.append(f'freelive {rng.randrange(64)}')
            ops.append('probeall')
            if rng.random() < 0.25:
                ops.append(f'alloc {rng.randint(1, 4)} {rng.randrange(4)}')
                ops.append('probeall')
        ops.append(f'alloc {size - pos} 0')
        return {'kind': 'cba', 'size': size, 'pos': pos, 'off': off, 'ops': ops}

    def gen_nia(self, rng):
        user = rng.choice([0, 1, rng.randint(0, 31), 31, rng.randint(32, 40)])
        init = rng.choice([1000, 0x03FFFFFF - rng.randint(0, 40), 0x03FFFFFF, rng.randint(0, 2000), 0])
        counts = [rng.randint(1, 60) for _ in range(rng.randint(1, 4))]
        return {'kind': 'nia', 'user': user, 'init': init, 'counts': counts}

    def gen_srv(self, rng):
        ml0 = rng.choice([1, 2, 3, 4, 8, rng.randint(1, 32)])
        reply = rng.choice([x for x in (1, 2, 3, 4, 8, 16) if x != ml0]) if rng.random() < 0.3 else None
        ml = max(ml0, reply or 0)          # resources are sized for the larger of the two values
        ic, oc = rng.choice([(2, 2), (0, 2), (8, 8), (rng.randint(0, 4), rng.randint(0, 4))])
        case = {'kind': 'srv', 'max_logins': ml,
                'audio_buses': ic + oc + rng.choice([ml * 4, rng.randint(ml * 2, ml * 40), 1024 - ic - oc]),
                'control_buses': rng.choice([ml * 4, rng.randint(ml * 2, ml * 40), 16384]),
                'buffers': rng.choice([ml * 4, rng.randint(ml * 2, ml * 40), 1024]),
                'input_channels': ic, 'output_channels': oc,
                'reserved_audio_buses': rng.choice([0, 0, 1]),
                'reserved_control_buses': rng.choice([0, 0, 1]),
                'reserved_buffers': rng.choice([0, 0, 1]),
                'client_id': rng.randrange(ml), 'initial_node_id': 1000}
        case['max_logins'] = ml0
        case['client_id'] = rng.randrange(ml0)
        if reply is not None:
            # a client attaching to a server started by someone else: the login reply carries the
            # server's maxLogins, which differs from the client's own options.max_logins
            case['login_max_logins'] = reply
            case['client_id'] = rng.randrange(reply)
        if rng.random() < 0.08:
            # ids at and around the boundary of the valid range are refused
            mlf = reply if reply is not None else ml0
            case['client_id'] = rng.choice([mlf, mlf, mlf + 1, -1])
        ops = []
        for _ in range(rng.randint(3, 40)):
            r = rng.random()
            if r < 0.02:
                # uncached buffers, freed while no cached buffer is alive
                ops.append('bufnc 1 0')
                if rng.random() < 0.7:
                    ops.append(f'free 2 {rng.randrange(16)}')
            elif r < 0.04:
                k = rng.randrange(2)
                ops.append(f'{["cbus", "abus"][k]} {rng.randint(1, 4)} 0')
                ops.append(f'derive {k} {rng.randrange(16)}')
                ops += [f'{["cbus", "abus"][k]} {rng.randint(1, 4)} 0' for _ in range(rng.randint(1, 3))]
            elif r < 0.07:
                ops.append('refuse ' + rng.choice(['sendlist', 'loadlist', 'noframes', 'abus', 'cbus']))
            elif r < 0.12:
                # free_all with multi-number ranges alive, then allocations that need those numbers
                ops.append(f'buf {rng.randint(2, 4)} 0')
                ops.append('bfreeall')
                ops += [f'buf {rng.randint(1, 4)} 0' for _ in range(rng.randint(2, 12))]
            elif r < 0.2:
                ops.append(f'abus {rng.randint(1, 4)} {rng.randrange(3)}')
            elif r < 0.4:
                ops.append(f'cbus {rng.randint(1, 4)} {rng.randrange(3)}')
            elif r < 0.6:
                ops.append(f'buf {rng.randint(1, 4)} {rng.randrange(3)}')
            elif r < 0.7:
                ops.append('node')
            elif r < 0.9:
                ops.append(f'free {rng.randrange(3)} {rng.randrange(16)}')
            else:
                # double free through the object, typically after its number was handed out again
                k = rng.randrange(3)
                ops.append(f'free {k} {rng.randrange(16)}')
                ops.append(f'{["cbus", "abus", "buf"][k]} 1 0')
                ops.append(f'refree {k} {rng.randrange(16)}')
                ops.append(f'{["cbus", "abus", "buf"][k]} 1 0')
        case['ops'] = ops
        return case

    def gen(self, rng, n):
        cases = []
        for i in range(n):
            r = rng.random()
            if r < 0.62:
                cases.append(self.gen_cba(rng))
            elif r < 0.74:
                cases.append(self.gen_fill_free(rng))
            elif r < 0.84:
                cases.append(self.gen_cba(rng, real_choice=True))
            elif r < 0.90:
                cases.append(self.gen_nia(rng))
            else:
                cases.append(self.gen_srv(rng))
        if self.tier == 'thorough' and n >= self.N_THOROUGH:
            alpha = ['alloc 1 0', 'alloc 2 0', 'alloc 3 1', 'freelive 0', 'freelive 1', 'freelive 2',
                     'freedead 0']
            for off in (0, 6):
                for k in range(1, 7):
                    for h in itertools.product(alpha, repeat=k):
                        if h[0].startswith('free'):
                            continue
                        cases.append({'kind': 'cba', 'size': 6, 'pos': 0, 'off': off,
                                      'ops': list(h) + ['probeall']})
        return cases

    # ---- runners ---------------------------------------------------------------------------
    def impl(self, cases):
        res, err = common.run_impl('c16', 'run', {'cases': cases})
        if res is None:
            self.notes.append(err)
        return res

    @staticmethod
    def srv_lines(case):
        eff = dict(case)
        if case.get('login_max_logins') is not None:     # the value of the login reply is the one in force
            eff['max_logins'] = case['login_max_logins']
        if not 0 <= case['client_id'] < eff['max_logins']:
            # an invalid id is refused: the server keeps id 0 and the allocators it was built with
            eff['client_id'], eff['max_logins'] = 0, case['max_logins']
        vals = [eff[f] for f in ('control_buses', 'audio_buses', 'buffers', 'input_channels',
                                 'output_channels', 'max_logins', 'reserved_control_buses',
                                 'reserved_audio_buses', 'reserved_buffers', 'client_id',
                                 'initial_node_id')]
        lines = ['partnew ' + ' '.join(str(v) for v in vals)]
        slot = {'cbus': 0, 'abus': 1, 'buf': 2, 'bufnc': 2}
        for op in case['ops']:
            w = op.split()
            if w[0] in slot:
                lines += [f'use {slot[w[0]]}', f'alloc {w[1]} {w[2]}']
            elif w[0] == 'node':
                lines.append('nid 1')
            elif w[0] == 'free':
                lines += [f'use {w[1]}', f'freelive {w[2]}']
            elif w[0] == 'refree':
                lines += [f'use {w[1]}', 'freenone']      # a second free() of an object: nothing happens
            elif w[0] == 'bfreeall':
                lines += ['use 2', 'freeall']
            elif w[0] == 'refuse':
                lines += ['use 2', 'freenone']            # a refused call changes nothing
            elif w[0] == 'derive':
                lines += [f'use {w[1]}', 'freenone']      # dropping a second object on the index changes nothing
            else:
                lines.append('bad')
        return lines

    @staticmethod
    def srv_fold(case, out):
        """bring the driver's lines for a srv case into the format of impl.run_srv"""
        res, it = [], iter(out)
        first = next(it, 'missing')
        m = re.fullmatch(r'part (.*) \| (.*) \| (.*) \| node (.*)', first)
        if not m:
            return [first]
        res += [f'part {m.group(1)}', f'part {m.group(2)}', f'part {m.group(3)}', f'node {m.group(4)}']
        kinds = ['ControlBus', 'AudioBus', 'Buffer']
        freed = [0, 0, 0]
        nlive = [0, 0, 0]
        slot_of = {'cbus': 0, 'abus': 1, 'buf': 2, 'bufnc': 2}
        for op in case['ops']:
            w = op.split()
            if w[0] in ('abus', 'cbus', 'buf', 'bufnc'):
                next(it, None)
                l = next(it, 'missing')
                m = re.match(r'alloc (\d+) -> (\S+)', l)
                if not m:
                    res.append(l)
                elif m.group(2) == 'None':
                    res.append(f'{w[0]} None')
                elif w[0] == 'buf' and int(w[1]) > 1:
                    b = int(m.group(2))
                    res.append('buf ' + ','.join(str(b + i) for i in range(int(w[1]))))
                else:
                    res.append(f'{w[0]} {m.group(2)}')
                if m and m.group(2) != 'None':
                    nlive[slot_of[w[0]]] += 1
            elif w[0] == 'node':
                l = next(it, 'missing')
                res.append('node ' + l[4:] if l.startswith('ids ') else l)
            elif w[0] == 'free':
                next(it, None)
                l = next(it, 'missing')
                m = re.match(r'free (\d+) -> ok', l)
                res.append(f'free {kinds[int(w[1])]} {m.group(1)}' if m else l)
                if m:
                    freed[int(w[1])] += 1
                    nlive[int(w[1])] -= 1
            elif w[0] == 'refree':
                next(it, None)
                next(it, None)
                res.append('refree ok' if freed[int(w[1])] else 'skip')
            elif w[0] == 'refuse':
                next(it, None)
                next(it, None)
                res.append('refuse raised')
            elif w[0] == 'derive':
                next(it, None)
                next(it, None)
                res.append('derive ok' if int(w[1]) < 2 and nlive[int(w[1])] > 0 else 'skip')
            elif w[0] == 'bfreeall':
                next(it, None)
                l = next(it, 'missing')
                res.append('bfreeall ok' if l.startswith('freeall ok') else l)
                nlive[2] = 0
        return res

    def model(self, cases):
        lines = []
        for c in cases:
            lines.append('reset')
            if c['kind'] == 'cba':
                lines.append(f'new {c["size"]} {c["pos"]} {c["off"]}')
                lines.extend(c['ops'])
            elif c['kind'] == 'nia':
                lines.append(f'nia {c["user"]} {c["init"]}')
                lines.extend(f'nid {k}' for k in c['counts'])
            elif c['kind'] == 'srv':
                lines.extend(self.srv_lines(c))
        out, err = common.run_driver('Sc3Verif/C16/Driver.lean', lines)
        if out is None:
            raise RuntimeError('driver failed: ' + err)
        res, cur = [], None
        for l in out:
            if l == 'reset':
                cur = []; res.append(cur)
            else:
                cur.append(l)
        for i, c in enumerate(cases):
            if c['kind'] == 'srv' and i < len(res):
                res[i] = self.srv_fold(c, res[i])
        return res

    def compare(self, case, impl_out, model_out):
        if case['kind'] == 'srv':          # ' #…' annotations are for the oracle only
            impl_out = [re.sub(r' #[\d,]+$', '', l) for l in impl_out]
        if case['kind'] == 'cba' and any(l.startswith('alloc') and l.endswith(' -1') for l in case['ops']):
            return None               # real random choice: oracle only
        return super().compare(case, impl_out, model_out)

    # ---- property oracle on the real behaviour (independent of the Lean model) ---------------
    @staticmethod
    def free_runs(lo, hi, live):
        runs, cur = [], lo
        for a, n in sorted(live.items()):
            if a > cur:
                runs.append((cur, a - cur))
            cur = max(cur, a + n)
        if hi > cur:
            runs.append((cur, hi - cur))
        return runs

    def oracle_cba(self, case, out):
        size, off = case['size'], case['off']
        lo, hi = case['pos'] + off, off + size
        if case['pos'] >= size:
            return None if out[0] == 'new IndexError' else {
                'what': 'pos >= size accepted', 'signature': 'cba:init'}
        if not out or not out[0].startswith('new ok'):
            return {'what': f'constructor failed: {out[:1]}', 'signature': 'cba:init'}
        live, freed_once = {}, set()
        for i, (line, o) in enumerate(zip(case['ops'], out[1:])):
            w = line.split()
            if w[0] == 'alloc':
                n = int(w[1])
                m = re.match(r'alloc (\d+) -> (\S+)', o)
                if not m:
                    return {'what': f'op #{i} `{line}`: {o}', 'signature': 'cba:alloc-raises', 'index': i}
                r = m.group(2)
                if r == 'None':
                    runs = [x for x in self.free_runs(lo, hi, live) if x[1] >= n]
                    if runs:
                        return {'what': f'op #{i} `{line}` reports no space although the run '
                                        f'[{runs[0][0]}, {runs[0][0] + runs[0][1]}) is free '
                                        f'(live ranges {sorted(live.items())})',
                                'signature': 'cba:no-space-but-run-exists', 'index': i}
                elif not r.isdigit():
                    return {'what': f'op #{i} `{line}` raised {r}', 'signature': 'cba:alloc-raises', 'index': i}
                else:
                    a = int(r)
                    if a < lo or a + n > hi:
                        return {'what': f'op #{i} `{line}` returned [{a}, {a + n}) outside the partition '
                                        f'[{lo}, {hi})', 'signature': 'cba:outside-partition', 'index': i}
                    for b, bn in live.items():
                        if a < b + bn and b < a + n:
                            return {'what': f'op #{i} `{line}` returned [{a}, {a + n}) overlapping the live '
                                            f'range [{b}, {b + bn})', 'signature': 'cba:overlap', 'index': i}
                    live[a] = n
            elif w[0].startswith('free'):
                if o == 'skip':
                    continue
                m = re.match(r'free (\S+) -> (\S+)', o)
                if not m or m.group(2) != 'ok':
                    return {'what': f'op #{i} `{line}`: {o}', 'signature': 'cba:free-raises', 'index': i}
                if m.group(1) != 'None':
                    live.pop(int(m.group(1)), None)
            elif w[0] == 'probeall':
                got = dict(x.split('->') for x in o.split()[1:])
                for st, ln in self.free_runs(lo, hi, live):
                    r = got.get(str(ln))
                    if r is None or not r.isdigit():
                        return {'what': f'op #{i}: after `{case["ops"][i - 1] if i else "new"}` the free run '
                                        f'[{st}, {st + ln}) exists but alloc({ln}) gives {r} '
                                        f'(live ranges {sorted(live.items())})',
                                'signature': 'cba:no-space-but-run-exists', 'index': i}
                    a = int(r)
                    if a < lo or a + ln > hi or any(a < b + bn and b < a + ln for b, bn in live.items()):
                        return {'what': f'op #{i}: probe alloc({ln}) returned [{a}, {a + ln}) which is not free',
                                'signature': 'cba:overlap', 'index': i}
            elif w[0] == 'blocks':
                want = 'blocks [' + ','.join(f'{a}:{n}:u' for a, n in sorted(live.items())) + ']'
                if o != want:
                    return {'what': f'op #{i}: blocks() = {o}, live ranges are {want}',
                            'signature': 'cba:blocks', 'index': i}
        return None

    def oracle_nia(self, case, out):
        if case['user'] > 31:
            return None if out[0] == 'nia Exception' else {
                'what': 'user > 31 accepted', 'signature': 'nia:user'}
        ids = []
        for l in out[1:]:
            ids += [int(x) for x in l[4:].split(',') if x]
        u, init = case['user'], case['init']
        window = 0x03FFFFFF - init + 1
        for j, x in enumerate(ids):
            if not (u << 26) <= x < ((u + 1) << 26):
                return {'what': f'id #{j} = {x} outside the range of client {u}', 'signature': 'nia:range'}
            if (x & 0x03FFFFFF) < init:
                return {'what': f'id #{j} = {x} below the first temporary id {init}', 'signature': 'nia:range'}
        for j in range(len(ids)):
            for l in range(j + 1, min(len(ids), j + window)):
                if ids[j] == ids[l]:
                    return {'what': f'ids #{j} and #{l} are both {ids[j]} (window {window})',
                            'signature': 'nia:duplicate'}
        return None

    def oracle_srv(self, case, out):
        if out and out[0].startswith('server '):
            return {'what': f'building the server / setting client id {case["client_id"]} (options.max_logins '
                            f'{case["max_logins"]}, login reply {case.get("login_max_logins")}) raised: {out[0]}; an invalid '
                            f'id must be refused and leave every allocator as it was', 'signature': 'srv:server'}
        ml, c = case['max_logins'], case['client_id']
        if case.get('login_max_logins') is not None:
            ml = case['login_max_logins']       # the server's value, from the login reply
        if not 0 <= c < ml:
            c, ml = 0, case['max_logins']       # refused id: everything stays as it was (id 0, own options)
        io = case['input_channels'] + case['output_channels']
        # the allocators must be the partition of (client id, maxLogins in force)
        want = []
        for total, base, res in ((case['control_buses'], 0, case['reserved_control_buses']),
                                 (case['audio_buses'] - io, io, case['reserved_audio_buses']),
                                 (case['buffers'], 0, case['reserved_buffers'])):
            n = total // ml
            want.append(f'part {n} {res} {base + n * c}')
        want.append(f'node {c} {case["initial_node_id"]}')
        if out[:4] != want:
            return {'what': f'client {c} of {ml} logins (options.max_logins {case["max_logins"]}): allocators are '
                            f'{out[:4]}, the partition of this client is {want}', 'signature': 'srv:partition'}
        parts = {}
        for kind, total, base, res in (('cbus', case['control_buses'], 0, case['reserved_control_buses']),
                                       ('abus', case['audio_buses'] - io, io, case['reserved_audio_buses']),
                                       ('buf', case['buffers'], 0, case['reserved_buffers'])):
            n = total // ml
            parts[kind] = (base + n * c + res, base + n * (c + 1), base + total)
        live = {'cbus': {}, 'abus': {}, 'buf': {}}
        kinds = {'ControlBus': 'cbus', 'AudioBus': 'abus', 'Buffer': 'buf'}
        node_ids = []
        for i, (line, o) in enumerate(zip(case['ops'], out[4:])):
            w, ow = line.split(), o.split()
            if 'RAISED:' in o:
                return {'what': f'op #{i} `{line}`: free() of the object owning {ow[2]} raised {ow[3][7:]}; the number '
                                f'was not returned', 'signature': 'srv:free-raises', 'index': i}
            if w[0] == 'bufnc':
                w = ['buf'] + w[1:]
            if w[0] in live:
                n = int(w[1])
                lo, hi, total = parts[w[0]]
                if ow[1] == 'None':
                    if any(x[1] >= n for x in self.free_runs(lo, hi, live[w[0]])):
                        return {'what': f'op #{i} `{line}`: no space although a free run of {n} exists in '
                                        f'[{lo}, {hi}) (live {sorted(live[w[0]].items())})',
                                'signature': 'srv:no-space-but-run-exists', 'index': i}
                    continue
                if not ow[1].split(',')[0].isdigit():
                    return {'what': f'op #{i} `{line}`: {o}', 'signature': 'srv:raises', 'index': i}
                idx = [int(x) for x in ow[1].split(',')]
                a = idx[0]
                if w[0] == 'buf' and idx != list(range(a, a + n)):
                    return {'what': f'op #{i} `{line}`: buffer numbers {idx} not consecutive',
                            'signature': 'srv:consecutive', 'index': i}
                if a < lo or a + n > hi:
                    return {'what': f'op #{i} `{line}` got [{a}, {a + n}) outside the partition [{lo}, {hi}) '
                                    f'of client {c}/{ml}', 'signature': 'srv:outside-partition', 'index': i}
                for b, bn in live[w[0]].items():
                    if a < b + bn and b < a + n:
                        return {'what': f'op #{i} `{line}` got [{a}, {a + n}) overlapping live [{b}, {b + bn})',
                                'signature': 'srv:overlap', 'index': i}
                live[w[0]][a] = n
            elif w[0] == 'node':
                node_ids.append(int(ow[1]))
            elif w[0] == 'free' and ow[0] == 'free':
                live[kinds[ow[1]]].pop(int(ow[2]), None)
            elif w[0] == 'refuse':
                used = [int(x) for x in o.split('#')[1].split(',')]
                want = [len(live['cbus']), len(live['abus']), len(live['buf'])]
                if ow[1] != 'raised' or used != want:
                    return {'what': f'op #{i} `{line}`: a refused constructor call ({ow[1]}) must leave every allocator '
                                    f'as it was: used blocks (control, audio, buffer) {used}, live objects {want}',
                            'signature': 'srv:refused-call-leaks', 'index': i}
            elif w[0] == 'bfreeall' and o == 'bfreeall ok':
                live['buf'] = {}           # abstract spec: after free_all the whole partition is free
        for x in node_ids:
            if not (c << 26) <= x < ((c + 1) << 26):
                return {'what': f'node id {x} outside the range of client {c}', 'signature': 'srv:node-range'}
        if len(set(node_ids)) != len(node_ids):
            return {'what': 'duplicate node ids', 'signature': 'srv:node-duplicate'}
        return None

    def oracle(self, case, out):
        try:
            if case['kind'] == 'cba':
                return self.oracle_cba(case, out)
            if case['kind'] == 'nia':
                return self.oracle_nia(case, out)
            if case['kind'] == 'srv':
                return self.oracle_srv(case, out)
        except (ValueError, IndexError, KeyError) as e:
            return {'what': f'unparsable output ({type(e).__name__}: {e}): {out[:3]}', 'signature': 'c16:output'}
        return None

    # ---- evidence bits -----------------------------------------------------------------------
    @staticmethod
    def merges(out):
        """count frees after which the number of blocks dropped (coalescing happened)"""
        n, prev = 0, None
        for o in out:
            m = re.search(r'B=\[([^\]]*)\]', o)
            if not m:
                continue
            cnt = m.group(1).count(':f') + m.group(1).count(':u')
            if prev is not None and o.startswith('free') and cnt < prev:
                n += 1
            prev = cnt
        return n

    def nontrivial(self, case, out):
        if case['kind'] == 'cba':
            return self.merges(out) > 0 or any(re.match(r'alloc \d+ -> None', o) for o in out)
        if case['kind'] == 'nia':
            ids = [int(x) for l in out[1:] for x in l[4:].split(',') if x.isdigit()]
            return any(b < a for a, b in zip(ids, ids[1:]))
        if case['kind'] == 'srv':
            return case['client_id'] >= 1 and len(out) > 6
        return False

    def histogram(self, cases, outs):
        h = {'cases': len(cases)}

        def inc(k, v=1):
            h[k] = h.get(k, 0) + v
        for c, out in zip(cases, outs):
            inc('kind:' + c['kind'])
            if c['kind'] == 'cba':
                inc('cba:offset=0' if c['off'] == 0 else 'cba:offset>0')
                inc('cba:pos>0' if c['pos'] else 'cba:pos=0')
                inc('cba:ops', len(c['ops']))
                inc('cba:free-with-merge', self.merges(out))
                for l, o in zip(c['ops'], out[1:]):
                    w = l.split()[0]
                    inc('op:' + w)
                    if w == 'alloc' and '-> None' in o:
                        inc('alloc:None')
                    if o == 'skip':
                        inc('free:skip')
                if any(l.endswith(' -1') for l in c['ops'] if l.startswith('alloc')):
                    inc('cba:real-random-choice')
            elif c['kind'] == 'nia':
                inc('nia:user>31' if c['user'] > 31 else 'nia:user<=31')
            elif c['kind'] == 'srv':
                inc(f'srv:client>0' if c['client_id'] else 'srv:client=0')
                inc('srv:ops', len(c['ops']))
        h['max_ops'] = max((len(c.get('ops', [])) for c in cases), default=0)
        return h

    def shrink(self, case, fails):
        if 'ops' not in case:
            return case
        ops = common.shrink_list(case['ops'], lambda o: fails(dict(case, ops=o)), max_steps=120)
        case = dict(case, ops=ops)
        if case['kind'] == 'cba':            # then the numbers: smaller partition / offset / reserved
            budget = 40
            for field in ('size', 'off', 'pos'):
                lo = 1 if field == 'size' else 0
                for v in list(range(lo, min(case[field], lo + 12))) + [case[field] // 2]:
                    if budget <= 0 or v >= case[field]:
                        break
                    cand = dict(case, **{field: v})
                    if field == 'off':     # keep raw addresses relative to the range
                        delta = case['off'] - v
                        cand['ops'] = [f'freeaddr {max(0, int(o.split()[1]) - delta)}'
                                       if o.startswith('freeaddr') else o for o in case['ops']]
                    if cand['pos'] >= cand['size']:
                        continue
                    budget -= 1
                    if fails(cand):
                        case = cand
                        break
        return case
