"""C17 — Client objects speak the server command protocol and keep ids consistent."""
import ast
import re

from harness import common

ACTIONS = ['saddToHead', 'saddToTail', 'saddBefore', 'saddAfter', 'saddReplace', 'shead', 'stail',
           'sbefore', 'safter', 'sreplace', 'sh', 'st', 'sb', 'sa', 'sr', 'i0', 'i1', 'i2', 'i3', 'i4']
ACTION_NUM = {a: n % 5 for n, a in enumerate(ACTIONS)}

# methods of node.py / bus.py / buffer.py / server.py that send and are covered by an op of the model
MODELLED = {
    'node.py': {'Node.free': 'nfree', 'Node.run': 'run', 'Node.map': 'map', 'Node.mapa': 'mapa',
                'Node.mapn': 'mapn', 'Node.mapan': 'mapan', 'Node.set': 'set', 'Node.setn': 'setn',
                'Node.fill': 'fill', 'Node.release': 'release', 'Node.trace': 'trace',
                'Node.query': 'nquery', 'Node.move_before': 'movb', 'Node.move_after': 'mova',
                'AbstractGroup.__init__': 'group/pgroup (+ groupc/pgroupc: after/before/head/tail/replace)', 'AbstractGroup._move_node_to_head': 'movh',
                'AbstractGroup._move_node_to_tail': 'movt', 'AbstractGroup.free_all': 'gfreeall',
                'AbstractGroup.deep_free': 'gdeep', 'AbstractGroup.dump_tree': 'gdump',
                'Synth.__init__': 'synth', 'Synth.new_paused': 'synthp', 'Synth.grain': 'grain',
                'Synth.replace': 'replace', 'Synth.get': 'sget', 'Synth.getn': 'sgetn'},
    'bus.py': {'ControlBus.set': 'cset', 'ControlBus.setn': 'csetn', 'ControlBus.set_at': 'csetat',
               'ControlBus.setn_at': 'csetnat', 'ControlBus.set_pairs': 'cpairs',
               'ControlBus.get': 'cget', 'ControlBus.getn': 'cgetn', 'ControlBus.fill': 'cfill'},
    'buffer.py': {'Buffer.new_consecutive': 'bufcons', 'Buffer.alloc': 'buf/balloc',
                  'Buffer.close': 'bclose', 'Buffer.free': 'bfree', 'Buffer.zero': 'bzero',
                  'Buffer.fill': 'bfill', 'Buffer.query': 'bquery', 'Buffer.set': 'bset',
                  'Buffer.setn': 'bsetn', 'Buffer.get': 'bget', 'Buffer.getn': 'bgetn',
                  'Buffer.gen': 'bgen', 'Buffer.normalize': 'bnorm', 'Buffer.sine1': 'bsine1',
                  'Buffer.sine2': 'bsine2', 'Buffer.sine3': 'bsine3', 'Buffer.cheby': 'bcheby',
                  'Buffer.copy_data': 'bcopy', 'Buffer.read': 'bread/bloadlist', 'Buffer.write': 'bwrite',
                  'Buffer.alloc_read': 'ballocread', 'Buffer.cue': 'bcue'},
    'server.py': {'Server._free_all_buffers': 'bfreeall', 'Server.bind': 'bind/end/raise',
                  'Server.free_default_group': 'freedg', 'Server.reorder': 'reorder',
                  'Server.sync': 'sync (through addr.sync; BundleNetAddr.sync inside bind blocks)'},
}
# sending methods deliberately outside the model (reply-driven, file I/O, boot/quit, routines)
UNMODELLED = {
    'node.py': {'AbstractGroup.query_tree', 'Synth.seti'},
    'bus.py': set(),
    'buffer.py': {'Buffer.alloc_read_channel', 'Buffer.read_channel', 'Buffer.update_info', 'Buffer._stream_list',
                  'Buffer.get_to_list', 'Buffer.prepare_partconv'},
    'server.py': {'Server.dump_osc', 'Server._send_default_groups',
                  'Server._send_default_groups_for_client_ids', 'Server._boot_init', 'Server.quit',
                  'Server.free_nodes'},
}


def sending_methods(repo):
    out = {}
    for f in MODELLED:
        tree = ast.parse((repo / 'sc3' / 'synth' / f).read_text())
        names = set()
        for c in ast.walk(tree):
            if isinstance(c, ast.ClassDef):
                for m in c.body:
                    if isinstance(m, ast.FunctionDef):
                        src = ast.unparse(m)
                        if 'send_msg' in src or 'send_bundle' in src:
                            names.add(f'{c.name}.{m.name}')
        out[f] = names
    return out


# ---------------------------------------------------------------------------------------------
# Server Command Reference grammar (independent transcription; works on rendered tokens)
# ---------------------------------------------------------------------------------------------
def split_tokens(s):
    """split a rendered message on spaces, keeping {...} (nested message) as one token"""
    toks, depth, cur = [], 0, ''
    for ch in s:
        if ch == '{':
            depth += 1
        if ch == '}':
            depth -= 1
        if ch == ' ' and depth == 0:
            if cur:
                toks.append(cur)
            cur = ''
        else:
            cur += ch
    if cur:
        toks.append(cur)
    return toks


def is_int(t):
    return t[0] == 'i' and t[1:].lstrip('-').isdigit()


def is_flag(t):
    return is_int(t) or t in ('T', 'F')


def is_num(t):
    return is_int(t) or t[0] == 'f'


def is_str(t):
    return t[0] == 's'


def is_ctl(t):
    return is_int(t) or is_str(t)


def is_mapsym(t):
    return re.fullmatch(r's[ac]\d+', t) is not None


class G:
    """recursive-descent checks; each returns the index after the consumed tokens or None"""
    @staticmethod
    def value(ts, i):
        if i >= len(ts):
            return None
        if is_num(ts[i]) or is_mapsym(ts[i]):
            return i + 1
        if ts[i] == '[':
            i += 1
            while i < len(ts) and ts[i] != ']':
                i = G.value(ts, i)
                if i is None:
                    return None
            return i + 1 if i < len(ts) else None
        return None

    @staticmethod
    def rep(ts, i, unit):
        while i < len(ts):
            i = unit(ts, i)
            if i is None:
                return None
        return i

    @staticmethod
    def seq(*preds):
        def unit(ts, i):
            for p in preds:
                if i >= len(ts) or not p(ts[i]):
                    return None
                i += 1
            return i
        return unit

    @staticmethod
    def counted(head):
        """head tokens, an int n, then n numbers"""
        def unit(ts, i):
            for p in head:
                if i >= len(ts) or not p(ts[i]):
                    return None
                i += 1
            if i >= len(ts) or not is_int(ts[i]) or int(ts[i][1:]) < 0:
                return None
            n = int(ts[i][1:]); i += 1
            for _ in range(n):
                if i >= len(ts) or not is_num(ts[i]):
                    return None
                i += 1
            return i
        return unit


def pairs_ctl_value(ts, i):
    if i >= len(ts) or not is_ctl(ts[i]):
        return None
    return G.value(ts, i + 1)


def completion_ok(ts, i):
    """optional trailing completion message: absent | N (sent as int 0, sclang convention) | message"""
    if i == len(ts):
        return True
    if i + 1 != len(ts):
        return False
    t = ts[i]
    if t == 'N':
        return True
    if t.startswith('{') and t.endswith('}'):
        return conforms(t[1:-1]) is None
    return t.startswith('x')


def conforms(msg):
    """None if the rendered message conforms to the command reference, else the reason"""
    ts = split_tokens(msg)
    cmd, a = ts[0], ts[1:]

    def all_rep(unit, start=0, need=1):
        if len(a) - start < need:
            return 'too few arguments'
        return None if G.rep(a, start, unit) is not None else 'arguments do not match the reference'

    def fixed(preds, then=None):
        if len(a) < len(preds):
            return 'too few arguments'
        for p, t in zip(preds, a):
            if not p(t):
                return f'argument `{t}` has the wrong type'
        if then is None:
            return None if len(a) == len(preds) else 'too many arguments'
        return then(len(preds))

    def rest(unit):
        return lambda i: None if G.rep(a, i, unit) is not None else 'repeated arguments do not match the reference'

    def compl(i):
        return None if completion_ok(a, i) else 'bad completion message'

    if cmd == '/s_new':
        r = fixed([is_str, is_int, is_int, is_int], rest(pairs_ctl_value))
        if r is None and not 0 <= int(a[2][1:]) <= 4:
            return 'add action out of range'
        return r
    if cmd == '/n_set':
        return fixed([is_int], rest(pairs_ctl_value))
    if cmd == '/n_setn':
        return fixed([is_int], rest(G.counted([is_ctl])))
    if cmd == '/n_fill':
        return fixed([is_int], rest(G.seq(is_ctl, is_int, is_num)))
    if cmd in ('/n_map', '/n_mapa'):
        return fixed([is_int], rest(G.seq(is_ctl, is_int)))
    if cmd in ('/n_mapn', '/n_mapan'):
        return fixed([is_int], rest(G.seq(is_ctl, is_int, is_int)))
    if cmd in ('/n_run', '/g_dumpTree', '/g_queryTree'):
        return all_rep(G.seq(is_int, is_flag), need=2)
    if cmd in ('/n_free', '/n_trace', '/n_query', '/g_freeAll', '/g_deepFree', '/b_query'):
        return all_rep(G.seq(is_int))
    if cmd in ('/n_before', '/n_after', '/g_head', '/g_tail'):
        return all_rep(G.seq(is_int, is_int), need=2)
    if cmd == '/n_order':
        r = fixed([is_int, is_int], rest(G.seq(is_int)))
        if r is None and not 0 <= int(a[0][1:]) <= 3:
            return 'add action out of range'
        return r
    if cmd in ('/g_new', '/p_new'):
        r = all_rep(G.seq(is_int, is_int, is_int), need=3)
        if r is None and any(not 0 <= int(a[j][1:]) <= 4 for j in range(1, len(a), 3)):
            return 'add action out of range'
        return r
    if cmd == '/s_get':
        return fixed([is_int], rest(G.seq(is_ctl)))
    if cmd == '/s_getn':
        return fixed([is_int], rest(G.seq(is_ctl, is_int)))
    if cmd == '/b_alloc':
        return fixed([is_int, is_int, is_int], compl)
    if cmd in ('/b_free', '/b_zero', '/b_close'):
        return fixed([is_int], compl)
    if cmd == '/b_read':
        return fixed([is_int, is_str, is_int, is_int, is_int, is_flag], compl)
    if cmd == '/b_allocRead':
        return fixed([is_int, is_str, is_int, is_int], compl)
    if cmd == '/b_write':
        return fixed([is_int, is_str, is_str, is_str, is_int, is_int, is_flag], compl)
    if cmd == '/b_set':
        return fixed([is_int], rest(G.seq(is_int, is_num)))
    if cmd == '/b_setn':
        return fixed([is_int], rest(G.counted([is_int])))
    if cmd == '/b_fill':
        return fixed([is_int], rest(G.seq(is_int, is_int, is_num)))
    if cmd == '/b_get':
        return fixed([is_int], rest(G.seq(is_int)))
    if cmd == '/b_getn':
        return fixed([is_int], rest(G.seq(is_int, is_int)))
    if cmd == '/b_gen':
        r = fixed([is_int, is_str], lambda i: None)
        if r:
            return r
        gen, g = a[1][1:], a[2:]
        if gen in ('sine1', 'cheby'):
            ok = len(g) >= 1 and is_int(g[0]) and all(is_num(t) for t in g[1:])
        elif gen == 'sine2':
            ok = len(g) >= 1 and is_int(g[0]) and all(is_num(t) for t in g[1:]) and (len(g) - 1) % 2 == 0
        elif gen == 'sine3':
            ok = len(g) >= 1 and is_int(g[0]) and all(is_num(t) for t in g[1:]) and (len(g) - 1) % 3 == 0
        elif gen == 'copy':
            ok = len(g) == 4 and all(is_int(t) for t in g)
        elif gen in ('normalize', 'wnormalize'):
            ok = len(g) <= 1 and all(is_num(t) for t in g)
        else:
            ok = all(is_num(t) or is_str(t) for t in g)     # plug-in generators: free form
        return None if ok else f'/b_gen {gen}: arguments do not match the reference'
    if cmd == '/c_set':
        return all_rep(G.seq(is_int, is_num), need=0)
    if cmd == '/c_setn':
        return all_rep(G.counted([is_int]), need=0)
    if cmd == '/c_fill':
        return all_rep(G.seq(is_int, is_int, is_num), need=0)
    if cmd == '/c_get':
        return all_rep(G.seq(is_int), need=0)
    if cmd == '/c_getn':
        return all_rep(G.seq(is_int, is_int), need=0)
    return f'command {cmd} is not in the reference table of the check'


def parse_line(line):
    """'STATUS | M <msg> ;; B <time> <msg> ;| <msg>' -> (status, [('M', None, [msg]), ('B', time, [msgs])])"""
    status, _, rest = line.partition(' |')
    pkts = []
    for p in rest.strip().split(' ;; '):
        p = p.strip()
        if not p:
            continue
        if p == 'S':
            pkts.append(('S', None, []))
        elif p.startswith('M '):
            pkts.append(('M', None, [p[2:]]))
        elif p.startswith('B '):
            time, _, body = p[2:].partition(' ')
            pkts.append(('B', time, [m for m in body.split(' ;| ') if m]))
        elif p.startswith('X '):
            port, _, body = p[2:].partition(' ')
            pkts.append(('X', port, [body]))
        elif p.startswith('E '):
            exc, _, body = p[2:].partition(' ')
            pkts.append(('E', exc, [body]))
        else:
            pkts.append(('?', None, [p]))
    return status.strip(), pkts


GEN = common.LEAN / 'Sc3Verif' / 'C17' / 'GenActions.lean'


def gen_actions(repo):
    """translator (T): the literal dict `Node.add_actions` of node.py -> Lean tables"""
    tree = ast.parse((repo / 'sc3' / 'synth' / 'node.py').read_text())
    table = None
    for c in ast.walk(tree):
        if isinstance(c, ast.ClassDef) and c.name == 'Node':
            for st in c.body:
                if isinstance(st, ast.Assign) and len(st.targets) == 1 and ast.unparse(st.targets[0]) == 'add_actions':
                    table = ast.literal_eval(st.value)
    if not isinstance(table, dict):
        raise ValueError('Node.add_actions is not a literal dict')
    strs, ints = [], []
    for k, v in table.items():
        if type(v) is not int:
            raise ValueError(f'add action value {v!r} is not an int')
        if type(k) is str:
            strs.append((k, v))
        elif type(k) is int:
            ints.append((k, v))
        else:
            raise ValueError(f'add action key {k!r}')
    out = ['/- GENERATED by harness/props/c17.py from sc3/synth/node.py (Node.add_actions).',
           '   Do not edit: rewritten on every run of ./check C17. -/',
           'namespace Sc3Verif.C17', '',
           '/-- string keys of `Node.add_actions` -/',
           'def addActionsStr : List (String × Int) :=',
           '  [' + ', '.join(f'("{k}", {v})' for k, v in strs) + ']', '',
           '/-- int keys of `Node.add_actions` -/',
           'def addActionsInt : List (Int × Int) :=',
           '  [' + ', '.join(f'({k}, {v})' for k, v in ints) + ']', '',
           'end Sc3Verif.C17', '']
    return '\n'.join(out)


CONV = {'after': 'saddAfter', 'before': 'saddBefore', 'head': 'saddToHead', 'tail': 'saddToTail',
        'replace': 'saddReplace'}


def plain_form(line):
    """the convenience constructors written as the plain constructor they stand for"""
    w = line.split()
    if w[0] in ('groupc', 'pgroupc'):
        return f'{w[0][:-1]} {w[2]} {CONV[w[1]]}'
    if w[0] == 'synthc':
        if w[1] == 'replace':
            return f'replace {w[3]} {w[2]} ' + ' '.join(w[4:]) + ' F'
        return f'synth {w[2]} {w[3]} {CONV[w[1]]} ' + ' '.join(w[4:])
    return line


class Check(common.Check):
    PROP = 'C17'
    LEAN_TARGETS = ['Sc3Verif.C17.Props']
    LEAN_DIRS = ['Sc3Verif/C17']
    THEOREMS = ['Sc3Verif.C17.' + t for t in (
        'emitted_conforms', 'embedL_pairs', 'bind_one_bundle_in_order', 'unbound_sends_each',
        'bind_nested_appends', 'bind_raises_sends_nothing', 'bind_preserves_issue_order', 'sync_flushes_everything',
        'synth_create_uses_own_id', 'group_create_uses_own_id', 'next_node_id_is_allocator_id',
        'buffer_create_uses_own_id', 'consecutive_create_uses_own_ids', 'consecutive_explicit_uses_given_ids',
        'buffer_free_once_and_returns_id', 'buffer_double_free_silent', 'free_all_frees_every_id_once',
        'sub_bus_inside_parent', 'node_cmds_use_object_id', 'buffer_cmds_use_object_bufnum', 'bus_cmds_use_object_index',
        'corewf_step', 'corewf_init', 'add_actions_table_ok')]
    N_QUICK = 400
    N_THOROUGH = 6000
    ASSUMPTIONS = []

    def regen(self):
        try:
            text = gen_actions(common.REPO)
        except (OSError, SyntaxError, ValueError) as e:
            return f'node.py add_actions: {e}'
        if not GEN.exists() or GEN.read_text() != text:
            GEN.write_text(text)
        return None

    def rule(self):
        return ('histories of 3-60 client calls on a fresh real Server (client id 0-3, dyadic latency or None): '
                'Synth/Group/ParGroup creation with all 20 add-action spellings and None/node/int/Server targets, '
                'new_paused, grain, replace; set/setn/map/mapa/mapn/mapan/fill/release/run/move*/free/trace/query/'
                'get/getn/free_all/deep_free/dump_tree/reorder with scalar, list, nested list, dict, bus, map-symbol, '
                'buffer and node arguments; AudioBus/ControlBus alloc, explicit index, free, double free, set*/fill/'
                'get*; Buffer alloc (with completion message / function), new_consecutive, alloc=False+alloc, free, '
                'double free, free_all, zero/close/fill/set/setn/get/getn/query/gen/sine1-3/cheby/normalize/copy; '
                'bind blocks (nested too) closed normally, by `raise`, or by a raising call (freed bus/buffer). '
                'Every case runs in NRT and RT mode and as its unbound twin. Non-trivial: a case with a bind block '
                'that sends a bundle, or a free/free_all of a buffer, or a nested-list/dict argument; distinct by ops')

    # ---- generator -------------------------------------------------------------------------
    def gen_num(self, rng):
        return rng.choice([f'i{rng.randint(-3, 900)}', f'i{rng.randint(0, 9)}',
                           f'f{rng.randint(-40, 40)}/{rng.choice([1, 2, 4, 8, 16])}'])

    def gen_value(self, rng, st, depth=0):
        r = rng.random()
        if r < 0.5 or depth > 1:
            return self.gen_num(rng)
        if r < 0.7:
            n = rng.randint(0, 4)
            return '( ' + ' '.join(self.gen_value(rng, st, depth + 1) for _ in range(n)) + (' )' if n else ')')
        if r < 0.78 and st['bus']:
            return f'b{rng.randrange(st["bus"])}'
        if r < 0.86 and st['cbus']:
            return f'm{rng.choice(st["cbus"])}'
        if r < 0.92 and st['buf']:
            return f'u{rng.randrange(st["buf"])}'
        if r < 0.95 and st['node']:
            return f'n{rng.randrange(st["node"])}'
        return self.gen_num(rng)

    def gen_ctl(self, rng):
        return rng.choice(['sfreq', 'samp', 'sout', 'sgate', 'sbuf', f'i{rng.randint(0, 6)}'])

    def gen_pairs(self, rng, st, n=None):
        n = rng.randint(0, 4) if n is None else n
        return ' '.join(f'{self.gen_ctl(rng)} {self.gen_value(rng, st)}' for _ in range(n))

    def gen_args(self, rng, st):
        r = rng.random()
        if r < 0.15:
            return 'N'
        if r < 0.35:
            n = rng.randint(0, 3)
            ks = rng.sample(['sfreq', 'samp', 'sout', 'sgate', 'i0', 'i3'], n)
            body = ' '.join(f'{k} {self.gen_value(rng, st)}' for k in ks)
            return 'd( ' + body + (' )' if body else ')')
        body = self.gen_pairs(rng, st)
        return '( ' + body + (' )' if body else ')')

    def gen_target(self, rng, st):
        if st.get('second'):
            # on a second (non-default) server a None / int target means Server.default by design:
            # objects of THIS server are created in its own default group or relative to its nodes
            if st['node'] and rng.random() < 0.6:
                return f'n{rng.randrange(st["node"])}'
            return 'S'
        r = rng.random()
        if r < 0.3 or not st['node']:
            return rng.choice(['N', 'N', 'S', f'i{rng.choice([0, 1, 1000, 7])}'])
        return f'n{rng.randrange(st["node"])}'

    def gen_numlist(self, rng, n=None):
        n = rng.randint(0, 5) if n is None else n
        body = ' '.join(self.gen_num(rng) for _ in range(n))
        return '( ' + body + (' )' if body else ')')

    def gen_completion(self, rng):
        return rng.choice(['N', 'N', 'N', 'K', '( s/b_query i0 )', '( s/n_free i1000 )',
                           '( s/b_zero i1 ( s/b_query i1 ) )'])

    def gen_case(self, rng):
        st = {'node': 0, 'bus': 0, 'cbus': [], 'buf': 0, 'depth': 0, 'groups': [], 'synths': [],
              'second': rng.random() < 0.3}
        ops = []
        nops = rng.choice([rng.randint(3, 12), rng.randint(10, 30), rng.randint(25, 60)])
        flavour = rng.choice(['nodes', 'buffers', 'buses', 'mixed', 'mixed', 'bind'])
        w = {'nodes': (0.7, 0.1, 0.1), 'buffers': (0.15, 0.1, 0.65), 'buses': (0.2, 0.6, 0.1),
             'mixed': (0.4, 0.2, 0.3), 'bind': (0.45, 0.15, 0.2)}[flavour]
        p_bind = 0.25 if flavour == 'bind' else 0.08
        flags = lambda: ' '.join(rng.choice('TF') for _ in range(3))
        for _ in range(nops):
            r = rng.random()
            if r < p_bind:
                if st['depth'] and rng.random() < 0.3:
                    ops.append('sync')
                    continue
                if st['depth'] and rng.random() < 0.6:
                    ops.append(rng.choice(['end', 'end', 'end', 'raise']))
                    if ops[-1] == 'end':
                        st['depth'] -= 1
                elif st['depth'] < 3:
                    ops.append('bind'); st['depth'] += 1
                continue
            r = rng.random()
            if r < w[0]:                                   # ---- nodes
                k = rng.random()
                if k < 0.3 or not st['node']:
                    if rng.random() < 0.2 and st['node']:
                        # convenience constructors of each receiver class
                        cop = rng.choice(['groupc', 'pgroupc', 'pgroupc', 'synthc'])
                        ck = rng.choice(list(CONV))
                        tgt = f'n{rng.randrange(st["node"])}'
                        if cop == 'synthc':
                            ops.append(f'synthc {ck} {rng.choice(["default", "x"])} {tgt} {self.gen_args(rng, st)}')
                            st['synths'].append(st['node'])
                        else:
                            ops.append(f'{cop} {ck} {tgt}')
                            st['groups'].append(st['node'])
                        st['node'] += 1
                        continue
                    kind = rng.choice(['synth', 'synth', 'synth', 'group', 'pgroup', 'synthp', 'grain'])
                    tgt, act = self.gen_target(rng, st), rng.choice(ACTIONS)
                    if kind in ('group', 'pgroup'):
                        ops.append(f'{kind} {tgt} {act}')
                    else:
                        ops.append(f'{kind} {rng.choice(["default", "sine", "x"])} {tgt} {act} {self.gen_args(rng, st)}')
                    if kind != 'grain':
                        st['groups' if kind in ('group', 'pgroup') else 'synths'].append(st['node'])
                        st['node'] += 1
                        if rng.random() < 0.3:
                            ops.append(f'register n{st["node"] - 1}')
                            if rng.random() < 0.6:
                                ops.append(f'run n{st["node"] - 1} {rng.choice("TF")}')
                                if rng.random() < 0.6:
                                    ops.append(f'run n{st["node"] - 1} {rng.choice("TF")}')
                    continue
                ni = rng.randrange(st["node"])
                n = f'n{ni}'
                grp = lambda: f'n{rng.choice(st["groups"])}' if st['groups'] and rng.random() < 0.9 else 'N'
                m = rng.choice(['set', 'set', 'setn', 'map', 'mapa', 'mapn', 'mapan', 'fill', 'release', 'run',
                                'nfree', 'trace', 'nquery', 'movb', 'mova', 'movh', 'movt', 'sget', 'sgetn',
                                'gfreeall', 'gdeep', 'gdump', 'reorder', 'freedg', 'replace'])
                if m in ('gfreeall', 'gdeep', 'gdump') and rng.random() < 0.92:
                    if not st['groups']:
                        m = 'trace'
                    else:
                        n = f'n{rng.choice(st["groups"])}'
                if m in ('sget', 'sgetn') and rng.random() < 0.92:
                    if not st['synths']:
                        m = 'trace'
                    else:
                        n = f'n{rng.choice(st["synths"])}'
                if m == 'set':
                    ops.append(f'set {n} {self.gen_pairs(rng, st)}'.rstrip())
                elif m == 'setn':
                    body = ' '.join(f'{self.gen_ctl(rng)} {rng.choice([self.gen_numlist(rng), self.gen_num(rng)])}'
                                    for _ in range(rng.randint(0, 3)))
                    ops.append(f'setn {n} {body}'.rstrip())
                elif m in ('map', 'mapa'):
                    body = ' '.join(f'{self.gen_ctl(rng)} ' + (f'b{rng.randrange(st["bus"])}' if st['bus'] and rng.random() < 0.7
                                                            else f'i{rng.randint(0, 30)}') for _ in range(rng.randint(0, 3)))
                    ops.append(f'{m} {n} {body}'.rstrip())
                elif m in ('mapn', 'mapan'):
                    body = ' '.join(f'{self.gen_ctl(rng)} ' + (f'b{rng.randrange(st["bus"])}' if st['bus'] and rng.random() < 0.7
                                                            else f'i{rng.randint(0, 30)}') for _ in range(rng.randint(0, 3)))
                    ops.append(f'{m} {n} {body}'.rstrip())
                elif m == 'fill':
                    more = ' '.join(f'{self.gen_ctl(rng)} i{rng.randint(1, 4)} {self.gen_num(rng)}' for _ in range(rng.randint(0, 2)))
                    ops.append(f'fill {n} {self.gen_ctl(rng)} i{rng.randint(1, 4)} {self.gen_num(rng)} {more}'.rstrip())
                elif m == 'release':
                    ops.append(f'release {n} ' + rng.choice(['N', 'i0', 'i2', 'f1/2', 'f-1/4', 'f3/1']))
                elif m in ('run', 'nfree', 'gdump'):
                    ops.append(f'{m} {n} {rng.choice("TF")}')
                elif m in ('trace', 'nquery', 'gfreeall', 'gdeep'):
                    ops.append(f'{m} {n}')
                elif m in ('movb', 'mova'):
                    ops.append(f'{m} {n} n{rng.randrange(st["node"])}')
                elif m in ('movh', 'movt'):
                    ops.append(f'{m} {n} ' + grp())
                elif m == 'sget':
                    ops.append(f'sget {n} {self.gen_ctl(rng)}')
                elif m == 'sgetn':
                    ops.append(f'sgetn {n} {self.gen_ctl(rng)} i{rng.randint(1, 4)}')
                elif m == 'reorder':
                    ns = ' '.join(f'n{rng.randrange(st["node"])}' for _ in range(rng.randint(0, 3)))
                    ops.append(f'reorder {rng.choice(ACTIONS[:4] + ACTIONS[5:9])} {self.gen_target(rng, st)} {ns}'.rstrip())
                elif m == 'freedg':
                    ops.append(f'freedg {rng.choice("TF")}')
                elif m == 'replace':
                    ops.append(f'replace {n} {rng.choice(["default", "y"])} {self.gen_args(rng, st)} {rng.choice("TF")}')
                    st['synths'].append(st['node'])
                    st['node'] += 1
            elif r < w[0] + w[1]:                          # ---- buses
                k = rng.random()
                if k < 0.3 or not st['bus']:
                    kind = rng.choice(['abus', 'cbus', 'cbus', 'abusx', 'cbusx'])
                    if kind in ('abus', 'cbus'):
                        ops.append(f'{kind} i{rng.randint(1, 4)}')
                    else:
                        ops.append(f'{kind} i{rng.randint(1, 4)} i{rng.randint(0, 40)}')
                    if kind.startswith('c'):
                        st['cbus'].append(st['bus'])
                    st['bus'] += 1
                    continue
                bi = rng.choice(st['cbus']) if st['cbus'] and rng.random() < 0.8 else rng.randrange(st['bus'])
                b = f'b{bi}'
                if st['node'] and bi in st['cbus'] and rng.random() < 0.25:
                    # the map symbol of the bus is asked for (cached), the bus freed, the symbol asked for again
                    n = f'n{rng.randrange(st["node"])}'
                    ops.append(f'set {n} {self.gen_ctl(rng)} m{bi}')
                    if rng.random() < 0.7:
                        ops.append(f'busfree b{bi}')
                        ops.append(rng.choice([f'set {n} {self.gen_ctl(rng)} m{bi}', f'map {n} sfreq b{bi}',
                                               f'synth default N i0 ( sout m{bi} )']))
                        if ops[-1].startswith('synth'):
                            st['synths'].append(st['node']); st['node'] += 1
                    continue
                if rng.random() < 0.15:
                    # derived buses at and beyond the boundary of the parent (channel counts are 1..4)
                    off = rng.randint(0, 4)
                    ops.append(f'subbus b{bi} i{off} i{rng.choice([1, 1, 2, max(1, 4 - off), max(1, 5 - off), 3])}')
                    if bi in st['cbus']:
                        st['cbus'].append(st['bus'])
                    st['bus'] += 1
                    if rng.random() < 0.6 and bi in st['cbus']:
                        ops.append(f'csetn b{st["bus"] - 1} {self.gen_numlist(rng, rng.randint(1, 3))}')
                    continue
                m = rng.choice(['busfree', 'busfree', 'cset', 'csetn', 'csetat', 'csetnat', 'cpairs', 'cfill',
                                'cclear', 'cget', 'cgetn'])
                if bi not in st['cbus'] and m != 'busfree':
                    m = 'busfree'
                if m in ('busfree', 'cclear', 'cget'):
                    ops.append(f'{m} {b}')
                elif m == 'cset':
                    ops.append(f'cset {b} ' + ' '.join(self.gen_num(rng) for _ in range(rng.randint(0, 4))))
                elif m == 'csetn':
                    ops.append(f'csetn {b} {self.gen_numlist(rng)}')
                elif m == 'csetat':
                    ops.append(f'csetat {b} i{rng.randint(0, 3)} ' + ' '.join(self.gen_num(rng) for _ in range(rng.randint(0, 3))))
                elif m == 'csetnat':
                    ops.append(f'csetnat {b} i{rng.randint(0, 3)} {self.gen_numlist(rng)}')
                elif m == 'cpairs':
                    ops.append(f'cpairs {b} ' + ' '.join(f'i{rng.randint(0, 3)} {self.gen_num(rng)}' for _ in range(rng.randint(0, 3))))
                elif m == 'cfill':
                    ops.append(f'cfill {b} {self.gen_num(rng)} i{rng.randint(1, 4)}')
                elif m == 'cgetn':
                    ops.append(f'cgetn {b} ' + rng.choice(['N', f'i{rng.randint(1, 4)}']))
                ops[-1] = ops[-1].rstrip()
            elif r < w[0] + w[1] + w[2]:                   # ---- buffers
                k = rng.random()
                if k < 0.35 or not st['buf']:
                    kind = rng.choice(['buf', 'buf', 'buf', 'bufnc', 'bufnc', 'bufcons', 'bufcons', 'bufna', 'bufx', 'bufconsx'])
                    fr, ch = f'i{rng.choice([8, 64, 1024])}', f'i{rng.randint(1, 2)}'
                    if kind == 'buf':
                        ops.append(f'buf {fr} {ch} {self.gen_completion(rng)}'); st['buf'] += 1
                    elif kind == 'bufnc':
                        ops.append(f'bufnc {fr} {ch} {self.gen_completion(rng)}'); st['buf'] += 1
                        if rng.random() < 0.5:           # an uncached buffer, freed while no cached one is alive
                            ops.append(f'bfree u{st["buf"] - 1} N')
                    elif kind == 'bufx':
                        ops.append(f'bufx {fr} {ch} i{rng.randint(0, 50)} {self.gen_completion(rng)}'); st['buf'] += 1
                    elif kind == 'bufna':
                        ops.append(f'bufna {fr} {ch}'); st['buf'] += 1
                    elif kind == 'bufconsx':
                        n = rng.randint(1, 4)
                        ops.append(f'bufconsx i{n} {fr} {ch} i{rng.randint(0, 60)} {rng.choice(["N", "N", "K"])}')
                        st['buf'] += n
                        if rng.random() < 0.5:
                            ops.append('bfreeall')
                    else:
                        n = rng.randint(1, 4)
                        ops.append(f'bufcons i{n} {fr} {ch} {rng.choice(["N", "N", "K"])}'); st['buf'] += n
                    continue
                u = f'u{rng.randrange(st["buf"])}'
                m = rng.choice(['bfree', 'bfree', 'bfree', 'bfreeall', 'bzero', 'bclose', 'bfill', 'bset', 'bsetn',
                                'bquery', 'bget', 'bgetn', 'bgen', 'bsine1', 'bsine2', 'bsine3', 'bcheby', 'bnorm',
                                'bcopy', 'balloc', 'bread', 'bloadlist', 'bwrite', 'ballocread', 'bcue'])
                if m in ('bfree', 'bzero', 'bclose', 'balloc'):
                    ops.append(f'{m} {u} {self.gen_completion(rng)}')
                elif m == 'bfreeall':
                    ops.append('bfreeall')
                elif m == 'bread':
                    ops.append(f'bread {u} i{rng.choice([0, 3, 100])} i{rng.choice([-1, 8, 64])} i{rng.choice([0, 2, 5])} {rng.choice("TF")}')
                elif m == 'bloadlist':
                    ops.append(f'bloadlist {u} i{rng.choice([0, 1, 3, 6])}')
                elif m == 'bwrite':
                    ops.append(f'bwrite {u} s{rng.choice(["aiff", "wav"])} i{rng.choice([-1, 8, 64])} i{rng.choice([0, 2, 5])} '
                               f'{rng.choice("TF")} {self.gen_completion(rng)}')
                elif m == 'ballocread':
                    ops.append(f'ballocread {u} i{rng.choice([0, 3, 100])} i{rng.choice([-1, 8, 64])} {self.gen_completion(rng)}')
                elif m == 'bcue':
                    ops.append(f'bcue {u} i{rng.choice([0, 3, 100])} {self.gen_completion(rng)}')
                elif m == 'bfill':
                    more = f' i{rng.randint(0, 8)} i{rng.randint(1, 8)} {self.gen_num(rng)}' if rng.random() < 0.3 else ''
                    ops.append(f'bfill {u} i{rng.randint(0, 8)} i{rng.randint(1, 8)} ( {self.gen_num(rng)}{more} )')
                elif m == 'bset':
                    ops.append(f'bset {u} ' + ' '.join(f'i{rng.randint(0, 7)} {self.gen_num(rng)}' for _ in range(rng.randint(1, 3))))
                elif m == 'bsetn':
                    ops.append(f'bsetn {u} ' + ' '.join(f'i{rng.randint(0, 7)} {rng.choice([self.gen_numlist(rng), self.gen_num(rng)])}'
                                                         for _ in range(rng.randint(0, 3))))
                elif m == 'bquery':
                    ops.append(f'bquery {u}')
                elif m == 'bget':
                    ops.append(f'bget {u} i{rng.randint(0, 7)}')
                elif m == 'bgetn':
                    ops.append(f'bgetn {u} i{rng.randint(0, 7)} i{rng.randint(1, 4)}')
                elif m == 'bgen':
                    ops.append(f'bgen {u} sine1 {self.gen_numlist(rng)} {flags()}')
                elif m in ('bsine1', 'bcheby'):
                    ops.append(f'{m} {u} {self.gen_numlist(rng)} {flags()}')
                elif m == 'bsine2':
                    n = rng.randint(0, 3)
                    ops.append(f'bsine2 {u} {self.gen_numlist(rng, n)} {self.gen_numlist(rng, n)} {flags()}')
                elif m == 'bsine3':
                    n = rng.randint(0, 3)
                    ops.append(f'bsine3 {u} {self.gen_numlist(rng, n)} {self.gen_numlist(rng, n)} {self.gen_numlist(rng, n)} {flags()}')
                elif m == 'bnorm':
                    ops.append(f'bnorm {u} {self.gen_num(rng)} {rng.choice("TF")}')
                elif m == 'bcopy':
                    ops.append(f'bcopy {u} u{rng.randrange(st["buf"])} i{rng.randint(0, 4)} i{rng.randint(5, 9)} i{rng.choice([-1, 4, 7])}')
                ops[-1] = ops[-1].rstrip()
        while st['depth'] and rng.random() < 0.8:
            ops.append('end'); st['depth'] -= 1
        opts = {'client_id': rng.choice([0, 0, 1, 3]), 'max_logins': 4, 'running': rng.random() < 0.6,
                'default': not st['second'],
                'latency': rng.choice(['1/4', '1/8', '0', None]), 'buffers': rng.choice([64, 1024])}
        return {'opts': opts, 'ops': ops}

    def gen_big(self, rng):
        """a bind block larger than one UDP datagram (65504 bytes): thousands of small commands, or a few
        commands of about 10 KiB each; compared with the unbound twin by the oracle (clumping is C06's model)"""
        ops = ['group N shead', 'synth default n0 shead N', 'cbus i4', 'bind']
        if rng.random() < 0.6:
            for _ in range(rng.randint(1700, 2600)):
                k = rng.random()
                if k < 0.7:
                    ops.append(f'set n1 sfreq i{rng.randint(0, 999)} samp i{rng.randint(0, 9)}')
                elif k < 0.85:
                    ops.append(f'run n1 {rng.choice("TF")}')
                else:
                    ops.append(f'cset b0 i{rng.randint(0, 9)} i{rng.randint(0, 9)}')
        else:
            for _ in range(rng.randint(8, 14)):
                m = rng.randint(1800, 2600)
                ops.append('csetn b0 ( ' + ' '.join(f'i{rng.randint(0, 9)}' for _ in range(m)) + ' )')
                if rng.random() < 0.5:
                    ops.append(f'set n1 sfreq i{rng.randint(0, 999)}')
        if rng.random() < 0.3:
            ops.insert(rng.randint(5, len(ops)), 'sync')
        ops.append('end')
        ops.append('trace n1')
        return {'opts': {'client_id': 0, 'max_logins': 4, 'latency': rng.choice(['1/4', None]), 'buffers': 64},
                'ops': ops, 'big': True}

    def gen_badexit(self, rng):
        """a bind block whose send at exit raises (a message the encoder refuses), then further commands:
        however the block ended, later commands reach the wire again"""
        ops = ['group N shead', 'synth default n0 shead N']
        for _ in range(rng.randint(1, 3)):
            ops.append('bind')
            if rng.random() < 0.3:
                ops.append('bind')
                ops += [f'run n1 {rng.choice("TF")}', 'end']
            body = [f'set n1 sfreq i{rng.randint(0, 99)}' for _ in range(rng.randint(0, 3))]
            body.insert(rng.randint(0, len(body)), 'badmsg')
            ops += body + ['end']
            ops += [rng.choice([f'run n1 {rng.choice("TF")}', 'trace n0', 'group n0 stail', 'cbus i2'])
                    for _ in range(rng.randint(1, 4))]
            if rng.random() < 0.5:
                ops += ['bind', f'set n1 samp i{rng.randint(0, 9)}', 'end']
        return {'opts': {'client_id': 0, 'max_logins': 4, 'latency': rng.choice(['1/4', None]), 'buffers': 64},
                'ops': ops}

    def gen(self, rng, n):
        cases = [self.gen_case(rng) for _ in range(n)]
        cases += [self.gen_badexit(rng) for _ in range(max(3, n // 60))]
        for _ in range(max(2, n // 150)):
            cases.append(self.gen_big(rng))
        return cases

    # ---- runners ---------------------------------------------------------------------------
    def impl(self, cases):
        res, err = common.run_impl('c17', 'run', {'cases': cases, 'mode': 'nrt'})
        if res is None:
            self.notes.append(err)
            return None
        rt, err = common.run_impl('c17', 'run', {'cases': cases, 'mode': 'rt'})
        if rt is None:
            self.notes.append('rt: ' + err)
            return None
        for r, q in zip(res, rt):
            r['rt'] = q['wire']
        return res

    def model(self, cases):
        lines = []
        for c in cases:
            o = c.get('opts', {})
            lat = o.get('latency')
            lines.append('reset')
            lines.append(f"server {o.get('client_id', 0)} {o.get('max_logins', 1)} {o.get('buffers', 1024)} "
                         f"{'N' if lat is None else lat}")
            lines.extend(plain_form(l) for l in c['ops'])
            lines.append('eof')
        out, err = common.run_driver('Sc3Verif/C17/Driver.lean', lines)
        if out is None:
            raise RuntimeError('driver failed: ' + err)
        res, cur = [], None
        for l in out:
            if l == 'reset':
                cur = []; res.append(cur)
            elif l == 'server ok':
                continue
            else:
                cur.append(l)
        return res

    def compare(self, case, impl_out, model_out):
        if case.get('big') or 'badmsg' in case['ops']:
            return None          # clumped blocks (C06 model) / messages the encoder refuses: oracle only
        if common.canon(impl_out['wire']) == common.canon(model_out):
            return None
        for i, (a, b) in enumerate(zip(impl_out['wire'], model_out)):
            if a != b:
                return {'op_index': i, 'op': (case['ops'] + ['<eof>'])[i], 'impl': a, 'model': b}
        return {'impl_len': len(impl_out['wire']), 'model_len': len(model_out)}

    # ---- property oracle on the real behaviour (independent of the Lean model) ---------------
    @staticmethod
    def all_msgs(pkts):
        """messages of packets incl. nested completion messages, flattened"""
        out = []

        def walk(m):
            out.append(m)
            for t in split_tokens(m):
                if t.startswith('{') and t.endswith('}'):
                    walk(t[1:-1])
        for kind, _, msgs in pkts:
            if kind in ('M', 'B'):
                for m in msgs:
                    walk(m)
        return out

    @staticmethod
    def default_groups(case):
        nl = case['opts'].get('max_logins', 1)
        return {(2 ** 25 - 1) * c + 1 for c in range(nl)}

    @staticmethod
    def clumped_ok(pk, msgs, lat):
        """a block above the datagram size goes out as successive bundles: every packet a bundle the
        encoder accepts within the size limit (else it is an 'E' packet), first at the latency, and the
        concatenation of their elements is exactly the issued messages, in order"""
        if len(pk) < 2 or any(k != 'B' for k, _, _ in pk):
            return False
        if pk[0][1] != lat and not (lat != 'N' and pk[0][1] != 'N'):
            return False
        return [m for _, _, ms in pk for m in ms] == msgs

    NODE_ID_POS = {'/s_new': [1, 3], '/n_set': [0], '/n_setn': [0], '/n_fill': [0], '/n_map': [0], '/n_mapa': [0],
                   '/n_mapn': [0], '/n_mapan': [0], '/n_trace': [0], '/n_query': [0], '/s_get': [0],
                   '/s_getn': [0], '/g_freeAll': [0], '/g_deepFree': [0], '/n_free': [0]}

    def oracle(self, case, out):
        try:
            return self._oracle(case, out)
        except (ValueError, IndexError, KeyError) as e:
            return {'what': f'unparsable output ({type(e).__name__}: {e})', 'signature': 'c17:output'}

    def _oracle(self, case, out):
        ops = case['ops']
        wire, twin, rt = out['wire'], out['twin'], out.get('rt')
        if wire and wire[0].startswith('harness-exc'):
            return {'what': wire[0], 'signature': 'c17:harness'}
        if rt is not None and rt != wire:
            k = next((i for i, (a, b) in enumerate(zip(wire, rt)) if a != b), min(len(wire), len(rt)))
            return {'what': f'RT and NRT mode differ at op #{k} `{(ops + ["<eof>"])[k] if k <= len(ops) else "?"}`: '
                            f'nrt `{wire[k] if k < len(wire) else None}` rt `{rt[k] if k < len(rt) else None}`',
                    'signature': 'mode:differs', 'index': k}
        lat = case['opts'].get('latency')
        lat = 'N' if lat is None else (lat if '/' in lat else f'{lat}/1')
        W = [parse_line(l) for l in wire]
        T = [parse_line(l) for l in twin]
        node_ids = {0, -1} | self.default_groups(case)
        handles_buf = []           # bufnum per buffer handle (None after free)
        handles_bus = []           # (audio?, index, channels) per bus handle (None after free)
        handles_node = []          # node id per node handle
        frames_buf = []            # frames per buffer handle
        alloc_owned = set()        # buffer numbers taken from the allocator by a Buffer and not yet given back
        blocks = []                # used blocks of the buffer allocator (from the status suffix)
        depth, block_msgs, aligned = 0, [], len(W) == len(T)

        def lits(line):
            return {int(t[1:]) for t in line.replace('(', ' ').replace(')', ' ').split()
                    if re.fullmatch(r'i-?\d+', t)}

        def in_blocks(x, bl):
            return any(a <= x < a + n for a, n in bl)

        def parse_blocks(status):
            m = re.search(r' a([\d:,]*)$', status)
            if m is None:
                return None
            return [tuple(int(v) for v in p.split(':')) for p in m.group(1).split(',') if p]

        for i, line in enumerate(ops):
            if i >= len(W):
                return {'what': f'no output for op #{i}', 'signature': 'c17:output'}
            st, pk = W[i]
            if '!class:' in st:
                return {'what': f'op #{i} `{line}` returned a {st.split("!class:")[1]} object, not an instance of the '
                                f'class it was called on', 'signature': 'create:class', 'index': i}
            line = plain_form(line)
            tst, tpk = T[i] if i < len(T) else ('', [])
            op = line.split()[0]
            # -- everything that reaches the wire, and everything the twin emits, must be encodable and conform
            for where, pkts in (('', pk), (' (unbound twin)', tpk)):
                for kind, info, msgs in pkts:
                    if kind == 'X':
                        return {'what': f'op #{i} `{line}`{where}: `{msgs[0][:120]}` was sent to port {info}, not to the '
                                        f'server the object belongs to', 'signature': 'server:wrong-socket', 'index': i}
                    if kind == 'E' and op == 'badmsg':
                        continue             # deliberately unencodable (caller's fault)
                    if kind == 'E':
                        cmd = msgs[0].split()[0] if msgs else '?'
                        return {'what': f'op #{i} `{line}`{where}: the OSC encoder rejects the emitted message '
                                        f'({info}): {msgs[0][:160]}', 'signature': f'enc:{op}', 'index': i}
                for m in self.all_msgs(pkts):
                    why = conforms(m)
                    if why:
                        return {'what': f'op #{i} `{line}`{where} emitted `{m[:160]}`: {why}',
                                'signature': f'grammar:{m.split()[0]}', 'index': i}
            tmsgs = [m for k, _, ms in tpk if k in ('M', 'B') for m in ms]
            # -- ids: node ids issued so far / default groups / literals of the call
            mnode = re.match(r'ok n(-?\d+)', tst)
            if mnode:
                node_ids.add(int(mnode.group(1)))
                if op in ('synth', 'synthp', 'replace', 'group', 'pgroup'):
                    handles_node.append(int(mnode.group(1)))
            # -- run(flag) always emits exactly `/n_run id flag` (whatever the node watcher believes)
            if op == 'run' and tst.startswith('ok'):
                hn = int(line.split()[1][1:])
                if hn < len(handles_node):
                    want = [f'/n_run i{handles_node[hn]} i{1 if line.split()[2] == "T" else 0}']
                    if tmsgs != want:
                        return {'what': f'op #{i} `{line}` must emit {want}, emitted {tmsgs}',
                                'signature': 'node:run', 'index': i}
            # -- map symbols name a bus the client owns NOW and that the call was given
            for m in tmsgs:
                for t in split_tokens(m):
                    ms = re.fullmatch(r's([ac])(\d+)', t)
                    if not ms:
                        continue
                    owners = [int(x[1:]) for x in line.replace('(', ' ').replace(')', ' ').split()
                              if re.fullmatch(r'm\d+', x)]
                    ok = any(h < len(handles_bus) and handles_bus[h] is not None
                             and handles_bus[h][0] == (ms.group(1) == 'a') and handles_bus[h][1] == int(ms.group(2))
                             for h in owners)
                    if not ok:
                        return {'what': f'op #{i} `{line}`: `{m[:120]}` mentions map symbol {t[1:]} but no bus '
                                        f'argument of the call owns that index (bus ledger {handles_bus})',
                                'signature': 'ids:mapsym', 'index': i}
            allowed = node_ids | lits(line)
            for m in tmsgs:
                ts = split_tokens(m)
                for pos in self.NODE_ID_POS.get(ts[0], []):
                    if pos + 1 < len(ts) and is_int(ts[pos + 1]) and int(ts[pos + 1][1:]) not in allowed:
                        return {'what': f'op #{i} `{line}`: `{m[:120]}` mentions node id {ts[pos + 1][1:]} which was '
                                        f'never handed out', 'signature': f'ids:node:{ts[0]}', 'index': i}
            # -- creation uses the object's own id
            if mnode and op in ('synth', 'synthp', 'replace', 'group', 'pgroup'):
                nid = mnode.group(1)
                want = {'group': '/g_new', 'pgroup': '/p_new'}.get(op, '/s_new')
                first = split_tokens(tmsgs[0]) if tmsgs else ['<nothing>']
                pos = 1 if want in ('/g_new', '/p_new') else 2
                if first[0] != want or first[pos] != f'i{nid}':
                    return {'what': f'op #{i} `{line}` created node {nid} but emitted `{tmsgs[:1]}`',
                            'signature': f'create:{op}', 'index': i}
                if op not in ('group', 'pgroup'):
                    pass
                act = line.split()[{'synth': 3, 'synthp': 3, 'group': 2, 'pgroup': 2}.get(op, 0)] if op != 'replace' else None
                if act is not None:
                    got = first[pos + 1]
                    if got != f'i{ACTION_NUM[act]}':
                        return {'what': f'op #{i} `{line}`: add action {act} sent as {got}',
                                'signature': f'create:action:{op}', 'index': i}
            # -- server-wide free: one /g_freeAll per default group of EVERY client (all_users) or the client's own
            if op == 'freedg' and tst.startswith('ok'):
                own = (2 ** 25 - 1) * case['opts'].get('client_id', 0) + 1
                want = ([f'/g_freeAll i{g}' for g in sorted(self.default_groups(case))]
                        if line.split()[1] == 'T' else [f'/g_freeAll i{own}'])
                if tmsgs != want:
                    return {'what': f'op #{i} `{line}` must emit {want}, emitted {tmsgs}',
                            'signature': 'server:free_default_group', 'index': i}
            # -- /b_gen flags: normalize = 1, as_wavetable = 2, clear_first = 4 (command reference)
            if op in ('bgen', 'bsine1', 'bsine2', 'bsine3', 'bcheby') and tst.startswith('ok') and tmsgs:
                w = line.split()
                fl = sum(v for v, t in zip((1, 2, 4), w[-3:]) if t == 'T')
                ts = split_tokens(tmsgs[0])
                if len(ts) < 4 or ts[3] != f'i{fl}':
                    return {'what': f'op #{i} `{line}`: flags normalize/wavetable/clear = {w[-3:]} are {fl} '
                                    f'(1 + 2 + 4), sent `{" ".join(ts[:4])}`', 'signature': 'bgen:flags', 'index': i}
            # -- copy_data: /b_gen dst 'copy' dst_start src src_start num_samples (command reference)
            if op == 'bcopy' and tst.startswith('ok') and tmsgs:
                w = line.split()
                hs, hd = int(w[1][1:]), int(w[2][1:])
                if hs < len(handles_buf) and hd < len(handles_buf) and None not in (handles_buf[hs], handles_buf[hd]):
                    want = f'/b_gen i{handles_buf[hd]} scopy {w[3]} i{handles_buf[hs]} {w[4]} {w[5]}'
                    if tmsgs != [want]:
                        return {'what': f'op #{i} `{line}` must emit `{want}`, emitted {tmsgs}',
                                'signature': 'positions:bcopy', 'index': i}
            # -- release: forced release of `t` seconds is gate = -(t + 1) (EnvGen reference), <= 0: -1, None: 0
            if op == 'release' and tst.startswith('ok') and tmsgs:
                from fractions import Fraction
                t = line.split()[2]
                if t == 'N':
                    want = 'i0'
                else:
                    x = Fraction(t[1:])
                    if x <= 0:
                        want = 'i-1'
                    else:
                        y = -(x + 1)
                        want = f'i{y.numerator}' if t[0] == 'i' else f'f{y.numerator}/{y.denominator}'
                ts = split_tokens(tmsgs[0])
                if ts[0] != '/n_set' or ts[2:] != ['sgate', want]:
                    return {'what': f'op #{i} `{line}`: release must set gate to {want}, sent `{tmsgs[0]}`',
                            'signature': 'release:gate', 'index': i}
            # -- buses: commands are computed from the object's own index
            mbus = re.match(r'ok b(-?\d+)', tst)
            if op in ('abus', 'cbus', 'abusx', 'cbusx'):
                if mbus:
                    handles_bus.append((op.startswith('a'), int(mbus.group(1)), int(line.split()[1][1:])))
                elif tst.startswith(('ok', 'exc')):
                    handles_bus.append(None)
            if op == 'subbus':
                w = line.split()
                hb, off, ch = int(w[1][1:]), int(w[2][1:]), int(w[3][1:])
                par = handles_bus[hb] if hb < len(handles_bus) else None
                if tst.startswith(('ok', 'exc')) and par is not None:
                    inside = 0 <= off and off + ch <= par[2]
                    if mbus and not inside:
                        return {'what': f'op #{i} `{line}`: parent bus has indices [{par[1]}, {par[1] + par[2]}), the '
                                        f'derived bus [{par[1] + off}, {par[1] + off + ch}) reaches outside and was accepted',
                                'signature': 'bus:sub-range', 'index': i}
                    if inside and (not mbus or int(mbus.group(1)) != par[1] + off):
                        return {'what': f'op #{i} `{line}`: a derived bus inside the parent must be accepted at index '
                                        f'{par[1] + off}, got `{tst}`', 'signature': 'bus:sub-range', 'index': i}
                if mbus:
                    handles_bus.append((par[0] if par else False, int(mbus.group(1)), ch))
                elif tst.startswith(('ok', 'exc')):
                    handles_bus.append(None) if tst.startswith('ok') else None
            # -- file commands: argument positions as documented (Server Command Reference / docstrings)
            if op in ('bread', 'bloadlist', 'bwrite', 'ballocread', 'bcue') and tst.startswith('ok'):
                w = line.split()
                hu = int(w[1][1:])
                bn = handles_buf[hu] if hu < len(handles_buf) else None
                fr = frames_buf[hu] if hu < len(frames_buf) else None
                ts = split_tokens(tmsgs[0]) if tmsgs else []
                tf = {'T': 'T', 'F': 'F'}
                if op == 'bread':       # bufnum path fileStart numFrames bufStart leaveOpen {/b_query bufnum}
                    want = ['/b_read', f'i{bn}', 's/tmp/c17in.wav', w[2], w[3], w[4], tf[w[5]], f'{{/b_query i{bn}}}']
                elif op == 'bloadlist':  # the list goes to buffer frame `start`: bufStart = start, whole file
                    want = ['/b_read', f'i{bn}', 'sPATH', 'i0', 'i-1', w[2], 'F', f'{{/b_query i{bn}}}']
                elif op == 'bwrite':    # bufnum path header sample numFrames startFrame leaveOpen
                    want = ['/b_write', f'i{bn}', f's/tmp/c17out.{w[2][1:]}', w[2], 'sint24', w[3], w[4], tf[w[5]]]
                elif op == 'ballocread':  # bufnum path startFrame numFrames
                    want = ['/b_allocRead', f'i{bn}', 's/tmp/c17in.wav', w[2], w[3]]
                else:                   # cue: fill the whole buffer from file frame `start`, leave the file open
                    want = ['/b_read', f'i{bn}', 's/tmp/c17in.wav', w[2], f'i{fr}', 'i0', 'T']
                if bn is not None and ts[:len(want)] != want:
                    return {'what': f'op #{i} `{line}` must emit `{" ".join(want)} …`, emitted `{tmsgs[:1]}`',
                            'signature': f'positions:{op}', 'index': i}
            if op == 'busfree' and tst.startswith('ok'):
                hb = int(line.split()[1][1:])
                if hb < len(handles_bus):
                    handles_bus[hb] = None
            if op in ('cset', 'csetn', 'csetat', 'csetnat', 'cfill', 'cclear', 'cget', 'cgetn', 'cpairs') \
                    and tst.startswith('ok') and tmsgs:
                hb = int(line.split()[1][1:])
                bus = handles_bus[hb] if hb < len(handles_bus) else None
                ts = split_tokens(tmsgs[0])
                off = int(line.split()[2][1:]) if op in ('csetat', 'csetnat') else 0
                if op == 'cpairs':
                    off = int(line.split()[2][1:]) if len(line.split()) > 3 else None
                if bus is None:
                    return {'what': f'op #{i} `{line}`: `{tmsgs[0]}` sent for a bus that owns no index',
                            'signature': f'ids:bus:{ts[0]}', 'index': i}
                if off is not None and len(ts) > 1 and ts[1] != f'i{bus[1] + off}':
                    return {'what': f'op #{i} `{line}`: the bus owns index {bus[1]}, the command starts at {ts[1]}',
                            'signature': f'ids:bus:{ts[0]}', 'index': i}
            if op in ('map', 'mapa', 'mapn', 'mapan') and tst.startswith('ok') and tmsgs:
                ts = split_tokens(tmsgs[0])
                toks = line.split()[2:]
                step = 3 if op in ('mapn', 'mapan') else 2
                for j in range(0, len(toks) - 1, 2):
                    t, pos = toks[j + 1], 2 + (j // 2) * step + 1
                    if t[0] == 'i' and step == 3 and pos + 1 < len(ts) and (ts[pos] != t or ts[pos + 1] != 'i1'):
                        return {'what': f'op #{i} `{line}`: the plain bus number {t[1:]} maps ONE channel, sent as '
                                        f'{ts[pos:pos + 2]}', 'signature': f'ids:bus:{ts[0]}', 'index': i}
                    if t[0] == 'b' and pos < len(ts):
                        bus = handles_bus[int(t[1:])] if int(t[1:]) < len(handles_bus) else None
                        if bus is None or ts[pos] != f'i{bus[1]}' or (step == 3 and ts[pos + 1] != f'i{bus[2]}'):
                            return {'what': f'op #{i} `{line}`: bus argument {t} = {bus} was sent as '
                                            f'{ts[pos:pos + step - 1]}', 'signature': f'ids:bus:{ts[0]}', 'index': i}
            # -- buffers: life cycle against the allocator
            newblocks = parse_blocks(tst)
            before = blocks
            own_before = {h for h in handles_buf if h is not None}
            if newblocks is not None:
                blocks = newblocks
                if op == 'bfree':       # numbers the allocator gave up are no longer owned
                    alloc_owned = {x for x in alloc_owned if in_blocks(x, blocks)}
            if op in ('bufx', 'bufconsx') and newblocks is not None and newblocks != before:
                return {'what': f'op #{i} `{line}`: user-managed buffer numbers, yet the allocator went from '
                                f'{before} to {newblocks}', 'signature': 'buffer:explicit-consumes', 'index': i}
            mbuf = re.match(r'ok u([\d,]+)', tst)
            if mbuf and op in ('buf', 'bufnc', 'bufx', 'bufna', 'bufcons', 'bufconsx'):
                ids = [int(x) for x in mbuf.group(1).split(',')]
                handles_buf.extend(ids)
                frames_buf.extend([int(line.split()[2 if op in ('bufcons', 'bufconsx') else 1][1:])] * len(ids))
                if op != 'bufna':
                    got = [split_tokens(m) for m in tmsgs]
                    if [g[:2] for g in got] != [['/b_alloc', f'i{x}'] for x in ids]:
                        return {'what': f'op #{i} `{line}` owns buffer ids {ids} but emitted {tmsgs}',
                                'signature': f'create:{op}', 'index': i}
                if op in ('buf', 'bufnc', 'bufna', 'bufcons'):
                    alloc_owned.update(ids)
                if op not in ('bufx', 'bufconsx') and not all(in_blocks(x, blocks) for x in ids):
                    return {'what': f'op #{i} `{line}`: ids {ids} are not held by the allocator {blocks}',
                            'signature': 'buffer:alloc-ledger', 'index': i}
                if ids != list(range(ids[0], ids[0] + len(ids))):
                    return {'what': f'op #{i} `{line}`: ids {ids} not consecutive', 'signature': 'buffer:consecutive'}
            elif op in ('buf', 'bufnc', 'bufx', 'bufna') and tst.startswith(('ok', 'exc')) and not mbuf:
                handles_buf.append(None)
                frames_buf.append(None)
            if op == 'bfree' and tst.startswith('exc'):
                h = int(line.split()[1][1:])
                if h < len(handles_buf) and handles_buf[h] is not None:
                    return {'what': f'op #{i} `{line}`: the buffer owns number {handles_buf[h]}; free() raised '
                                    f'{tst.split()[0][4:]} instead of sending /b_free and giving the number back',
                            'signature': 'free:raises', 'index': i}
            if op == 'bfree' and tst.startswith('ok'):
                h = int(line.split()[1][1:])
                if h < len(handles_buf):
                    b = handles_buf[h]
                    frees = [split_tokens(m) for m in tmsgs if m.startswith('/b_free')]
                    if b is None:
                        if tmsgs:
                            return {'what': f'op #{i} `{line}`: the buffer was already freed, yet `{tmsgs[0]}` is sent',
                                    'signature': 'free:double', 'index': i}
                    else:
                        if len(frees) != 1 or frees[0][1] != f'i{b}' or len(tmsgs) != 1:
                            return {'what': f'op #{i} `{line}`: buffer {b} freed, emitted {tmsgs}',
                                    'signature': 'free:once', 'index': i}
                        if any(a == b for a, _ in blocks):
                            return {'what': f'op #{i} `{line}`: id {b} still held by the allocator {blocks}',
                                    'signature': 'free:returned', 'index': i}
                        handles_buf[h] = None
            if op == 'bfreeall' and tst.startswith('ok'):
                owned = sorted(x for a, n in before for x in range(a, a + n))
                freed = sorted(int(split_tokens(m)[1][1:]) for m in tmsgs if m.startswith('/b_free')
                               and is_int(split_tokens(m)[1]))
                if not set(freed) <= alloc_owned:
                    return {'what': f'op #{i} `{line}`: /b_free sent for {sorted(set(freed) - alloc_owned)}, numbers no '
                                    f'live Buffer took from the allocator (live: {sorted(alloc_owned)})',
                            'signature': 'free_all:bogus', 'index': i}
                alloc_owned.clear()
                if freed != owned or len(tmsgs) != len(owned):
                    return {'what': f'op #{i} `{line}`: the allocator held ids {owned}, /b_free was sent for {freed}',
                            'signature': 'free_all:ids', 'index': i}
                if blocks:
                    return {'what': f'op #{i} `{line}`: allocator still holds {blocks}', 'signature': 'free_all:returned'}
                if len([k for k in tpk if k[0] in ('M', 'B')]) > 1:
                    return {'what': f'op #{i} `{line}`: sent as {len(tpk)} packets', 'signature': 'free_all:packets'}
            if op.startswith('b') and op not in ('bind', 'busfree', 'bufx', 'bufconsx', 'bcopy') and tst.startswith('ok'):
                for m in tmsgs:
                    ts = split_tokens(m)
                    if ts[0].startswith('/b_') and is_int(ts[1]):
                        x = int(ts[1][1:])
                        if not (in_blocks(x, blocks) or in_blocks(x, before) or x in lits(line)
                                or x in own_before or x in [h for h in handles_buf if h is not None]):
                            return {'what': f'op #{i} `{line}`: `{m[:100]}` mentions buffer {x}, not an id of the client',
                                    'signature': f'ids:buffer:{ts[0]}', 'index': i}
            # -- bind: nothing leaks, one bundle in issue order at the outermost exit, nothing if it raises
            if not aligned:
                continue
            if line == 'bind':
                if pk:
                    return {'what': f'op #{i} entering a bind block sent {pk}', 'signature': 'bind:leak', 'index': i}
                if st.startswith('ok'):
                    if depth == 0:
                        block_msgs = []
                    depth += 1
                continue
            if line == 'sync':
                if st.startswith('skipped'):
                    continue
                if depth > 0:
                    want = ([('B', lat, block_msgs)] if block_msgs else []) + [('S', None, [])]
                    clumped = self.clumped_ok(pk[:-1], block_msgs, lat) if pk and pk[-1] == ('S', None, []) else False
                    if pk != want and not clumped:
                        return {'what': f'op #{i}: sync inside a bind block after {block_msgs} were issued '
                                        f'(unbound twin); the wire got {pk}, expected one bundle at latency {lat} '
                                        f'with exactly these messages in this order, then the sync',
                                'signature': 'bind:sync', 'index': i}
                    block_msgs = []
                elif pk != [('S', None, [])]:
                    return {'what': f'op #{i}: sync outside a block sent {pk}', 'signature': 'bind:sync', 'index': i}
                continue
            if line == 'end':
                if st.startswith('ok') and depth > 0:
                    depth -= 1
                    if depth > 0:
                        if pk:
                            return {'what': f'op #{i}: leaving an inner bind block sent {pk}',
                                    'signature': 'bind:leak', 'index': i}
                    else:
                        want = [('B', lat, block_msgs)] if block_msgs else []
                        if pk != want and not self.clumped_ok(pk, block_msgs, lat):
                            got = [m for k, _, ms in pk if k == 'B' for m in ms]
                            if len(block_msgs) > 12:
                                k = next((j for j, (a, b) in enumerate(zip(block_msgs, got)) if a != b),
                                         min(len(block_msgs), len(got)))
                                return {'what': f'op #{i}: the bind block issued {len(block_msgs)} messages (unbound '
                                                f'twin); on exit the wire got {len(pk)} packets with {len(got)} messages; '
                                                f'first difference at message #{k}: issued '
                                                f'`{(block_msgs[k] if k < len(block_msgs) else None) and block_msgs[k][:80]}`, '
                                                f'sent `{(got[k] if k < len(got) else None) and got[k][:80]}`; every issued '
                                                f'message must be sent once, in order, in bundles within the datagram size',
                                        'signature': 'bind:bundle', 'index': i}
                            short = lambda ms: [m if len(m) <= 90 else m[:90] + '…' for m in ms]
                            return {'what': f'op #{i}: the bind block issued {short(block_msgs)} (unbound twin); on exit the '
                                            f'wire got {[(k, t, short(ms)) for k, t, ms in pk]}, expected one bundle at latency {lat} '
                                            f'(or, above the datagram size, successive bundles) with exactly these '
                                            f'messages in this order', 'signature': 'bind:bundle', 'index': i}
                elif st.startswith(('raised', 'exc')):
                    depth = 0
                    if pk:
                        return {'what': f'op #{i}: the bind block raised, yet {pk} was sent',
                                'signature': 'bind:raised-sent', 'index': i}
                continue
            if depth > 0:
                if pk:
                    return {'what': f'op #{i} `{line}` inside a bind block sent {pk} immediately',
                            'signature': 'bind:leak', 'index': i}
                if st != tst:
                    aligned = False
                    continue
                block_msgs = block_msgs + tmsgs
                if st.startswith(('exc', 'raise')):
                    pass
            elif st.startswith('skipped'):
                pass
            else:
                if pk != tpk or st != tst:
                    return {'what': f'op #{i} `{line}` outside any bind block: run {st} {pk} vs twin {tst} {tpk}',
                            'signature': 'bind:outside-differs', 'index': i}
        return None

    # ---- evidence bits -----------------------------------------------------------------------
    def nontrivial(self, case, out):
        ops = case['ops']
        sent_bundle = any(l.startswith('ok | B') for o, l in zip(ops, out['wire']) if o == 'end')
        return sent_bundle or any(o.startswith(('bfree', 'bufcons')) for o in ops) or any('d(' in o or '( (' in o for o in ops)

    def histogram(self, cases, outs):
        h = {'cases': len(cases)}

        def inc(k, v=1):
            h[k] = h.get(k, 0) + v
        for c, o in zip(cases, outs):
            inc('ops', len(c['ops']))
            for line, l in zip(c['ops'], o['wire']):
                op = line.split()[0]
                st = l.split(' |')[0].split()[0] if l else '?'
                inc(f'op:{op}')
                if st.startswith(('exc', 'raise', 'skip')):
                    inc(f'status:{st.split(":")[0]}')
                if op == 'end':
                    inc('end:' + ('bundle' if ' | B' in l else st))
            inc(f'client:{c["opts"].get("client_id", 0)}')
        h['max_ops'] = max((len(c['ops']) for c in cases), default=0)
        return h

    def shrink(self, case, fails):
        ops = common.shrink_list(case['ops'], lambda o: fails(dict(case, ops=o)), max_steps=150)
        return dict(case, ops=ops)

    def extra_static(self):
        """every method that sends must be in the model or listed as unmodelled"""
        out = []
        try:
            found = sending_methods(common.REPO)
        except (OSError, SyntaxError) as e:
            return [{'what': f'cannot read client sources: {e}', 'signature': 'c17:sources', 'case': None}]
        self.notes.append('sending methods outside the model (listed, not claimed): ' +
                          '; '.join(f'{f}: {", ".join(sorted(v))}' for f, v in UNMODELLED.items() if v))
        for f, names in found.items():
            unknown = names - set(MODELLED[f]) - UNMODELLED[f]
            gone = (set(MODELLED[f])) - names
            if unknown:
                self.notes.append(f'{f}: sending methods neither modelled nor listed: {sorted(unknown)}')
            if gone:
                self.notes.append(f'{f}: modelled methods that no longer send: {sorted(gone)}')
        return out
