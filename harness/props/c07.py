"""C07 — Bundles are stamped with logical time plus latency; scores are ordered."""
import struct
import sys
from fractions import Fraction as Fr

from harness import common

sys.path.insert(0, str(common.VERIF / 'tools'))
import osc10  # noqa: E402   independent OSC 1.0 reader


def F(x):
    return Fr(x)


def fr(x):
    x = Fr(x)
    return str(x.numerator) if x.denominator == 1 else f'{x.numerator}/{x.denominator}'


def f32bits(fr_):
    return struct.unpack('>I', struct.pack('>f', fr_.numerator / fr_.denominator))[0]


def tok(j, time_pos=False):
    """driver token(s) of a JSON value (C06 prefix notation); `time_pos`: value is a bundle time"""
    if j is None:
        return 'N'
    if j is True:
        return 'T'
    if j is False:
        return 'F'
    if isinstance(j, int):
        return f'I{j}'
    if isinstance(j, list):
        return ' '.join([f'L{len(j)}'] + [tok(x) for x in j])
    if 'f' in j:
        v = Fr(j['f'])
        return f'D{v.numerator}/{v.denominator}:{0 if time_pos else f32bits(v)}'
    return 'S' + j['s'].encode().hex()


def is_msg(l):
    return isinstance(l, list) and l and isinstance(l[0], dict) and 's' in l[0]


def tok_any(j):
    """token(s) of whatever the code under test put into the score (never raises)"""
    try:
        if isinstance(j, list):
            return ' '.join([f'L{len(j)}'] + [tok_any(x) for x in j])
        if j is None or isinstance(j, (bool, int)) or (isinstance(j, dict) and ('f' in j or 's' in j)):
            return tok(j)
    except Exception:
        pass
    return '?' + repr(j)[:40].replace(' ', '_')


def tok_score_bundle(b):
    """list form of a score entry: times are printed as D<p/q>:0 whatever their Python type;
    anything unexpected (a None time, an odd object) is printed as it is, never an exception"""
    if not isinstance(b, list) or not b:
        return tok_any(b)
    t = b[0]
    if isinstance(t, dict) and 'f' in t:
        head = f'D{Fr(t["f"]).numerator}/{Fr(t["f"]).denominator}:0'
    elif isinstance(t, int) and not isinstance(t, bool):
        head = f'D{t}/1:0'
    else:
        head = 'TIME:' + tok_any(t)
    parts = [f'L{len(b)}', head]
    for e in b[1:]:
        parts.append(tok_any(e) if is_msg(e) or not isinstance(e, list) else tok_score_bundle(e))
    return ' '.join(parts)


def lat(j):
    """latency JSON -> Fraction or None"""
    if j is None:
        return None
    if isinstance(j, dict):
        return Fr(j['f'])
    return Fr(int(j))


TWO32 = 1 << 32
EPOCH = Fr('1700000000.625')                   # harness/impl/c07.py boots the virtual clock with this wall-clock time
NTP_OFFSET = int((EPOCH + 2208988800) * TWO32)   # 1900 -> 1970, in timetag units: what every RT timetag is relative to


class Check(common.Check):
    PROP = 'C07'
    LEAN_TARGETS = ['Sc3Verif.C07.Props']
    LEAN_DIRS = ['Sc3Verif/C07']
    THEOREMS = ['Sc3Verif.C07.' + t for t in (
        'send_time_is_prefix_sum', 'stamp_is_logical_plus_latency', 'stamp_exact_on_grid', 'immediately_if',
        'immediately_only_if', 'stamp_monotone', 'recv_time_inverse', 'recv_time_resolution',
        'nested_not_before_parent', 'nested_relative_same_instant', 'rt_bundle_layout', 'nrt_immediately',
        'nrt_time_is_logical_plus_latency', 'nrt_stamp_of_time', 'reachable_ok', 'score_sorted',
        'score_sorted_stable', 'score_entries_exact', 'entry_timetag',
        'score_closes_with_tail_and_raw_is_concat', 'score_closes_with_tail', 'duration_is_latest_time')]
    N_QUICK = 250
    N_THOROUGH = 5000
    ASSUMPTIONS = ['times are dyadic rationals (exact in binary64): non-dyadic times differ by float rounding in the '
                   'last timetag bit, outside the claim',
                   'C06 byte encoder model (Sc3Verif.C06.Model) for message/bundle bytes',
                   'NRT execution order of the sends is taken from the run (the NRT scheduler is C05/C10), the '
                   'send times are computed from the script']

    def rule(self):
        return ('programs of 1-4 routines on SystemClock/TempoClock (tempo 1/2..4) plus main-thread sends; steps wait / '
                'send_msg / send_bundle (latency None, negative, 0, int, dyadic; nested bundles to depth 3, valid and '
                'earlier-than-parent) / the same bundle object sent twice; run in RT under virtual time with lateness '
                '0..2 s and in NRT with tailtime. Non-trivial: a routine sends a stamped bundle after a wait')

    # ---- generator -----------------------------------------------------------------------
    def gen_msg(self, G, depth=0):
        addr = '/' + G.choice(['a', 'b', 'cmd', 's_new', 'n_set', 'x/y'])
        args = []
        for _ in range(G.choice([0, 1, 1, 2, 3])):
            r = G.random()
            if r < 0.4:
                args.append(G.choice([0, 1, -1, 7, 1000, 2147483647, -2147483648]))
            elif r < 0.7:
                args.append({'f': fr(Fr(G.randint(-64, 64), G.choice([1, 2, 8])))})
            elif r < 0.92 or depth > 0:
                args.append({'s': G.choice(['x', 'freq', 'default', ''])})
            else:
                args.append(self.gen_msg(G, depth + 1))      # completion message
        return [{'s': addr}] + args

    def gen_lat(self, G, atleast=None):
        if atleast is not None and G.random() < 0.8:
            d = G.choice([Fr(0), Fr(0), Fr(1, 8), Fr(1, 4), Fr(1)])
            v = atleast + d
            if v.denominator == 1 and G.random() < 0.3:
                return int(v)
            return {'f': fr(v)}
        return G.choice([None, {'f': '-1'}, {'f': '-1/4'}, 0, {'f': '0'}, 1, 2, {'f': '1/8'}, {'f': '1/4'},
                         {'f': '1/2'}, {'f': '1'}, {'f': '3/2'}, {'f': '5'},
                         {'f': '1/4294967296'}, {'f': '4294967299/4294967296'},      # one / three timetag units
                         {'f': '1/1099511627776'}, {'f': '1099511627777/1099511627776'},    # below the resolution
                         {'f': '3/17179869184'}, {'f': '17179869187/17179869184'}])          # 3/4 of a unit

    def gen_bundle(self, G, depth=0, parent=None, deep=False, imm=False):
        # under an immediate (None) parent a nested bundle may be immediate too: None at every depth
        L = None if (imm and G.random() < 0.5) else self.gen_lat(G, parent)
        els = []
        for _ in range(G.choice([1, 1, 2, 3])):
            if depth < 2 and G.random() < (0.6 if deep else 0.25):
                pl = lat(L)
                els.append(self.gen_bundle(G, depth + 1, pl if (pl is not None and pl >= 0) else Fr(0), deep,
                                           imm=L is None))
            else:
                els.append(self.gen_msg(G))
        return [L] + els

    def gen_bind(self, G):
        """`with server.bind():` at server.latency None / 0 / 0.0 / small / usual"""
        L = G.choice([None, 0, 0, {'f': '0'}, {'f': '0'}, {'f': '1/1024'}, {'f': '1/4'}, {'f': '1/8'}, 1])
        msgs = [self.gen_msg(G, 1) for _ in range(G.choice([1, 1, 2, 3]))]
        return ['bind', L, msgs, G.choice([-1, -1, 0, len(msgs) - 1])]

    def gen_sync(self, G):
        """sync(latency, elements) on the NetAddr or through the bundling proxy of server.bind()"""
        L = G.choice([None, 0, {'f': '0'}, {'f': '1/8'}, {'f': '1/4'}, {'f': '1'}, {'f': '-1'}])
        els = [self.gen_msg(G, 1) for _ in range(G.choice([0, 1, 2]))]
        return ['sync', G.choice(['addr', 'bind', 'bind']), L, els or None]

    def gen_clump(self, G):
        """a bundle over the UDP limit: `send_clumped_bundles` (every latency kind)"""
        L = G.choice([None, None, 0, {'f': '0'}, {'f': '1/4'}, {'f': '1'}, {'f': '-1'}])
        msg = [{'s': '/n_set'}, 1000, {'s': 'freq'}, {'f': '440'}]
        return ['clump', L, G.choice([2400, 3000, 5000, 40]), msg]

    def gen_one(self, G):
        c = {'tempo': fr(G.choice([Fr(1, 2), Fr(1), Fr(2), Fr(4)])),
             'late': fr(G.choice([Fr(0), Fr(1, 1024), Fr(1, 64), Fr(1, 4), Fr(2)])),
             'tail': fr(G.choice([Fr(0), Fr(1, 8), Fr(1, 2), Fr(3)])),
             'main': [], 'routines': []}
        for _ in range(G.choice([0, 0, 1, 2, 3])):
            r = G.random()
            c['main'].append(['b', self.gen_bundle(G)] if r < 0.6 else self.gen_bind(G) if r < 0.75
                             else ['m', self.gen_msg(G)])
        for _ in range(G.choice([1, 1, 2, 3, 4])):
            is_fn = G.random() < 0.25
            steps = []
            for _ in range(G.choice([1, 2, 3, 5, 8])):
                r = G.random()
                if r < 0.35:
                    steps.append(['w', fr(G.choice([Fr(0), Fr(1, 8), Fr(1, 8), Fr(1, 4), Fr(1, 2), Fr(1), Fr(3, 8)]))])
                elif r < 0.70:
                    steps.append(['b', self.gen_bundle(G)])
                elif r < 0.78:
                    steps.append(self.gen_bind(G))
                elif r < 0.80:
                    steps.append(self.gen_sync(G) if (G.random() < 0.7 and not is_fn) else self.gen_clump(G))
                elif r < 0.84:
                    # send_msg with a bundle-shaped completion message (numeric latency)
                    L = G.choice([{'f': '1/4'}, {'f': '1/8'}, {'f': '0'}, 1, {'f': '1/1024'}])
                    steps.append(['mb', [{'s': '/d_recv'}, G.choice([0, 7]), [L, self.gen_msg(G, 1)]]])
                elif r < 0.90:
                    # the same bundle object sent, a wait, sent again
                    b = self.gen_bundle(G, deep=True)
                    steps.append(['B', b])
                    steps.append(['w', fr(G.choice([Fr(1, 8), Fr(1, 2), Fr(1)]))])
                    steps.append(['B', None])
                else:
                    steps.append(['m', self.gen_msg(G)])
            c['routines'].append({'fn': is_fn, 'clock': G.choice('sstaa'), 'start': fr(G.choice([Fr(0), Fr(1, 8), Fr(1, 4), Fr(1), Fr(5, 4)])),
                                  'steps': steps})
        return c

    def gen(self, rng, n):
        return [self.gen_one(rng) for _ in range(n)]

    # ---- runners ---------------------------------------------------------------------------
    RT_CHUNK = 40      # virtual time grows by 80 s per case; below 4096 s sums with 2^-40 s stay exact

    def impl(self, cases):
        rt = []
        for i in range(0, len(cases), self.RT_CHUNK):
            part, err = common.run_impl('c07', 'run_rt', {'cases': cases[i:i + self.RT_CHUNK]})
            if part is None:
                self.notes.append(err)
                return None
            rt.extend(part)
        nrt, err = common.run_impl('c07', 'run_nrt', {'cases': cases})
        if nrt is None:
            self.notes.append(err)
            return None
        return [{'rt': a, 'nrt': b} for a, b in zip(rt, nrt)]

    @staticmethod
    def send_value(case, who, k):
        """(kind, value) of the send with index k of routine `who` ('B' with None = previous 'B')"""
        steps = case['main'] if who == 'main' else case['routines'][who]['steps']
        kind, val = steps[k][0], steps[k][1]
        if kind == 'mb':                 # send_msg whose last argument is a bundle-shaped completion message
            return 'm', val
        if kind == 'bind':
            # the proxy sends ONE bundle [server.latency, msg, ...] when the `with` block ends
            return 'b', [steps[k][1]] + list(steps[k][2])
        if kind == 'B':
            if val is None:
                j = k - 1
                while not (steps[j][0] == 'B' and steps[j][1] is not None):
                    j -= 1
                val = steps[j][1]
            kind = 'b'
        return kind, val

    SYNC_LAT = {'f': '1/4'}                  # server.latency used by the `sync` steps that go through bind()
    PRE_MSG = [{'s': '/pre'}, 1]

    @staticmethod
    def step(case, who, k):
        return (case['main'] if who == 'main' else case['routines'][who]['steps'])[k]

    @staticmethod
    def app_times(case, o, who):
        """AppClock (RT) re-schedules from the physical present: the logical time of the j-th segment of
        a task is (physical time at the end of segment j-1) + the delta it yielded there; the physical
        times are the environment's choice (wake-up lateness) and are read from the run."""
        r = case['routines'][who]
        segs = [x for x in o['rt'].get('segs', []) if x['who'] == who]
        waits = [F(x[1]) for x in r['steps'] if x[0] == 'w']
        exp = [F(r['start'])]
        for j, w_ in enumerate(waits):
            if j < len(segs):
                exp.append(F(segs[j]['now']) + w_)
        return exp

    def rt_base(self, case, o, who, k):
        """logical time (relative to t0) of step k of task `who` in the RT run, from the script"""
        if who == 'main':
            return Fr(0)
        r = case['routines'][who]
        if r['clock'] == 'a':
            j = sum(1 for x in r['steps'][:k] if x[0] == 'w')
            exp = self.app_times(case, o, who)
            return exp[j] if j < len(exp) else exp[-1]
        dur = 1 / F(case['tempo']) if r['clock'] == 't' else 1
        return (F(r['start']) + sum(F(x[1]) for x in r['steps'][:k] if x[0] == 'w')) * dur

    def expand(self, case, o, rec, plan_counts=None):
        """the bundles / messages a step denotes, in order: [(kind, value)]"""
        st = self.step(case, rec['who'], rec['k'])
        if st[0] == 'clump':
            L, n, msg = st[1], st[2], st[3]
            counts = plan_counts or [n]
            secs_abs = float(F(o['rt']['t0']) + self.rt_base(case, o, rec['who'], rec['k']))
            out, t = [], (None if L is None else float(lat(L)))
            for cnt in counts:
                if len(counts) > 1 and t is not None:
                    t += 1e-9                     # "one nanosecond later each" (a binary64 addition)
                if t is None:
                    Lk = None
                elif t < 0:
                    Lk = {'f': fr(Fr(t))}
                else:                             # the code adds the send time in binary64, then truncates
                    Lk = {'f': fr(Fr(t + secs_abs) - Fr(secs_abs))}
                out.append(('b', [Lk] + [msg] * cnt))
            return out
        if st[0] == 'sync':
            via, L, elements = st[1], st[2], st[3]
            last = rec['out'].split(',')[-1]
            sid = int.from_bytes(bytes.fromhex(last[-8:]), 'big', signed=True) if not last.startswith(('EXC', 'sent')) else 0
            b = [L] + list(elements or []) + [[{'s': '/sync'}, sid]]
            return ([('b', [self.SYNC_LAT, self.PRE_MSG])] if via == 'bind' else []) + [('b', b)]
        return [self.send_value(case, rec['who'], rec['k'])]

    def run_model(self, cases, impl_outs):
        """The Lean driver computes the send times from the script and every datagram / the score;
        the run only provides t0, the OSC offset and (NRT) the execution order of the sends."""
        lines, plan = [], []
        for c, o in zip(cases, impl_outs):
            p = {'times': {}, 'rt': [], 'rcv': [], 'nrt': []}
            t0, off = o['rt']['t0'], NTP_OFFSET
            tempo = Fr(c['tempo'])
            for mode, base in (('rt', t0), ('nrt', '0')):
                for rid, r in enumerate(c['routines']):
                    dur = fr(1 / tempo) if r['clock'] == 't' else '1'
                    steps = ' '.join('W' + s[1] if s[0] == 'w' else 'S' for s in r['steps'])
                    p['times'][(mode, rid)] = len(lines)
                    lines.append(f'times {base} {dur} {r["start"]} {steps}')
            p['plans'] = {}
            for rec in o['rt']['sends']:
                st = self.step(c, rec['who'], rec['k'])
                if st[0] == 'clump':
                    p['plans'][(rec['who'], rec['k'])] = len(lines)
                    lines.append('plan ' + tok([st[3]] * st[2]))
            plan.append(p)
        head, err = common.run_driver('Sc3Verif/C07/Driver.lean', lines)
        if head is None:
            raise RuntimeError('driver failed: ' + err)
        # second pass: the sends, with the model's own times
        lines2 = []
        for c, o, p in zip(cases, impl_outs, plan):
            t0, off = o['rt']['t0'], NTP_OFFSET

            def secs(mode, who, k):
                if who == 'main':
                    return t0 if mode == 'rt' else '0'
                if mode == 'rt' and c['routines'][who]['clock'] == 'a':
                    return fr(F(t0) + self.rt_base(c, o, who, k))       # drifting clock: see app_times
                steps = c['routines'][who]['steps']
                idx = sum(1 for s in steps[:k] if s[0] != 'w')      # (every non-wait step is an 'S' of `times`)
                return head[p['times'][(mode, who)]].split()[1:][idx]
            for rec in o['rt']['sends']:
                counts = None
                if (rec['who'], rec['k']) in p['plans']:
                    ans = head[p['plans'][(rec['who'], rec['k'])]].split()
                    counts = [int(x) for x in ans[1:]] if ans[0] == 'P' else None
                idxs = []
                for kind, val in self.expand(c, o, rec, counts):
                    idxs.append(len(lines2))
                    lines2.append(f'rt{kind} {secs("rt", rec["who"], rec["k"])} {off} {tok(val)}')
                p['rt'].append(idxs)
            for rec in o['rt']['sends']:
                if rec['out'].startswith('EXC') or rec['out'] == 'sent' or ',' in rec['out']:
                    p['rcv'].append(None)
                else:
                    p['rcv'].append(len(lines2))
                    at = fr(F(t0) + F(o['rt']['recv_at']))
                    lines2.append(f'rcv {off} {at} {rec["out"]}')
            p['nrt0'] = len(lines2)
            lines2.append('nrt-init')
            for rec in o['nrt']['sends']:
                kind, val = self.send_value(c, rec['who'], rec['k'])
                if kind == 'm':
                    val = [{'f': '0'}, val]           # send_msg in NRT = bundle at the current time
                inr = 0 if (rec['who'] == 'main' or c['routines'][rec['who']].get('fn')) else 1
                p['nrt'].append(len(lines2))
                lines2.append(f'nrt-add {inr} {secs("nrt", rec["who"], rec["k"])} {tok(val)}')
            # process(tail): finish on the main thread whose time is that of the last executed task
            ends = [F('0')]
            for rid, r in enumerate(c['routines']):
                tempo = F(c['tempo'])
                dur = 1 / tempo if r['clock'] == 't' else 1
                ends.append((F(r['start']) + sum(F(s[1]) for s in r['steps'] if s[0] == 'w')) * dur)
            p['end'] = max(ends)
            p['fin'] = len(lines2)
            lines2.append(f'nrt-fin 0 {fr(p["end"])} {c["tail"]}')
        body, err = common.run_driver('Sc3Verif/C07/Driver.lean', lines2)
        if body is None:
            raise RuntimeError('driver failed: ' + err)
        res = []
        for c, o, p in zip(cases, impl_outs, plan):
            t0 = F(o['rt']['t0'])
            m = {'rt': [], 'rcv': [], 'nrt_sends': [], 'nrt': None}
            for idxs in p['rt']:
                answers = [body[i] for i in idxs]
                errs = [a for a in answers if not a.startswith('ok ')]
                m['rt'].append(errs[0] if errs else 'ok ' + ','.join(a[3:] for a in answers))
            for i in p['rcv']:
                if i is None:
                    m['rcv'].append(None)
                else:
                    m['rcv'].append([fr(F(x) - t0) for x in body[i].split()[1:]])
            m['nrt_sends'] = [body[i] for i in p['nrt']]
            m['nrt'] = body[p['fin']]
            res.append(m)
        return res

    @staticmethod
    def view(o):
        """the implementation's output in the driver's vocabulary"""
        v = {'rt': [], 'rcv': o['rt']['recv'], 'nrt_sends': [], 'nrt': None}
        for rec in o['rt']['sends']:
            out = rec['out']
            v['rt'].append('err ' + out[4:] if out.startswith('EXC') else 'ok ' + out)
        for rec in o['nrt']['sends']:
            out = rec['out']
            v['nrt_sends'].append('err ' + out[4:] if out.startswith('EXC') else 'ok')
        n = o['nrt']
        if 'exc' in n:
            v['nrt'] = 'exc ' + n['exc']
        else:
            v['nrt'] = (' '.join([f'L{len(n["list"])}'] + [tok_score_bundle(b) for b in n['list']]) + ' | ' + n['raw']
                        + ' | ' + n['duration'])
        return v

    def run(self):                      # the model needs the run's parameters: cache impl outputs
        orig_impl, orig_model = self.impl, self.model
        cache = {}

        def impl(cases):
            outs = orig_impl(cases)
            if outs is not None:
                for c, o in zip(cases, outs):
                    cache[common.canon(c)] = o
            return outs

        def model(cases):
            outs = [cache[common.canon(c)] for c in cases]
            return self.run_model(cases, outs)
        self.impl, self.model = impl, model
        try:
            return super().run()
        finally:
            self.impl, self.model = orig_impl, orig_model

    def compare(self, case, impl_out, model_out):
        try:
            v = self.view(impl_out)
        except Exception as e:
            return {'impl': f'uninterpretable output: {type(e).__name__}: {e}'}
        if common.canon(v) == common.canon(model_out):
            return None
        for k in v:
            if common.canon(v[k]) != common.canon(model_out[k]):
                a, b = v[k], model_out[k]
                if isinstance(a, list) and isinstance(b, list):
                    for i, (x, y) in enumerate(zip(a, b)):
                        if x != y:
                            return {'part': k, 'index': i, 'impl': str(x)[:600], 'model': str(y)[:600]}
                return {'part': k, 'impl': str(a)[:900], 'model': str(b)[:900]}
        return {'impl': 'differs'}

    # ---- oracle (independent of the Lean model) ----------------------------------------------
    @staticmethod
    def logical(case, who, k, t0):
        if who == 'main':
            return t0
        r = case['routines'][who]
        dur = 1 / F(case['tempo']) if r['clock'] == 't' else 1
        return t0 + (F(r['start']) + sum(F(s[1]) for s in r['steps'][:k] if s[0] == 'w')) * dur

    @staticmethod
    def valid(b):
        """does the bundle respect 'nested not before parent'?"""
        L = lat(b[0])
        for e in b[1:]:
            if is_msg(e):
                continue
            Ls = lat(e[0])
            if L is not None and (Ls is None or L > Ls):
                return False
            if not Check.valid(e):
                return False
        return True

    def check_rt_packet(self, pkt, b, base, off, where):
        """parsed datagram vs the bundle the program sent at logical time `base`"""
        if pkt[0] != 'bundle' or len(pkt[2]) != len(b) - 1:
            return f'{where}: datagram is not the bundle that was sent'
        L = lat(b[0])
        want = 1 if (L is None or L < 0) else int((L + base) * TWO32) + off
        if pkt[1] != want:
            got = Fr(pkt[1] - off, TWO32)
            return (f'{where}: bundle with latency {b[0]} sent at logical time {fr(base)} carries timetag '
                    f'{pkt[1]} (= {fr(got)} s), expected {want}')
        for e, pe in zip(b[1:], pkt[2]):
            if not is_msg(e):
                v = self.check_rt_packet(pe, e, base, off, where + '/nested')
                if v:
                    return v
        return None

    def check_multi(self, case, out, rec, st, base, off, where):
        """steps that give several datagrams: an oversize bundle (clumps), sync(latency, elements)"""
        if rec['out'].startswith('EXC') or rec['out'] == 'sent':
            return {'what': f'{where}: {st[0]} step gave {rec["out"]}', 'signature': 'c07:refused'}
        try:
            pkts = [osc10.read_packet(bytes.fromhex(h)) for h in rec['out'].split(',')]
        except osc10.Osc10Error as e:
            return {'what': f'{where}: datagram is not OSC 1.0: {e}', 'signature': 'c07:osc10'}
        if st[0] == 'clump':
            L, n, msg = lat(st[1]), st[2], st[3]
            if any(p[0] != 'bundle' for p in pkts) or sum(len(p[2]) for p in pkts) != n:
                return {'what': f'{where}: the clumps do not carry the {n} elements of the bundle', 'signature': 'c07:clump'}
            for j, p in enumerate(pkts):
                if L is None or L < 0:
                    if p[1] != 1:
                        return {'what': f'{where}: clump {j} of a bundle with latency {st[1]} (immediately) carries '
                                        f'timetag {p[1]} = {fr(Fr(p[1] - off, TWO32))} s', 'signature': 'c07:clump-stamp'}
                else:
                    ns = (j + 1) if len(pkts) > 1 else 0          # one nanosecond later each (documented)
                    want = int((base + L + ns * Fr(1, 10 ** 9)) * TWO32) + off
                    if abs(p[1] - want) > 2:
                        return {'what': f'{where}: clump {j} of a bundle with latency {st[1]} sent at logical time '
                                        f'{fr(base)} carries timetag {p[1]}, expected {want} (+-2)',
                                'signature': 'c07:clump-stamp'}
            return None
        exp = self.expand(case, out, rec)
        if len(exp) != len(pkts):
            return {'what': f'{where}: sync gave {len(pkts)} datagrams, expected {len(exp)}', 'signature': 'c07:sync'}
        for (kind, b), p in zip(exp, pkts):
            v = self.check_rt_packet(p, b, base, off, where + '/sync')
            if v:
                return {'what': v, 'signature': 'c07:rt-stamp'}
        last = pkts[-1][2][-1]
        if last[0] != 'msg' or last[1] != b'/sync':
            return {'what': f'{where}: the bundle of sync() does not end with /sync', 'signature': 'c07:sync'}
        return None

    def expected_entry(self, b, base, in_routine):
        L = lat(b[0])
        t = (Fr(0) if (L is None or L < 0) else L) + (base if in_routine else 0)
        out = [t]
        for e in b[1:]:
            out.append(e if is_msg(e) else self.expected_entry(e, base, in_routine))
        return out

    @staticmethod
    def same_entry(exp, got):
        """expected (times Fractions, messages JSON) vs score.list entry (JSON)"""
        if len(exp) != len(got):
            return False
        if not isinstance(got, list) or not got:
            return False
        t = got[0]
        if isinstance(t, dict) and 'f' in t:
            tv = Fr(t['f'])
        elif isinstance(t, int) and not isinstance(t, bool):
            tv = Fr(t)
        else:
            return False
        if tv != exp[0]:
            return False
        for e, g in zip(exp[1:], got[1:]):
            if is_msg(e):
                if common.canon(e) != common.canon(g):
                    return False
            elif not isinstance(g, list) or not Check.same_entry(e, g):
                return False
        return True

    def list_vs_raw(self, entry, pkt, where):
        """every (sub-)bundle listed in the score carries the time its binary form carries"""
        if not isinstance(entry, list) or not entry or pkt[0] != 'bundle':
            return f'{where}: listed {str(entry)[:80]} but the binary form is a {pkt[0]}'
        t = entry[0]
        tv = Fr(t['f']) if (isinstance(t, dict) and 'f' in t) else (Fr(t) if isinstance(t, int) and not isinstance(t, bool) else None)
        if tv is None or int(tv * TWO32) != pkt[1]:
            return (f'{where}: the bundle is listed with time {t if tv is None else fr(tv)} while its binary form carries '
                    f'timetag {pkt[1]} = {fr(Fr(pkt[1], TWO32))} s')
        subs = [e for e in entry[1:] if not is_msg(e)]
        psubs = [e for e in pkt[2] if e[0] == 'bundle']
        if len(subs) != len(psubs):
            return f'{where}: {len(subs)} nested bundles listed, {len(psubs)} in the binary form'
        for j, (e, pe) in enumerate(zip(subs, psubs)):
            v = self.list_vs_raw(e, pe, f'{where}/nested {j}')
            if v:
                return v
        return None

    def check_raw_bundle(self, pkt, exp, where):
        if pkt[0] != 'bundle' or len(pkt[2]) != len(exp) - 1:
            return f'{where}: raw bundle does not have the shape of the list entry'
        if pkt[1] != int(exp[0] * TWO32):
            return f'{where}: raw timetag {pkt[1]} is not int({fr(exp[0])} * 2^32)'
        for e, pe in zip(exp[1:], pkt[2]):
            if is_msg(e):
                if pe[0] != 'msg' or pe[1] != e[0]['s'].encode():
                    return f'{where}: raw message address differs from the list entry'
            else:
                v = self.check_raw_bundle(pe, e, where + '/nested')
                if v:
                    return v
        return None

    def oracle(self, case, out):
        try:
            return self.oracle1(case, out)
        except Exception as e:       # an observation the oracle cannot even read is a verdict, not a crash
            import traceback
            return {'what': f'the observed behaviour cannot be interpreted ({type(e).__name__}: {e}; '
                            f'{traceback.format_exc().splitlines()[-3].strip()[:120]})', 'signature': 'c07:uninterpretable'}

    def oracle1(self, case, out):
        rt, nrt = out['rt'], out['nrt']
        if rt['died']:
            return {'what': f'clock thread died: {rt["died"]}', 'signature': 'c07:thread-died'}
        t0, off = F(rt['t0']), NTP_OFFSET
        # ---- real time ----
        for rec, rcv in zip(rt['sends'], rt['recv']):
            st = self.step(case, rec['who'], rec['k'])
            base = t0 + self.rt_base(case, out, rec['who'], rec['k'])
            where = f'RT send {rec["who"]}#{rec["k"]}'
            if rec['who'] != 'main' and F(rec['secs']) + t0 != base:
                return {'what': f'{where}: the task reads logical time {rec["secs"]}, it was scheduled for {fr(base - t0)} '
                                '(script; on AppClock: physical end of its previous segment + the delta it yielded)',
                        'signature': 'c07:logical-time'}
            if st[0] in ('clump', 'sync'):
                v = self.check_multi(case, out, rec, st, base, off, where)
                if v:
                    return v
                continue
            kind, val = self.send_value(case, rec['who'], rec['k'])
            if st[0] == 'mb':
                # the completion bundle travels as a blob; it is stamped like a bundle sent at the same instant
                try:
                    pkt = osc10.read_packet(bytes.fromhex(rec['out']))
                    blobs = [x[1] for x in pkt[2] if x[0] == 'b']
                    inner = osc10.read_packet(blobs[-1])
                except Exception as e:
                    return {'what': f'{where}: message with a completion bundle gave {rec["out"][:40]} ({e})',
                            'signature': 'c07:completion'}
                v = self.check_rt_packet(inner, val[-1], base, off, where + '/completion bundle')
                if v:
                    return {'what': v, 'signature': 'c07:rt-stamp'}
                continue
            if kind == 'm':
                continue
            ok = self.valid(val)
            if rec['out'].startswith('EXC'):
                if ok:
                    return {'what': f'{where}: valid bundle refused with {rec["out"]}', 'signature': 'c07:refused'}
                continue
            if not ok:
                return {'what': f'{where}: nested bundle earlier than its parent was sent', 'signature': 'c07:nested-order'}
            try:
                pkt = osc10.read_packet(bytes.fromhex(rec['out']))
            except osc10.Osc10Error as e:
                return {'what': f'{where}: datagram is not OSC 1.0: {e}', 'signature': 'c07:osc10'}
            v = self.check_rt_packet(pkt, val, base, off, where)
            if v:
                return {'what': v, 'signature': 'c07:rt-stamp'}
            # the receiving side converts back: every message of the packet is delivered with the
            # time of its (innermost) bundle, or with the arrival time when immediate
            flat = sorted((t for t, _, _ in osc10.flatten(pkt)), key=lambda t: t)
            want = sorted(fr(Fr(t - off, TWO32) - t0) if t != 1 else rt['recv_at'] for t in flat)
            if rcv is None or sorted(rcv, key=F) != sorted(want, key=F):
                return {'what': f'{where}: receive functions got times {rcv}, the timetags say {want}',
                        'signature': 'c07:recv-time'}
        if rt['offset'] != NTP_OFFSET:
            d = Fr(rt['offset'] - NTP_OFFSET, TWO32)
            return {'what': f'the clock converts elapsed time to NTP timetags with offset {rt["offset"]}; the library was '
                            f'initialised at wall-clock time {fr(EPOCH)} s (Unix), i.e. {NTP_OFFSET}: every timetag is off by '
                            f'{fr(d)} s against the wall clock', 'signature': 'c07:ntp-offset'}
        # ---- non-real time ----
        if 'exc' in nrt:
            return {'what': f'main.process raised {nrt["exc"]}', 'signature': 'c07:process-raised'}
        if nrt.get('file') != nrt['raw']:
            f_ = nrt.get('file') or ''
            return {'what': f'score.write(path) (called twice on a path used before) left a file of {len(f_) // 2} bytes '
                            f'({f_[:12]}...), the encoded score has {len(nrt["raw"]) // 2} bytes: the file must be exactly '
                            'the encoding of the listed score', 'signature': 'c07:score-file'}
        expected = [[Fr(0), [{'s': '/g_new'}, 1, 0, 0]]]
        for rec in nrt['sends']:
            kind, val = self.send_value(case, rec['who'], rec['k'])
            base = self.logical(case, rec['who'], rec['k'], Fr(0))
            inr = rec['who'] != 'main' and not case['routines'][rec['who']].get('fn')
            if kind == 'm':
                val = [{'f': '0'}, val]
            ok = self.valid(val)
            if rec['out'].startswith('EXC'):
                if ok:
                    return {'what': f'NRT send {rec["who"]}#{rec["k"]}: valid bundle refused with {rec["out"]}',
                            'signature': 'c07:refused'}
                continue
            if not ok:
                return {'what': f'NRT send {rec["who"]}#{rec["k"]}: nested bundle earlier than its parent accepted',
                        'signature': 'c07:nested-order'}
            expected.append(self.expected_entry(val, base, inr))
        end = max([Fr(0)] + [self.logical(case, rid, len(r['steps']), Fr(0)) for rid, r in enumerate(case['routines'])])
        tail = max(Fr(0), end + F(case['tail']))
        expected.append([tail, [{'s': '/c_set'}, 0, 0]])
        # ordered by time, send order within equal times (stable sort of the send sequence)
        expected = [e for _, e in sorted(enumerate(expected), key=lambda p: (p[1][0], p[0]))]
        lst = nrt['list']
        # list form and binary form of the score agree entry by entry, at every nesting depth
        raw, pos = bytes.fromhex(nrt['raw']), 0
        for k, g in enumerate(lst):
            if pos + 4 > len(raw):
                break
            n = struct.unpack('>i', raw[pos:pos + 4])[0]
            try:
                pkt = osc10.read_packet(raw[pos + 4:pos + 4 + n])
            except osc10.Osc10Error:
                break                              # (reported by the raw checks below)
            pos += 4 + n
            v = self.list_vs_raw(g, pkt, f'score entry {k}')
            if v:
                return {'what': v, 'signature': 'c07:list-vs-raw'}
        if len(lst) != len(expected):
            return {'what': f'score lists {len(lst)} bundles, the program sent {len(expected) - 2} (+ root + tail)',
                    'signature': 'c07:score-count'}
        for i, (e, g) in enumerate(zip(expected, lst)):
            if not self.same_entry(e, g):
                return {'what': f'score entry {i} is {str(g)[:300]}, expected time {fr(e[0])} and content '
                                f'{str(e[1:])[:300]} (bundles at logical time + latency, ordered by time then send order)',
                        'signature': 'c07:score-entry'}
        if F(nrt['duration']) != expected[-1][0]:
            return {'what': f'score.duration is {nrt["duration"]} but the latest bundle is at {fr(expected[-1][0])} s',
                    'signature': 'c07:duration'}
        # raw = concatenation of the length-prefixed encodings of the listed bundles, in order
        raw, i = bytes.fromhex(nrt['raw']), 0
        for k, e in enumerate(expected):
            if i + 4 > len(raw):
                return {'what': f'raw score ends before entry {k}', 'signature': 'c07:raw'}
            n = struct.unpack('>i', raw[i:i + 4])[0]
            d = raw[i + 4:i + 4 + n]
            i += 4 + n
            try:
                pkt = osc10.read_packet(d)
            except osc10.Osc10Error as ex:
                return {'what': f'raw score entry {k} is not OSC 1.0: {ex}', 'signature': 'c07:raw'}
            v = self.check_raw_bundle(pkt, e, f'raw entry {k}')
            if v:
                return {'what': v, 'signature': 'c07:raw'}
        if i != len(raw):
            return {'what': 'bytes left over at the end of the raw score', 'signature': 'c07:raw'}
        return None

    def nontrivial(self, case, out):
        for rec in out['rt']['sends']:
            if rec['who'] != 'main' and F(rec['secs']) > 0 and not rec['out'].startswith('EXC') \
                    and self.send_value(case, rec['who'], rec['k'])[0] == 'b':
                return True
        return False

    def histogram(self, cases, outs):
        h = {'cases': len(cases)}
        for c, o in zip(cases, outs):
            for rec in o['rt']['sends']:
                k = 'rt:' + ('exc' if rec['out'].startswith('EXC') else 'sent')
                h[k] = h.get(k, 0) + 1
            h['late:' + c['late']] = h.get('late:' + c['late'], 0) + 1
            h['score_entries'] = h.get('score_entries', 0) + len(o['nrt'].get('list', []))
            for r in c['routines']:
                h['clock:' + r['clock']] = h.get('clock:' + r['clock'], 0) + 1
                for s in r['steps']:
                    h['step:' + s[0]] = h.get('step:' + s[0], 0) + 1
        return h

    def shrink(self, case, fails):
        c = case
        changed = True
        while changed:
            changed = False
            cands = []
            for i in range(len(c['routines'])):
                cands.append({**c, 'routines': c['routines'][:i] + c['routines'][i + 1:]})
            for i in range(len(c['main'])):
                cands.append({**c, 'main': c['main'][:i] + c['main'][i + 1:]})
            for i, r in enumerate(c['routines']):
                for j in range(len(r['steps'])):
                    st = r['steps'][:j] + r['steps'][j + 1:]
                    if any(s[0] == 'B' and s[1] is None for s in st) and not any(s[0] == 'B' and s[1] is not None for s in st):
                        continue
                    # keep a re-send behind its original
                    seen, okk = False, True
                    for s in st:
                        if s[0] == 'B' and s[1] is not None:
                            seen = True
                        if s[0] == 'B' and s[1] is None and not seen:
                            okk = False
                    if okk:
                        cands.append({**c, 'routines': c['routines'][:i] + [{**r, 'steps': st}] + c['routines'][i + 1:]})
            for cand in cands[:40]:
                if fails(cand):
                    c, changed = cand, True
                    break
        return c
