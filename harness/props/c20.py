"""C20 — Definition builds are deterministic, isolated and leave no residue.
Programs, real-code interpreter and Lean compiler model are C01's; this check runs every
program (i) twice in a process, (ii) after a failing build (graph function raises / input
check fails / writer fails), (iii) from several threads at once, (iv) under several
PYTHONHASHSEED values and (v) in NRT and RT mode, and demands identical bytes everywhere,
equal to the model's, and no residue after failures."""
import copy
from harness import common
from harness.props import c01, c01_regen


def poison_for(rng, prog, idx):
    kind = rng.choice(['raise', 'check', 'writer', 'raise', 'writer2', 'optimizer'])
    p = copy.deepcopy(prog)
    p['name'] = f'poison{idx}'
    if kind == 'raise':
        k = rng.randint(0, len(p['events']))
        p['events'].insert(k, {'t': 'raise'})
        # references after the insertion point shift by one
        base = 1 if p.get('params') else 0

        def sh(a):
            return ['r', a[1] + 1, a[2]] if a[0] == 'r' and a[1] >= base + k else a
        for e in p['events'][k + 1:]:
            for key in ('a', 'b', 'm', 'c', 'bus'):
                if key in e:
                    e[key] = sh(e[key])
            for key in ('ins', 'chans', 'args'):
                if key in e:
                    e[key] = [sh(a) for a in e[key]]
    elif kind == 'optimizer':
        # the failure happens inside the optimiser, after it has already removed dead code: unused
        # arithmetic, then a dead operator chain deeper than the interpreter's recursion limit
        base = 1 if p.get('params') else 0
        n0 = base + len(p['events'])
        p['events'].append({'t': 'atom', 'cls': 'SinOsc', 'ctor': 'ar', 'ins': [['n', 440, 1], ['n', 0, 1]]})
        p['events'].append({'t': 'binop', 'sel': 'mul', 'a': ['r', n0, 0], 'b': ['n', 2, 1]})
        p['events'].append({'t': 'atom', 'cls': 'SinOsc', 'ctor': 'ar', 'ins': [['n', 441, 1], ['n', 0, 1]]})
        for k in range(1600):
            p['events'].append({'t': 'unop', 'sel': 'abs' if k % 2 else 'squared', 'a': ['r', n0 + 2 + k, 0]})
    elif kind == 'check':
        p['events'].append({'t': 'atom', 'cls': 'Line', 'ctor': 'kr',
                            'ins': [['bad', 'none'], ['n', 1, 1], ['n', 1, 1], ['n', 0, 1]]})
    elif kind == 'writer2':
        # the writer fails half-way: name and counts are written, then a constant that is not a
        # binary32 number (struct.pack raises OverflowError)
        p['events'].append({'t': 'atom', 'cls': 'Line', 'ctor': 'kr',
                            'ins': [['n', 10 ** 39, 1], ['n', 1, 1], ['n', 1, 1], ['n', 0, 1]]})
    else:
        p['name'] = 'w' * 300          # writer refuses names longer than 255
    p['kind'] = kind
    return p


class Check(c01.Check):
    PROP = 'C20'
    LEAN_TARGETS = ['Sc3Verif.C20.Props']
    LEAN_DIRS = ['Sc3Verif/C20', 'Sc3Verif/C01']
    THEOREMS = ['Sc3Verif.C20.' + t for t in (
        'ctx_clear_after_any_history', 'mutual_exclusion', 'outside_ugen_unattached',
        'builder_ugen_attaches_to_own_def', 'order_oracle_irrelevant', 'compile_is_function')]
    N_QUICK = 120
    N_THOROUGH = 1500
    ASSUMPTIONS = c01.Check.ASSUMPTIONS + [
        'threading.RLock semantics (mutual exclusion, release on every exit of the with block)',
        'OS thread scheduling is sampled (2-4 real threads), the protocol theorem covers all interleavings',
        'UGens created by a non-building thread while another thread builds attach to that build: outside the property quantifier']

    def rule(self):
        return ('C01 programs, each built twice, after a failing build (injected exception at a random event, '
                'failing input check, failing writer), from 3 threads, under PYTHONHASHSEED 0/1/7(+3 more in '
                'thorough) and in nrt/rt mode. Non-trivial: compiled program with a poison build before it. '
                'Distinct by program text.')

    def gen(self, rng, n):
        g = c01.GraphGen(rng, allow_bad=False)
        cases = []
        for i in range(n):
            prog = g.program(i)
            case = {'prog': prog}
            if rng.random() < 0.7:
                case['poison'] = poison_for(rng, g.program(10000 + i), i)
            cases.append(case)
        return cases

    def configs(self):
        seeds = ['0', '1', '7'] + (['2', '3', '12345'] if self.tier == 'thorough' else [])
        cfg = [('nrt', s, {'1': 3, '7': 2}.get(s, 0)) for s in seeds]
        cfg.append(('rt', '0', 0))
        return cfg

    def impl(self, cases):
        runs = {}
        for mode, hs, threads in self.configs():
            res, err = common.run_impl('c20', 'run', {'cases': cases, 'mode': mode, 'threads': threads,
                                                      'thread_cases': 200 if self.tier == 'quick' else 1500,
                                                      'thread_seconds': 6 if self.tier == 'quick' else 40,
                                                      'delay_cases': 10 if self.tier == 'quick' else 60,
                                                      'slow_seconds': 2.6 if self.tier == 'quick' else 8},
                                       timeout=3000, extra_env={'PYTHONHASHSEED': hs})
            if res is None:
                self.notes.append(f'{mode}/{hs}: {err}')
                return None
            runs[f'{mode}/hash{hs}/thr{threads}'] = res
        keys = list(runs)
        outs = []
        for i in range(len(cases)):
            first = runs[keys[0]][i]
            outs.append({'ref': first['first'], 'poison': first.get('poison'),
                         'all': {k: {'first': runs[k][i]['first']['canon'], 'second': runs[k][i]['second'],
                                     'threaded': runs[k][i].get('threaded'),
                                     'delayed': runs[k][i].get('delayed'),
                                     'residue': runs[k][i]['first'].get('residue'),
                                     'poison_residue': (runs[k][i].get('poison') or {}).get('residue'),
                                     'poison_canon': (runs[k][i].get('poison') or {}).get('canon')}
                                 for k in keys},
                         'thread_errors': [runs[k][0].get('thread_errors') for k in keys if runs[k] and runs[k][0].get('thread_errors')],
                         'args_probe': {k: [x for x in (runs[k][0].get('args_probe') or []) if not x.startswith('DIGESTS')]
                                        for k in keys} if i == 0 else None,
                         'probe_digests': {k: [x for x in (runs[k][0].get('args_probe') or []) if x.startswith('DIGESTS')]
                                           for k in keys} if i == 0 else None,
                         'barrier': {k: runs[k][0].get('barrier_current_none') for k in keys} if i == 0 else None,
                         'slow_build': {k: runs[k][0].get('slow_build') for k in keys} if i == 0 else None,
                         'later_build_error': {k: runs[k][0].get('later_build_error') for k in keys
                                               if runs[k][0].get('later_build_error')} if i == 0 else None,
                         'hang': {k: True for k in keys if runs[k][i].get('hang')},
                         'residue_after_threads': [runs[k][0].get('residue_after_threads') for k in keys if runs[k]]})
        self._impl_outs = outs
        return outs

    def model(self, cases):
        return c01.run_model([c['prog'] for c in cases], [o['ref'] for o in self._impl_outs])

    def compare(self, case, io, mo):
        return c01.Check.compare(self, case['prog'], io['ref'], mo)

    def oracle(self, case, io):
        if io.get('hang'):
            return {'what': f'a build did not return (after a {"failing " + case["poison"]["kind"] if case.get("poison") else "previous"} build) '
                            f'under {sorted(io["hang"])}: the build lock or the build context was left behind',
                    'signature': 'c20:hang'}
        for k, probs in (io.get('args_probe') or {}).items():
            if probs:
                return {'what': f'{k}: {probs[0]}', 'signature': 'c20:build-arguments'}
        dg = io.get('probe_digests') or {}
        if len({tuple(v) for v in dg.values()}) > 1:
            return {'what': f'definitions with rates / five variants built under different hash seeds, modes or after other '
                            f'builds differ: {dg}', 'signature': 'c20:probe-nondeterministic'}
        for k, e in (io.get('later_build_error') or {}).items():
            return {'what': f'{k}: after the earlier builds of this run a plain definition (one control or two oscillators and '
                            f'an output) no longer builds: {e}', 'signature': 'c20:later-build-failed'}
        for k, probs in (io.get('slow_build') or {}).items():
            if probs:
                return {'what': f'{k}: {probs[0]}', 'signature': 'c20:slow-build-not-isolated'}
        for k, smp in (io.get('barrier') or {}).items():
            if smp and not all(smp):
                return {'what': f'{k}: with all builder threads between two builds (nothing being built) the global current '
                                f'definition was not None in {smp.count(False)} of {len(smp)} rendez-vous points',
                        'signature': 'c20:residue-concurrent'}
        ref = io['ref']['canon']
        for k, v in io['all'].items():
            for which in ('first', 'second', 'threaded', 'delayed'):
                got = v.get(which)
                if which in ('threaded', 'delayed') and got is None:
                    continue
                if got in ('NOT-RUN', None) or ref == 'NOT-RUN':
                    continue
                if got is not None and got != ref:
                    return {'what': f'build under {k} ({which}) differs from the reference build: '
                                    f'{got[:120]} vs {ref[:120]}', 'signature': f'c20:nondeterministic:{which}'}
            for key in ('residue', 'poison_residue'):
                r = v.get(key)
                if r and not all(r.values()):
                    return {'what': f'residue after a {"failing " if key.startswith("poison") else ""}build under {k}: {r}',
                            'signature': 'c20:residue'}
            if case.get('poison') and v.get('poison_canon') and not v['poison_canon'].startswith('ERR'):
                return {'what': f'poison build ({case["poison"]["kind"]}) did not fail: {v["poison_canon"][:80]}',
                        'signature': 'c20:poison-accepted'}
        if io.get('thread_errors'):
            return {'what': f'thread error {io["thread_errors"]}', 'signature': 'c20:thread-error'}
        for r in io.get('residue_after_threads') or []:
            if r and not all(r.values()):
                return {'what': f'residue after concurrent builds: {r}', 'signature': 'c20:residue-threads'}
        return None

    def nontrivial(self, case, io):
        return io['ref']['canon'].startswith('OK') and bool(case.get('poison'))

    def histogram(self, cases, outs):
        h = {'configs': [f'{m}/hash{s}/thr{t}' for m, s, t in self.configs()]}
        for c, o in zip(cases, outs):
            k = 'ok' if o['ref']['canon'].startswith('OK') else o['ref']['canon']
            h[k] = h.get(k, 0) + 1
            if c.get('poison'):
                pk = 'poison:' + c['poison']['kind']
                h[pk] = h.get(pk, 0) + 1
        return h

    def shrink(self, case, fails):
        return case
