"""C08 — Real-time clocks wake every task once, on time, in order, and survive errors."""
from fractions import Fraction as Fr

from harness import common


def F(s):
    return Fr(s)


def fr(x):
    x = Fr(x)
    return str(x.numerator) if x.denominator == 1 else f'{x.numerator}/{x.denominator}'


BIG = 64


class Spec:
    """Independent reference of the PROPERTY (not of the thread loops): per clock a set of pending
    (key, seq, task); what may be awakened next, when at the earliest, when at the latest under the
    lateness the script allows, with which logical time; what each awake leaves behind.  It reads
    the script and the *observed* awake/error/exit events only."""

    def __init__(self, lines):
        self.lines = lines
        self.clock = {'s': self.newclock(), 'a': self.newclock()}
        self.tasks = {}
        self.seq = 0
        self.now = Fr(0)           # lower bound of physical time known from the script/events
        self.last = Fr(0)          # time of the last observed activity
        self.halves = 0
        self.wraps = 0
        self.deferred_insts = set()
        self.batch = []            # AppClock: entries taken out at the current tick, not yet awakened
        self.flush_at = None
        self.paused = None         # a task stopped in the middle of its step (atom `!`)
        self.deferred = []         # calls of the second thread that wait for the lock meanwhile
        self.app_held = False      # the script holds the AppClock thread in its window
        self.app_lenient = False   # ... or did so / a task took time: its relative time-outs start late
        self.expect_err = None

    @staticmethod
    def keeps_pause(w):
        return w[0] in ('adv', 'dump', 'task', 'resume') or \
            (w[0] == 'op' and w[1] == 'o' and w[3] in ('s', 'q', 'c', 'T'))

    @staticmethod
    def newclock(rate=None, now=None):
        return {'pending': {}, 'nb': {}, 'range': {}, 'stopped': False, 'tempo': None if rate is None else (rate, Fr(0), now)}

    # tempo maps
    def s2b(self, k, s):
        t = self.clock[k]['tempo']
        return s if t is None else (s - t[2]) * t[0] + t[1]

    def b2s(self, k, b):
        t = self.clock[k]['tempo']
        return b if t is None else (b - t[1]) / t[0] + t[2]

    def callee(self, task):
        """what a sched call queues: the task object, or a NEW wrapper when `task` is a plain function
        (every scheduling call of a plain function is a task of its own)"""
        t = self.tasks.get(task)
        if t and t['kind'] == 'P':
            self.wraps += 1
            return (task, self.wraps)
        return task

    @staticmethod
    def base(inst):
        return inst[0] if isinstance(inst, tuple) else inst

    def insert(self, k, key, task, at, not_before=None):
        self.seq += 1
        self.clock[k]['pending'][task] = (key, self.seq, at)
        self.clock[k]['nb'][task] = not_before
        self.clock[k]['range'].pop(task, None)

    def do_op(self, k, w, logical, now):
        """a clock call; returns exception name or None"""
        c = self.clock[k]
        if w[0] == 'd':
            # defer(f, delta, clock): f runs exactly once, whatever it returns
            if c['stopped']:
                return 'ClockNotRunning'
            inst = self.callee(int(w[2]))
            self.deferred_insts.add(inst)
            self.insert(k, (now if k == 'a' else self.s2b(k, logical)) + F(w[1]), inst, now)
            return None
        if w[0] in ('s', 'q', 'T', 'E') and c['stopped']:
            return 'ClockNotRunning'
        if w[0] == 's':
            self.insert(k, F(w[1]), self.callee(int(w[2])), now)
        elif w[0] == 'q':
            if k == 'a':
                self.insert(k, now + F(w[1]), self.callee(int(w[2])), now)
            else:
                self.insert(k, self.s2b(k, logical) + F(w[1]), self.callee(int(w[2])), now)
        elif w[0] == 'c':
            if not c['stopped']:
                c['pending'].clear()
        elif w[0] == 'T':
            v = F(w[1])
            if v <= 0:
                return 'ValueError'
            beats = self.s2b(k, logical)
            c['tempo'] = (v, beats, logical)
        elif w[0] == 'E':
            # etempo: the change is anchored at the physical present; the beat count is continuous
            v = F(w[1])
            if v == 0:
                return 'ValueError'
            c['tempo'] = (v, self.s2b(k, now), now)
        return None

    def next_beh(self, tid):
        t = self.tasks.get(tid)
        if t is None or t['dead']:
            return [], 'd'
        if not t['behs']:
            t['dead'] = t['kind'] == 'R'
            return [], 'd'
        *ops, res = t['behs'].pop(0)
        if t['kind'] == 'R' and res in ('d', 'x'):
            t['dead'] = True
        return ops, res

    def run_beh(self, k, task, key, due, ops, res, inst=None):
        """what an awake leaves behind: its calls (up to a `!` stop), then its result"""
        c = self.clock[k]
        raised = False
        if inst in self.deferred_insts and res != 'x':
            res = 'd'                     # defer's wrapper returns None: never re-scheduled
        for j, a in enumerate(ops):
            p = a.split(':')
            if p[0] == '!':
                self.paused = (k, task, key, due, ops[j + 1:], res, inst)
                if k == 'a':
                    self.app_lenient = True
                return
            if p[0] == '+':
                self.now += F(p[1])
                if k == 'a':
                    self.app_lenient = True
                continue
            if self.do_op(p[0], p[1:], due, self.now) is not None:
                raised = True
                t = self.tasks.get(task)
                if t and t['kind'] == 'R':
                    t['dead'] = True
                break
        if raised or res == 'x':
            self.expect_err = (k, task)
        elif res == 'r:inf':
            pass                      # an infinite delta means "never", as in sched()
        elif res[0] == 'r':
            d = F(res.partition(':')[2])       # (r: a number, ri: an IntEnum member, rf: a float subclass)
            if not c['stopped']:
                self.insert(k, (self.now + d) if k == 'a' else (key + d), task if inst is None else inst, self.now)

    def do_resume(self):
        while self.paused is not None:      # (a step stopped twice goes on through both stops)
            k, task, key, due, ops, res, inst = self.paused
            self.paused = None
            self.run_beh(k, task, key, due, ops, res, inst)
        self.last = self.now
        self.flush_at = k           # the waiting calls get the lock when this clock's thread goes to sleep

    def do_deferred(self):
        self.flush_at = None
        for k, w, called in self.deferred:
            # the call was made at `called` from outside any routine: whatever it schedules with a delay
            # may not be awakened before `called + delay` (seconds clocks)
            nb = called + F(w[1]) if (w[0] == 'q' and k in ('s', 'a')) else None
            self.do_op(k, w, self.now, self.now)
            newest = max(self.clock[k]['pending'].items(), key=lambda p: p[1][1], default=(None, None))[0]
            if w[0] in ('s', 'q') and newest is not None and self.base(newest) == int(w[2]):
                self.clock[k]['nb'][newest] = nb
                if w[0] == 'q':
                    # the property fixes the scheduled time only up to [time of the call, time the lock was
                    # obtained] + delay; the task itself tells which one it was
                    lo = (called if k == 'a' else self.s2b(k, called)) + F(w[1])
                    self.clock[k]['range'][newest] = (lo, self.clock[k]['pending'][newest][0])
        self.deferred = []

    def bad(self, i, what, sig):
        return {'what': f'line {i} `{self.lines[i]}`: {what}', 'signature': sig, 'index': i}

    def check(self, outs):
        if len(outs) != len(self.lines):
            return {'what': 'output length mismatch', 'signature': 'c08:len'}
        for i, (ln, out) in enumerate(zip(self.lines, outs)):
            v = self.line(i, ln, out)
            if v:
                return v
        # completeness: the script ends with a long idle run, nothing finite may still be pending
        if self.paused is not None or self.deferred:
            return None           # (a step is still stopped at the end of the script)
        for k, c in self.clock.items():
            if c['stopped'] or (k == 'a' and (self.app_held or self.halves)):
                continue          # (the script itself still holds the AppClock thread / a sched call)
            if self.last_run_at is None or self.last_run_at[1] < BIG:
                continue          # no final idle run in this (shrunk) script
            for task, (key, _, at) in c['pending'].items():
                if self.b2s(k, key) <= self.last_run_at[0]:
                    return {'what': f'task {self.base(task)} scheduled on clock {k} for {fr(self.b2s(k, key))} was never '
                                    f'awakened although time reached {fr(self.now)} and every thread was run',
                            'signature': f'c08:never-awakened:{"app" if k == "a" else "cond"}'}
        return None

    def line(self, i, ln, out):
        w = ln.split()
        out, _, at_end = out.rpartition(' @')
        if '|' in out.split(';'):
            # the line first let a stopped step finish (events before the `|` marker), then did its own work
            parts = out.split(';')
            j = parts.index('|')
            v = self.line1(i, ['resume'], ';'.join(parts[:j]) or '-', None)
            if v:
                return v
            return self.line1(i, w, ';'.join(parts[j + 1:]) or '-', at_end)
        return self.line1(i, w, out, at_end)

    def line1(self, i, w, out, at_end):
        if 'SPIN' in out:
            return self.bad(i, 'a clock thread busy-loops: it keeps returning from wait without awakening the '
                               'task that is due', 'c08:spin')
        if out.startswith('HARNESS-EXC') or out in ('bad-line',):
            return self.bad(i, f'harness failure {out}', 'c08:harness')
        evs = [e for e in out.split(';') if e not in ('-', 'noop', '')]
        if w[0] == 'dump':
            evs = [e for e in evs if e.startswith('T:')]
        if w[0] == 'resume' and self.paused is not None:
            self.do_resume()
        run_late = None
        start = self.now
        if w[0] == 'run':
            self.last_run_at = (start, F(w[1]))
        elif w[0] != 'dump':
            self.last_run_at = None
        if w[0] == 'task':
            behs = [b.split() for b in ' '.join(w[3:]).split('|')]
            self.tasks[int(w[1])] = {'kind': w[2], 'behs': [b for b in behs if b], 'dead': False}
        elif w[0] == 'new':
            self.clock[f't{w[1]}'] = self.newclock(F(w[2]), self.now)
            self.clock[f't{w[1]}']['permanent'] = w[-1] == 'p'
        elif w[0] == 'cmdp':
            # CmdPeriod: nothing scheduled before it may run afterwards, on any clock; non-permanent
            # TempoClocks stop, permanent ones keep running
            self.batch = []
            for k, c in self.clock.items():
                c['pending'].clear()
                if c['tempo'] is not None and not c['stopped'] and not c.get('permanent'):
                    c['stopped'] = True
                    if f'X{k}' not in evs:
                        return self.bad(i, f'CmdPeriod did not stop the non-permanent clock {k}', 'c08:cmdperiod-stop')
                elif f'X{k}' in evs:
                    return self.bad(i, f'CmdPeriod stopped the thread of clock {k}', 'c08:thread-exit')
        elif w[0] == 'adv':
            self.now += F(w[1])
        elif w[0] == 'op':
            k = w[2]
            if w[3] == 'stop':
                c = self.clock[k]
                if not c['stopped']:
                    c['stopped'] = True
                    c['pending'].clear()
                    if f'X{k}' not in evs:
                        return self.bad(i, 'stopped clock thread did not exit', 'c08:stop')
            elif w[1] == 'o' and self.paused is not None and not self.clock[k]['stopped']:
                self.deferred.append((k, w[3:], self.now))     # waits for the lock of the stopped step
            else:
                exc = self.do_op(k, w[3:], self.now, self.now)
                got = [e[2:] for e in evs if e.startswith('R:')]
                if (exc is not None) != bool(got):
                    return self.bad(i, f'call raised {got}, expected {exc}', 'c08:op-exception')
        elif w[0] == 'half':
            self.do_op('a', ['q', w[1], w[2]], self.now, self.now)
            self.halves += 1
            self.app_lenient = True
        elif w[0] == 'fin':
            self.halves = max(0, self.halves - 1)
        elif w[0] == 'cont':
            self.app_held = False
        elif w[0] == 'run':
            run_late = F(w[2])
        elif w[0] == 'wake' and w[1] == 'a' and w[-1] == 'w' and out != 'noop':
            self.app_held = self.app_lenient = True
        # observed events, in order
        for e in evs:
            tag, body = e[0], e[1:]
            if tag == 'T':
                what = body[1:].replace('_', ' ')
                if what.startswith('DEAD'):
                    return self.bad(i, f'a clock thread did not survive the script: {what}', 'c08:thread-died')
                return self.bad(i, f'cleaning up after the script failed: {what} (clear/stop must cancel everything '
                                   'pending and never raise; the clock threads must keep running)', 'c08:teardown')
            if tag == 'D':
                return self.bad(i, f'clock thread died: {e}', 'c08:thread-died')
            if tag == 'E':
                k, task = body.split(':')
                if self.expect_err != (k, int(task)):
                    return self.bad(i, f'unexpected error log {e}', 'c08:error-log')
                self.expect_err = None
                continue
            if self.expect_err is not None and tag in 'AWX':
                return self.bad(i, f'raising task {self.expect_err} was not logged', 'c08:error-not-logged')
            if tag == 'X':
                if not self.clock[body]['stopped']:
                    return self.bad(i, f'thread of clock {body} exited', 'c08:thread-exit')
            if tag == 'W' and self.flush_at is not None and body.split(':')[0] == self.flush_at:
                self.do_deferred()
            if e.startswith('Wa') and self.batch:
                return self.bad(i, f'AppClock went to sleep with due tasks not awakened: {self.batch}', 'c08:never-awakened:app')
            if tag != 'A':
                continue
            k, task, secs, beats, now = body.split(':')
            task, secs, beats, now = int(task), F(secs), F(beats), F(now)
            c = self.clock[k]
            kind = 'app' if k == 'a' else 'cond'
            if now < self.now:
                return self.bad(i, 'time went backwards', 'c08:harness')
            if k == 'a':
                # AppClock is documented non-recursive: everything due at the tick is taken out first
                # and awakened in order; what is scheduled meanwhile waits for the next tick.
                if not self.batch:
                    due_now = sorted((kk, ss, tt, aa) for tt, (kk, ss, aa) in c['pending'].items() if kk <= now)
                    for kk, ss, tt, aa in due_now:
                        del c['pending'][tt]
                    self.batch = due_now
                if not self.batch:
                    return self.bad(i, f'task {task} awakened on AppClock but nothing is due '
                                       '(awakened twice, early, or after clear)', 'c08:not-pending:app')
                key, seq, inst, at = self.batch.pop(0)
                t0 = self.base(inst)
                if t0 != task:
                    return self.bad(i, f'task {task} awakened on AppClock, but task {t0} (time {fr(key)}, call #{seq}) '
                                       'is the earliest one due', 'c08:order:app')
            else:
                cands = [x for x in c['pending'] if self.base(x) == task]
                if not cands:
                    return self.bad(i, f'task {task} awakened on {k} but it is not pending there '
                                       '(awakened twice, or after clear/stop)', f'c08:not-pending:{kind}')
                inst = min(cands, key=lambda x: c['pending'][x][:2])
                key, seq, at = c['pending'].pop(inst)
                for t2, (k2, s2, _) in c['pending'].items():
                    if (k2, s2) < (key, seq):
                        return self.bad(i, f'task {task} (time {fr(key)}, call #{seq}) awakened on {k} before task {t2} '
                                           f'(time {fr(k2)}, call #{s2})', f'c08:order:{kind}')
            rng_ = c['range'].pop(inst, None)
            if rng_ is not None:
                obs = beats if c['tempo'] is not None else secs
                if not (rng_[0] <= obs <= rng_[1]):
                    return self.bad(i, f'task {task} on {k} was scheduled with a delay by a call made from outside any routine while a task '
                                       f'was in the middle of its step; it is awakened for time {fr(obs)}, outside '
                                       f'[{fr(rng_[0])}, {fr(rng_[1])}] = [time of the call + delay, time the lock was obtained + delay]',
                                    'c08:early:outside-call')
                key = obs
            nb = c['nb'].pop(inst, None)
            if nb is not None and now < nb:
                return self.bad(i, f'task {task} on {k} awakened at {fr(now)}, before the time of the scheduling call '
                                   f'plus its delay ({fr(nb)}): the call was made from outside any routine while a '
                                   'task was in the middle of its step', 'c08:early:outside-call')
            due = self.b2s(k, key)
            if now < due and c['tempo'] is None:
                return self.bad(i, f'task {task} awakened at {fr(now)} before its time {fr(due)}', f'c08:early:{kind}')
            if c['tempo'] is not None and self.s2b(k, now) < key:
                return self.bad(i, f'task {task} awakened at beat {fr(self.s2b(k, now))} before beat {fr(key)}',
                                'c08:early:tempo')
            want_secs = due
            if (secs, beats) != (want_secs, key if k != 'a' else want_secs):
                return self.bad(i, f'task {task} saw logical time {fr(secs)} / beats {fr(beats)}, scheduled for '
                                   f'{fr(want_secs)} / {fr(key)}', f'c08:logical-time:{kind}')
            if run_late is not None and not (k == 'a' and self.app_lenient):
                bound = max(due, at, start, self.last) + run_late
                if now > bound:
                    return self.bad(i, f'task {task} on {k} due {fr(due)} awakened at {fr(now)}, later than '
                                       f'{fr(bound)} although the thread was woken on time (lateness {fr(run_late)})',
                                    f'c08:late:{kind}')
            self.now = now
            ops, res = self.next_beh(task)
            self.run_beh(k, task, key, due, ops, res, inst)
            self.last = self.now
        if self.expect_err is not None:
            return self.bad(i, f'raising task {self.expect_err} was not logged', 'c08:error-not-logged')
        if self.flush_at is not None and self.paused is None:
            self.do_deferred()
        if at_end is None:
            return None
        # time after the command (reported by the harness: wake-ups with lateness move it)
        if F(at_end) < self.now:
            return self.bad(i, 'time went backwards', 'c08:harness')
        self.now = F(at_end)
        if w[0] == 'run' and self.paused is None:
            # everything that was due (lateness included) by the end of the run must have run
            for k, c in self.clock.items():
                if c['stopped'] or (k == 'a' and (self.app_held or self.app_lenient or self.halves)):
                    continue
                for task, (key, _, at) in c['pending'].items():
                    if self.b2s(k, key) + run_late <= start + F(w[1]):
                        return self.bad(i, f'task {self.base(task)} on {k} due {fr(self.b2s(k, key))} still pending at '
                                           f'{fr(self.now)} after every sleeping thread was woken on time',
                                        f'c08:overdue:{"app" if k == "a" else "cond"}')
        return None


class Check(common.Check):
    PROP = 'C08'
    LEAN_TARGETS = ['Sc3Verif.C08.Props']
    LEAN_DIRS = ['Sc3Verif/C08']
    THEOREMS = ['Sc3Verif.C08.' + t for t in (
        'reach_inv', 'trace_ok', 'wake_exactly_once', 'awake_once_and_not_if_cancelled', 'awake_only_pending',
        'order_by_time_fifo', 'never_early', 'never_early_current_tempo', 'no_lost_wakeup', 'sched_ahead_of_sleeping_head_notifies',
        'on_time', 'resched_relative_to_sched_time', 'clear_cancels_all', 'stop_cancels_all',
        'exited_is_final', 'cancelled_never_awakened', 'exception_isolated', 'tempo_change_reevaluates',
        'etempo_continuous',
        'areach_inv', 'app_trace_ok', 'app_wake_exactly_once', 'app_never_early', 'app_no_lost_wakeup',
        'app_sched_in_window_not_lost', 'app_resched_relative_to_now', 'app_clear_cancels_queue',
        'app_exception_isolated')]
    N_QUICK = 300
    N_THOROUGH = 6000
    ASSUMPTIONS = ['threading.Condition / RLock semantics (wait releases atomically, notify wakes waiters) are assumed',
                   'OS scheduling is replaced by the deterministic baton-passing driver harness/vtime.py',
                   'times are dyadic rationals (exact in binary64); keys differ from the -1e10 empty-queue sentinel']

    def rule(self):
        return ('op scripts over SystemClock, AppClock and 0-2 TempoClocks: 1-25 tasks (functions and routines) '
                'with scripted per-awake behaviour (re-schedule by delta incl. 0, end, raise, non-number; nested '
                'sched/clear/tempo calls on any clock, time-consuming tasks), scheduling calls from the driver '
                'thread and a second thread, equal times, tasks scheduled ahead of a sleeping head, explicit '
                'time-out/late/spurious/notified wake-ups, AppClock stopped between its critical sections. '
                'Non-trivial: at least one awake and one of: notification of a sleeping thread, error, clear, '
                'stop, tempo change')

    # ---- generator -----------------------------------------------------------------------
    def gen_one(self, rng):
        G = rng
        eighth = lambda lo, hi: Fr(G.randint(lo, hi), 8)
        clocks = ['s']
        if G.random() < 0.65:
            clocks.append('a')
        ntempo = G.choice([0, 0, 1, 1, 2])
        lines = []
        nt = G.choice([G.randint(1, 4), G.randint(3, 10), G.randint(8, 25)])
        tempos = [f't{i}' for i in range(ntempo)]
        allc = clocks + tempos

        def pick_clock():
            return G.choice(allc)

        def sched_atom(k, now_hint):
            t = G.randrange(nt)
            if k == 'a' or G.random() < 0.4:
                d = G.choice([Fr(0), Fr(0), Fr(1, 8), Fr(1, 4), Fr(1, 2), Fr(1), eighth(0, 24)])
                return ('q', fr(d), str(t))
            key = now_hint + G.choice([Fr(-1, 4), Fr(0), Fr(1, 8), Fr(1, 4), Fr(1, 2), Fr(1), Fr(1), eighth(0, 32)])
            return ('s', fr(key), str(t))

        for t in range(nt):
            behs = []
            for _ in range(G.choice([0, 1, 1, 2, 3, 5])):
                atoms = []
                for _ in range(G.choice([0, 0, 0, 1, 1, 2])):
                    r = G.random()
                    k = pick_clock()
                    if r < 0.70:
                        a = sched_atom(k, Fr(G.randint(0, 40), 8))
                        atoms.append(':'.join((k,) + a))
                    elif r < 0.78:
                        atoms.append(f'{k}:c')
                    elif r < 0.86 and tempos:
                        atoms.append(f'{G.choice(tempos)}:{G.choice("TTE")}:{fr(G.choice([Fr(1,2), Fr(1), Fr(2), Fr(4)]))}')
                    else:
                        atoms.append(f'+:{fr(G.choice([Fr(1,1024), Fr(1,8), Fr(1,2)]))}')
                r = G.random()
                if r < 0.03:
                    res = 'r:inf'
                elif r < 0.10:
                    res = G.choice(['ri:1', 'ri:0', 'ri:2', 'rf:1/8', 'rf:1/2', 'rf:0'])    # number SUBCLASSES
                elif r < 0.55:
                    res = 'r:' + fr(G.choice([Fr(0), Fr(1, 8), Fr(1, 8), Fr(1, 4), Fr(1, 2), Fr(1), Fr(3, 8)]))
                elif r < 0.78:
                    res = 'd'
                elif r < 0.92:
                    res = 'x'
                else:
                    res = G.choice(['n', 'bt', 'bf', 'bf', 'o'])      # only a number re-schedules
                behs.append(' '.join(atoms + [res]))
            lines.append(f'task {t} {G.choice("FFFRP")} ' + ' | '.join(behs))
        for i in range(ntempo):
            lines.append(f'new {i} {fr(G.choice([Fr(1,2), Fr(1), Fr(2), Fr(4)]))}' + (' p' if G.random() < 0.3 else ''))
        now = Fr(0)
        late = lambda: G.choice([Fr(0), Fr(0), Fr(1, 1024), Fr(1, 64), Fr(1, 4), Fr(2)])
        n = G.choice([G.randint(3, 10), G.randint(8, 25), G.randint(20, 45)])
        for _ in range(n):
            r = G.random()
            k = pick_clock()
            thr = G.choice('mmo')
            if r < 0.34:
                a = sched_atom(k, now)
                lines.append(f'op {thr} {k} ' + ' '.join(a))
                if G.random() < 0.35:          # a second call right away: equal times / ahead of the head
                    a2 = sched_atom(k, now)
                    lines.append(f'op {G.choice("mo")} {k} ' + ' '.join(a2))
            elif r < 0.42:
                d = G.choice([Fr(1, 8), Fr(1, 4), Fr(1, 2), Fr(1), Fr(2)])
                lines.append(f'adv {fr(d)}'); now += d
            elif r < 0.60:
                d = G.choice([Fr(1, 8), Fr(1, 4), Fr(1, 2), Fr(1), Fr(3)])
                lines.append(f'run {fr(d)} {fr(late())}'); now += d
            elif r < 0.80:
                how = G.choice(['n', 'n', 't', 't', 'u', 'p'])
                ln = f'wake {k} {how}' + (f' {fr(late())}' if how == 't' else '')
                if k == 'a' and G.random() < 0.35:
                    ln += ' w'
                lines.append(ln)
            elif r < 0.84:
                lines.append(f'op {thr} {k} c')
            elif r < 0.88 and tempos:
                if G.random() < 0.6:
                    lines.append(f'op {thr} {G.choice(tempos)} T {fr(G.choice([Fr(1,2), Fr(1), Fr(2), Fr(4), Fr(0), Fr(-1)]))}')
                else:
                    lines.append(f'op {thr} {G.choice(tempos)} E {fr(G.choice([Fr(1,2), Fr(1), Fr(2), Fr(4), Fr(0)]))}')
            elif r < 0.90 and tempos:
                lines.append(f'op m {G.choice(tempos)} stop')
            elif r < 0.915:
                lines.append(G.choice(['cmdp', 'cmdp h']))
            elif r < 0.95 and 'a' in allc:
                lines.append(G.choice([f'half {fr(G.choice([Fr(0), Fr(1,8), Fr(1,2)]))} {G.randrange(nt)}', 'fin', 'cont a']))
            else:
                lines.append('dump')
        lines += ['fin', 'fin', 'fin', 'cont a', f'run {BIG} 0', 'resume', f'run {BIG} 0', 'resume', f'run {BIG} 0', 'dump']
        return lines

    def gen_tempo_batch(self, G):
        """a late TempoClock batch in which an earlier task changes the tempo while later ones are due"""
        rate = G.choice([Fr(2), Fr(4)])
        slow = G.choice([Fr(1, 2), Fr(1), Fr(1, 2)])
        k1 = Fr(G.randint(1, 4), 8)
        n = G.randint(1, 3)
        lines = [f'task 0 {G.choice("FR")} t0:T:{fr(slow)} ' + G.choice(['d', 'r:1/4', 'x'])]
        for i in range(1, n + 1):
            lines.append(f'task {i} {G.choice("FR")} ' + G.choice(['d', 'r:1/8', 'r:1 | d', 'bf', 'bt | bf']))
        lines.append(f'new 0 {fr(rate)}')
        lines.append(f'op m t0 s {fr(k1)} 0')
        for i in range(1, n + 1):
            lines.append(f'op {G.choice("mo")} t0 s {fr(k1 + Fr(G.randint(1, 12), 8))} {i}')
        late = G.choice([Fr(1, 4), Fr(1, 2), Fr(2)])
        lines.append(G.choice([f'run 1 {fr(late)}', f'wake t0 t {fr(late)}', f'adv {fr(late)}']))
        lines += [f'run 3 0', 'fin', 'cont a', f'run {BIG} 0', 'dump']
        return lines

    def gen_midstep(self, G):
        """scheduling calls from a second thread while a task is in the middle of a long step"""
        busy = G.choice(['s', 's', 'a', 't0'])
        d1, d2 = G.choice([Fr(1, 8), Fr(1, 2), Fr(1)]), G.choice([Fr(0), Fr(1, 8), Fr(1, 2)])
        lines = [f'task 0 {G.choice("RRF")} +:{fr(d1)} ! +:{fr(d2)} ' + G.choice(['d', 'r:1/4', 'x', 'r:1 | d']),
                 'task 1 F d', 'task 2 R r:1/8 | d', 'task 3 F d', 'new 0 ' + fr(G.choice([Fr(1), Fr(2)]))]
        lines.append(f'op m {busy} q {fr(G.choice([Fr(0), Fr(1, 8), Fr(1, 4)]))} 0')
        if G.random() < 0.5:
            lines.append(f'op m {G.choice(["s", "a", "t0"])} q {fr(G.choice([Fr(1), Fr(2)]))} 3')   # a far head
        lines.append(f'run 1/2 {fr(G.choice([Fr(0), Fr(1, 64), Fr(1, 4)]))}')
        lines.append(f'adv {fr(G.choice([Fr(1, 4), Fr(1, 2), Fr(1)]))}')
        for t in (1, 2):
            if G.random() < 0.8:
                k = G.choice(['s', 's', 'a', 't0'])
                lines.append(f'op o {k} q {fr(G.choice([Fr(1, 8), Fr(1, 4), Fr(1, 2)]))} {t}')
                if G.random() < 0.4:
                    lines.append(f'adv {fr(G.choice([Fr(1, 8), Fr(1, 2)]))}')
        if G.random() < 0.2:
            lines.append(f'op o {G.choice(["s", "a", "t0"])} c')
        if G.random() < 0.3:
            lines.append(f'op o t0 T {fr(G.choice([Fr(1, 2), Fr(4)]))}')
            lines.append(f'op m t0 q 1 3')
        lines.append(G.choice(['resume', 'resume', f'run 1 0', 'wake s p']))
        lines += [f'run 3 {fr(G.choice([Fr(0), Fr(1, 64)]))}', 'fin', 'cont a', f'run {BIG} 0', 'dump']
        return lines

    def gen_cmdperiod(self, G):
        """tasks pending on every clock kind (one TempoClock permanent), CmdPeriod, then scheduling again"""
        lines = [f'task {t} {G.choice("FR")} ' + G.choice(['d', 'r:1/4 | d', 'r:1/8 | r:1/8 | d', 'x']) for t in range(6)]
        perm = G.choice([0, 1])
        for i in (0, 1):
            lines.append(f'new {i} {fr(G.choice([Fr(1), Fr(2)]))}' + (' p' if i == perm or G.random() < 0.2 else ''))
        for t, k in enumerate(['s', 'a', 't0', 't1', G.choice(['s', 't0', 't1']), G.choice(['a', 't0', 't1'])]):
            d = G.choice([Fr(1, 8), Fr(1, 2), Fr(1), Fr(2)])
            lines.append(f'op {G.choice("mo")} {k} q {fr(d)} {t}')
        if G.random() < 0.6:
            lines.append(f'run {fr(G.choice([Fr(1, 8), Fr(1, 4), Fr(1, 2)]))} {fr(G.choice([Fr(0), Fr(1, 64)]))}')
        lines.append(G.choice(['cmdp', 'cmdp h']))
        lines.append(G.choice([f'run 3 0', f'run 1 1/64', 'wake t0 n', 'wake t1 n']))
        for k in ['s', 'a', 't0', 't1']:
            if G.random() < 0.7:
                lines.append(f'op m {k} q {fr(G.choice([Fr(1, 8), Fr(1, 2)]))} {G.randrange(6)}')
        lines += [f'run 3 {fr(G.choice([Fr(0), Fr(1, 64)]))}', 'fin', 'cont a', f'run {BIG} 0', 'dump']
        return lines

    def gen_etempo(self, G):
        """a TempoClock that has been running for a while, tasks pending, etempo() from a thread or a task"""
        rate = G.choice([Fr(1), Fr(2), Fr(4)])
        v = G.choice([Fr(1, 2), Fr(1), Fr(2), Fr(4)])
        lines = ['task 0 F ' + G.choice(['d', 'r:1/2 | r:1/2 | d']), 'task 1 R r:1/4 | r:1/4 | d',
                 f'task 2 F t0:E:{fr(v)} ' + G.choice(['d', 'r:1/2 | d']), f'new 0 {fr(rate)}']
        lines.append(f'run {fr(G.choice([Fr(1, 2), Fr(3), Fr(5, 4)]))} 0')            # the clock gets an age
        for t in (0, 1):
            lines.append(f'op m t0 q {fr(G.choice([Fr(1), Fr(2), Fr(3)]))} {t}')
        if G.random() < 0.5:
            lines.append(f'op m t0 q {fr(G.choice([Fr(1, 4), Fr(1, 2)]))} 2')          # etempo from a task
            lines.append(f'run 1 {fr(G.choice([Fr(0), Fr(1, 64), Fr(1, 4)]))}')
        else:
            lines.append(f'adv {fr(G.choice([Fr(1, 8), Fr(1, 2)]))}')
            lines.append(f'op {G.choice("mo")} t0 E {fr(v)}')
        lines += [f'run 2 {fr(G.choice([Fr(0), Fr(1, 64)]))}', f'op m t0 q 1/2 0', f'run {BIG} 0', 'dump']
        return lines

    def gen_same_callable(self, G):
        """the same plain function scheduled k times while earlier schedulings are pending (k wake-ups),
        next to a Function object scheduled twice (one task: the second call moves it)"""
        k = G.choice(['s', 'a', 't0'])
        lines = ['task 0 P ' + G.choice(['d', 'd', 'ri:1 | d', 'rf:1/4 | d', 'x']), 'task 1 F d', 'task 2 P d | r:1/8 | d',
                 'new 0 ' + fr(G.choice([Fr(1), Fr(2)]))]
        for _ in range(G.randint(2, 4)):
            lines.append(f'op {G.choice("mo")} {k} q {fr(G.choice([Fr(1, 8), Fr(1, 4), Fr(1, 4), Fr(1, 2), Fr(1)]))} 0')
        for _ in range(2):
            kk = G.choice(['s', 'a', 't0'])
            lines.append(f'op m {kk} q {fr(G.choice([Fr(1, 4), Fr(1)]))} 1')
            lines.append(f'op m {kk} q {fr(G.choice([Fr(1, 8), Fr(1, 2)]))} 2')
        lines += [f'run 1/4 {fr(G.choice([Fr(0), Fr(1, 64)]))}', 'dump', f'op m {k} q 0 0', f'op m {k} q 0 0',
                  f'run 3 0', 'fin', 'cont a', f'run {BIG} 0', 'dump']
        return lines

    def gen_defer(self, G):
        """defer(callable, delta, clock) with callables returning numbers / None / other: exactly one call each"""
        res = ['r:1/8', 'r:0', 'ri:1', 'rf:1/4', 'd', 'n', 'bt', 'x', 'r:1/2 | r:1/2 | r:1/2']
        lines = [f'task {t} P ' + G.choice(res) for t in range(4)] + ['new 0 ' + fr(G.choice([Fr(1), Fr(2)]))]
        for _ in range(G.randint(3, 8)):
            k = G.choice(['s', 'a', 'a', 't0'])
            lines.append(f'op {G.choice("mo")} {k} d {fr(G.choice([Fr(0), Fr(1, 8), Fr(1, 2), Fr(1)]))} {G.randrange(4)}')
            if G.random() < 0.3:
                lines.append(f'op m {k} q {fr(G.choice([Fr(1, 4), Fr(1)]))} {G.randrange(4)}')
            if G.random() < 0.3:
                lines.append(f'run {fr(G.choice([Fr(1, 8), Fr(1, 2)]))} {fr(G.choice([Fr(0), Fr(1, 64)]))}')
        lines += ['dump', f'run 4 {fr(G.choice([Fr(0), Fr(1, 64)]))}', 'fin', 'cont a', f'run {BIG} 0', 'dump']
        return lines

    def gen_slow_tempo(self, G):
        """a very slow TempoClock, two tasks a tiny beat distance apart, and a notification just before a
        deadline: nothing may be awakened before its due time (exact comparison in virtual time)"""
        rate = G.choice([Fr(1, 512), Fr(1, 2048), Fr(1, 128)])
        eps = G.choice([Fr(1, 16384), Fr(1, 32768), Fr(1, 65536)])
        b = G.choice([Fr(1, 256), Fr(1, 128), Fr(3, 256)]) * G.choice([1, 1, 2])
        lines = ['task 0 F ' + G.choice(['d', f'r:{fr(eps)} | d']), 'task 1 R d', 'task 2 F d', 'task 3 F d',
                 f'new 0 {fr(rate)}', f'op m t0 s {fr(b)} 0', f'op {G.choice("mo")} t0 s {fr(b + eps)} 1',
                 f'op m t0 s {fr(b + 3 * eps)} 2']
        due = b / rate
        if G.random() < 0.5:
            # stop just short of the first deadline and notify the sleeping thread with an unrelated later task
            lines.append(f'run {fr(due - eps / rate / 2)} 0')
            lines.append(f'op {G.choice("mo")} t0 s {fr(b + 1)} 3')
            lines.append('wake t0 n')
        lines.append(f'run {fr(due + 8 * eps / rate)} {fr(G.choice([Fr(0), Fr(0), eps / rate / 4]))}')
        lines += ['dump', f'run {BIG} 0', f'run {int(2 / rate) + 8} 0', 'dump']
        return lines

    def gen_readd_storm(self, G):
        """40-100 re-schedulings of still-pending task objects (the queue replaces the entry), then everything
        runs: order by (time, call) and never early must survive the queue's internal clean-ups"""
        k = G.choice(['s', 's', 't0'])
        nt = G.randint(34, 48)
        lines = [f'task {t} {G.choice("FFR")} ' + G.choice(['d', 'd', 'r:1/8 | d']) for t in range(nt)]
        lines.append('new 0 ' + fr(G.choice([Fr(1), Fr(2)])))
        for t in range(nt):
            lines.append(f'op m {k} s {fr(Fr(G.randint(8, 80), 8))} {t}')
        for _ in range(G.randint(40, 100)):
            lines.append(f'op {G.choice("mmo")} {k} s {fr(Fr(G.randint(8, 80), 8))} {G.randrange(nt)}')
            if G.random() < 0.04:
                lines.append('dump')
        if G.random() < 0.5:
            lines.append(f'run {fr(Fr(G.randint(8, 40), 8))} {fr(G.choice([Fr(0), Fr(1, 64)]))}')
            for _ in range(G.randint(10, 40)):
                lines.append(f'op m {k} q {fr(Fr(G.randint(1, 40), 8))} {G.randrange(nt)}')
        lines += ['dump', f'run {BIG} 0', 'dump']
        return lines

    def gen(self, rng, n):
        out = []
        for _ in range(n):
            r = rng.random()
            out.append(self.gen_tempo_batch(rng) if r < 0.08 else self.gen_midstep(rng) if r < 0.18
                       else self.gen_cmdperiod(rng) if r < 0.24 else self.gen_etempo(rng) if r < 0.30
                       else self.gen_same_callable(rng) if r < 0.36 else self.gen_slow_tempo(rng) if r < 0.41
                       else self.gen_readd_storm(rng) if r < 0.44 else self.gen_defer(rng) if r < 0.49
                       else self.gen_one(rng))
        return out

    # ---- real-thread soak (thorough tier): count, order, not early, sched-ahead not lost -------
    def soak_scenarios(self, G, n):
        scs = []
        for _ in range(n):
            tempo = G.choice([1.0, 2.0, 4.0])
            items, late_items, tid = [], [], 0
            for k in 'sat':
                # a far head, then (from the second thread, while the clock sleeps) a task ahead of it
                far = G.choice([0.9, 1.0, 1.1])
                items.append((k, far * (tempo if k == 't' else 1), tid, [])); tid += 1
                items.append((k, 0.05 * G.randint(1, 6), tid, [0.05 * G.randint(0, 3) for _ in range(G.randint(0, 4))] +
                              (['x'] if G.random() < 0.3 else []))); tid += 1
                late_items.append((0.05 * G.randint(1, 3), k, 0.25 * (tempo if k == 't' else 1), tid,
                                   [0.1] * G.randint(0, 2))); tid += 1
            scs.append({'tempo': tempo, 'items': items, 'late_items': late_items, 'horizon': 1.8})
        return scs

    def extra_static(self):
        if self.tier != 'thorough':
            return []
        G = __import__('random').Random(f'C08:soak:{self.seed}')
        scs = self.soak_scenarios(G, 8)
        res, err = common.run_impl('c08', 'run_soak', {'scenarios': scs}, timeout=600)
        if res is None:
            self.notes.append('soak failed to run: ' + str(err)[-300:])
            return []
        self.notes.append(f'real-thread soak: {len(scs)} scenarios, {sum(len(r["log"]) for r in res)} awakes')
        out = []
        for sc, r in zip(scs, res):
            v = self.soak_check(sc, r)
            if v:
                out.append({'what': 'real threads: ' + v[0], 'signature': v[1], 'case': sc})
                break
        return out

    @staticmethod
    def soak_check(sc, r):
        log = r['log']
        if not all(r['alive'].values()):
            return (f'a clock thread died: {r["alive"]}', 'c08:thread-died')
        tasks = {t[2]: t for t in sc['items']}
        tasks.update({t[3]: (t[1], t[2], t[3], t[4]) for t in sc['late_items']})
        seen = {}
        for k, tid, logical, beats, phys in log:
            seen.setdefault(tid, []).append((k, logical, beats, phys))
        for tid, (k, d, _, deltas) in tasks.items():
            want = deltas.index('x') + 1 if 'x' in deltas else len(deltas) + 1
            got = seen.get(tid, [])
            if len(got) != want:
                return (f'task {tid} on {k} awakened {len(got)} times, expected {want}', 'c08:soak-count')
            for i, (kk, logical, beats, phys) in enumerate(got):
                if phys < logical - 1e-9:
                    return (f'task {tid} on {k} awakened at {phys:.4f} s before its time {logical:.4f} s', 'c08:soak-early')
                if k != 'a' and i > 0:
                    prev = got[i - 1]
                    step = deltas[i - 1]
                    exp = (prev[2] + step) if k == 't' else (prev[1] + step)
                    cur = beats if k == 't' else logical
                    if abs(cur - exp) > 1e-9:
                        return (f'task {tid} on {k}: logical time {cur} after yielding {step} at {exp - step}', 'c08:soak-logical')
        # the task scheduled ahead of the sleeping head must not wait for the head's deadline
        for delay, k, d, tid, deltas in sc['late_items']:
            first = seen[tid][0]
            late = first[3] - first[1]
            if late > 0.3:
                return (f'task {tid} scheduled on {k} ahead of the sleeping head ran {late:.3f} s late', 'c08:soak-lost-wakeup')
        # order per clock (sys/tempo): logical times of successive awakes never decrease by more than
        # what a later scheduling call explains
        for k in 'st':
            times = [(l if k == 's' else b) for kk, tid, l, b, p in log if kk == k]
            late_ids = {t[3] for t in sc['late_items']}
            seq = [(tid, (l if k == 's' else b)) for kk, tid, l, b, p in log if kk == k and tid not in late_ids]
            for (t1, a), (t2, b) in zip(seq, seq[1:]):
                if b < a - 1e-9:
                    return (f'clock {k}: task {t2} (time {b}) awakened after task {t1} (time {a})', 'c08:soak-order')
        return None

    # ---- runners ---------------------------------------------------------------------------
    def impl(self, cases):
        """one process runs cases until a failure of the real code spoils its world (dead clock thread,
        clear/stop raising ...); the rest continues in a fresh process"""
        outs, restarts = [], 0
        while len(outs) < len(cases):
            res, err = common.run_impl('c08', 'run', {'cases': cases[len(outs):]})
            if res is None or not res['outs']:
                self.notes.append(err or 'impl returned nothing')
                return None
            outs.extend(res['outs'])
            if len(outs) < len(cases):
                restarts += 1
        if restarts:
            self.notes.append(f'{restarts} fresh impl processes after a spoilt world')
        return outs

    def model(self, cases):
        lines = []
        for c in cases:
            lines.append('reset')
            lines.extend(c)
        out, err = common.run_driver('Sc3Verif/C08/Driver.lean', lines)
        if out is None:
            raise RuntimeError('driver failed: ' + err)
        res, cur = [], None
        for l in out:
            if l == 'reset':
                cur = []; res.append(cur)
            else:
                cur.append(l)
        return res

    def oracle(self, case, out):
        return Spec(case).check(out)

    def nontrivial(self, case, out):
        j = ';'.join(o.rpartition(' @')[0] for o in out)
        return 'A' in j and any(x in j for x in (':1', 'E', 'X')) or (' c' in ' '.join(case) and 'A' in j)

    def histogram(self, cases, outs):
        h = {}
        for c, o in zip(cases, outs):
            for l in c:
                k = l.split()[0]
                h['line:' + k] = h.get('line:' + k, 0) + 1
            for l in o:
                l = l.rpartition(' @')[0]
                if l in ('-', 'noop'):
                    h['out:' + l] = h.get('out:' + l, 0) + 1
                    continue
                for e in l.split(';'):
                    if e[:1] in 'AWNEXR' and len(e) > 1 and e[1] in 'sat:':
                        key = 'ev:' + e[0] + (e[1] if e[1] != ':' else '')
                        if e[0] == 'N':
                            key += e[-2:]
                        h[key] = h.get(key, 0) + 1
        h['scripts'] = len(cases)
        h['max_lines'] = max((len(c) for c in cases), default=0)
        return h

    def shrink(self, case, fails):
        """delta-debug the command lines, drop unreferenced definitions, then thin out behaviours"""
        import re
        defs = [l for l in case if l.split()[0] in ('task', 'new')]
        cmds = [l for l in case if l.split()[0] not in ('task', 'new')]

        def prune(defs, cmds):
            """definitions still referenced by the commands (transitively through behaviours)"""
            text = ' '.join(cmds)
            tasks, clocks = set(), set(re.findall(r'\bt(\d+)\b', text))
            for ln in cmds:
                w = ln.split()
                if w[0] == 'op' and len(w) >= 6 and w[3] in ('s', 'q', 'd'):
                    tasks.add(w[5])
                elif w[0] == 'half':
                    tasks.add(w[2])
            body = {l.split()[1]: l for l in defs if l.startswith('task')}
            todo = list(tasks)
            while todo:
                t = todo.pop()
                for m in re.finditer(r'(\w+):[sq]:[^: ]+:(\d+)', body.get(t, '')):
                    if m.group(2) not in tasks:
                        tasks.add(m.group(2)); todo.append(m.group(2))
                clocks |= set(re.findall(r'\bt(\d+):', body.get(t, '')))
            keep = []
            for l in defs:
                w = l.split()
                if (w[0] == 'task' and w[1] in tasks) or (w[0] == 'new' and w[1] in clocks):
                    keep.append(l)
            return keep

        ok = lambda c: fails(prune(defs, c) + c)
        if cmds and ok(cmds):
            cmds = common.shrink_list(cmds, ok, max_steps=120)
        defs = prune(defs, cmds)
        # thin out behaviours: fewer behaviours per task, fewer atoms per behaviour
        for i, l in enumerate(list(defs)):
            if not l.startswith('task'):
                continue
            w = l.split()
            behs = [b.split() for b in ' '.join(w[3:]).split('|') if b.split()]
            changed = True
            while changed:
                changed = False
                cands = [behs[:j] + behs[j + 1:] for j in range(len(behs))]
                cands += [behs[:j] + [b[:k] + b[k + 1:]] + behs[j + 1:]
                          for j, b in enumerate(behs) for k in range(len(b) - 1)]
                for cb in cands[:12]:
                    nl = ' '.join(w[:3]) + ' ' + ' | '.join(' '.join(b) for b in cb)
                    trial = defs[:i] + [nl] + defs[i + 1:]
                    if fails(prune(trial, cmds) + cmds) and len(prune(trial, cmds)) == len(trial):
                        behs, defs, changed = cb, trial, True
                        break
        return prune(defs, cmds) + cmds
