"""C19 — Envelopes encode to the server format and evaluate consistently."""
import ast
import json
import sys
from fractions import Fraction

from harness import common

sys.path.insert(0, str(common.VERIF / 'tools'))
import py2lean  # noqa: E402

# The server's envelope shape numbers (SuperCollider EnvGen) for the names the Env docstring
# promises; 5 is "curvature value".
SERVER_SHAPES = {'step': 0, 'lin': 1, 'linear': 1, 'exp': 2, 'exponential': 2, 'sin': 3, 'sine': 3,
                 'wel': 4, 'welch': 4, 'sqr': 6, 'squared': 6, 'cub': 7, 'cubed': 7, 'hold': 8}
CTORS = ['new', 'triangle', 'sine', 'perc', 'linen', 'step', 'cutoff', 'dadsr', 'adsr', 'asr', 'pairs', 'xyc']
# documented default arguments (docstrings of envelope.py), independent of the code's signature
DOC_DEFAULTS = {
    'new': {'levels': [0, 1, 0], 'times': [1, 1], 'curves': 'n:lin'},
    'triangle': [1.0, 1.0], 'sine': [1.0, 1.0], 'perc': ([0.01, 1.0, 1.0], 'c:-4'),
    'linen': ([0.01, 1.0, 1.0, 1.0], 'n:lin'), 'cutoff': ([0.1, 1.0], 'n:lin'),
    'dadsr': ([0.1, 0.01, 0.3, 0.5, 1.0, 1.0, 0.0], 'c:-4'), 'adsr': ([0.01, 0.3, 0.5, 1.0, 1.0, 0.0], 'c:-4'),
    'asr': ([0.01, 1.0, 1.0], 'c:-4'), 'step': {'levels': [0, 1], 'times': [1, 1]},
}
TOL = Fraction(1, 10 ** 9)


def fq(q):
    q = Fraction(float(Fraction(q)))
    return str(q.numerator) if q.denominator == 1 else f'{q.numerator}/{q.denominator}'


def F(s):
    return Fraction(s)


def curve_shape(c):
    """'n:lin' -> 1 ; 'c:…' / 'ci:…' (float / int curvature) -> 5 ; undocumented name -> None"""
    return 5 if c.startswith(('c:', 'ci:')) else SERVER_SHAPES.get(c[2:])


def curve_value(c):
    if c.startswith('ci:'):
        return Fraction(c[3:])
    return Fraction(c[2:]) if c.startswith('c:') else Fraction(0)


def f32(x):
    import struct
    return Fraction(struct.unpack('>f', struct.pack('>f', float(x)))[0])


def wrap_extend(lst, n):
    if not lst or n <= 0:
        return []
    return [lst[i % len(lst)] for i in range(n)]


def doc_env(case):
    """The envelope the documentation promises for a constructor call:
    dict(levels, times, curves, rel, loop, offset) or 'E:…'."""
    ctor = case['ctor']
    a = [F(x) for x in case.get('args', [])]
    cur = case.get('curve')

    def env(levels, times, curves, rel=None, loop=None, offset=Fraction(0)):
        levels = levels or [Fraction(0), Fraction(1), Fraction(0)]
        times = wrap_extend(times or [Fraction(1), Fraction(1)], len(levels) - 1)
        return {'levels': levels, 'times': times, 'curves': curves, 'rel': rel, 'loop': loop, 'offset': offset}
    if ctor == 'new':
        cs = case['curves']
        return env([F(x) for x in case['levels']], [F(x) for x in case['times']],
                   cs if isinstance(cs, list) else [cs], case['rel'], case['loop'], F(case['offset']))
    if ctor == 'triangle':
        return env([0, a[1], 0], [a[0] / 2, a[0] / 2], ['n:lin'])
    if ctor == 'sine':
        return env([0, a[1], 0], [a[0] / 2, a[0] / 2], ['n:sine'])
    if ctor == 'perc':
        return env([0, a[2], 0], [a[0], a[1]], [cur])
    if ctor == 'linen':
        return env([0, a[3], a[3], 0], [a[0], a[1], a[2]], [cur])
    if ctor == 'cutoff':
        sh = curve_shape(cur)
        if sh is None:
            return 'E:ValueError'
        return env([a[1], Fraction(1, 100000) if sh == 2 else 0], [a[0]], [cur], 0)
    if ctor == 'dadsr':
        dl, at, dc, su, rl, pk, bias = a
        return env([x + bias for x in (0, 0, pk, pk * su, 0)], [dl, at, dc, rl], [cur], 3)
    if ctor == 'adsr':
        at, dc, su, rl, pk, bias = a
        return env([x + bias for x in (0, pk, pk * su, 0)], [at, dc, rl], [cur], 2)
    if ctor == 'asr':
        return env([0, a[1], 0], [a[0], a[2]], [cur], 1)
    if ctor == 'step':
        lv = [F(x) for x in case['levels']] or [Fraction(0), Fraction(1)]
        tm = [F(x) for x in case['times']] or [Fraction(1), Fraction(1)]
        if len(lv) != len(tm):
            return 'E:ValueError'
        rel = case['rel']
        return env([lv[0]] + lv, tm, ['n:step'], None if rel is None else rel - 1, case['loop'], F(case['offset']))
    if ctor in ('xyc', 'pairs'):
        if ctor == 'pairs':
            cs = case['curves']
            n = len(case['pts'])
            if cs is None:
                cs = ['n:lin'] * n
            elif not isinstance(cs, list):
                cs = [cs] * n
            elif len(cs) != n:
                return 'E:ValueError'
            pts = [(F(t), F(l), c) for (t, l), c in zip(case['pts'], cs)]
        else:
            pts = [(F(t), F(l), c) for t, l, c in case['pts']]
        if not pts:
            return 'E:IndexError'
        pts = sorted(pts, key=lambda p: p[0])          # stable
        ts = [p[0] for p in pts]
        return env([p[1] for p in pts], [b - x for x, b in zip(ts, ts[1:])], [p[2] for p in pts][:-1],
                   offset=ts[0])
    raise ValueError(ctor)


def doc_format(e):
    """initial level, segment count, release / loop node or -99, then (level, time, shape, curve)"""
    n = len(e['times'])
    out = [Fraction(e['levels'][0]), Fraction(n),
           Fraction(-99 if e['rel'] is None else e['rel']), Fraction(-99 if e['loop'] is None else e['loop'])]
    for i in range(n):
        if not e['curves']:
            return 'E:ZeroDivisionError'
        c = e['curves'][i % len(e['curves'])]
        sh = curve_shape(c)
        if sh is None:
            return 'E:ValueError'
        out += [Fraction(e['levels'][i + 1]), Fraction(e['times'][i]), Fraction(sh), curve_value(c)]
    return out


class Check(common.Check):
    PROP = 'C19'
    LEAN_TARGETS = ['Sc3Verif.C19.Props']
    LEAN_DIRS = ['Sc3Verif/C19', 'Sc3Verif/C15']
    THEOREMS = ['Sc3Verif.C19.' + t for t in (
        'shape_numbers_match_server', 'shape_number_cases', 'format_layout', 'times_curves_wrapped',
        'ctor_breakpoints_triangle', 'ctor_breakpoints_sine', 'ctor_breakpoints_perc', 'ctor_breakpoints_linen',
        'ctor_breakpoints_asr', 'ctor_breakpoints_adsr', 'ctor_breakpoints_dadsr', 'ctor_breakpoints_cutoff',
        'ctor_breakpoints_step', 'ctor_step_default', 'ctor_breakpoints_xyc', 'ctor_pairs_is_xyc',
        'at_breakpoint_is_level', 'within_segment_between_neighbours', 'within_segment_defined',
        'exp_at_segment_start', 'after_end_holds_last', 'env_at_agrees_with_real', 'at_needs_a_segment', 'segValue_total',
        'segValue_cubed_at_zero')]
    N_QUICK = 1500
    N_THOROUGH = 40000
    ASSUMPTIONS = [
        'single-channel envelopes with numeric levels/times/curves (no UGens, no list-valued entries)',
        'Python float idealised as an exact rational / real number; correspondence is exact on dyadic '
        'inputs for the step, hold, linear and near-zero-curvature shapes, transcendental shapes are '
        'checked by the law oracle on the real values with tolerance 1e-9 (cubed: 1e-5)',
        'domain of the shapes as documented: exponential needs non-zero levels of one sign, squared and '
        'cubed non-negative levels; durations non-negative',
    ]

    def regen(self):
        err, res = py2lean.generate('C19', str(common.REPO))
        if err:
            return err
        self.index = res['index']
        return None

    # ------------------------------------------------------------------ generator
    def rule(self):
        return ('Env(...) with 0-8 segments, levels/times/curves lists shorter than needed (wrapped), every '
                'documented shape name incl. aliases, curvature numbers (zero, tiny, ±), undocumented names, '
                'release/loop nodes, offsets, zero durations; every constructor (triangle sine perc linen step '
                'cutoff dadsr adsr asr pairs xyc) with dyadic parameters and with its documented defaults; '
                'evaluation times before 0, at every breakpoint, inside every segment and beyond the end. '
                'Non-trivial: at least two segments and an evaluation strictly inside a segment; distinct by case')

    def dy(self, rng, lo, hi, dens=(1, 2, 4, 8)):
        d = rng.choice(dens)
        return Fraction(rng.randint(lo * d, hi * d), d)

    def curve(self, rng, domain):
        r = rng.random()
        if r < 0.62:
            names = ['step', 'lin', 'linear', 'hold', 'sin', 'sine', 'wel', 'welch']
            if domain in ('pos', 'nonneg'):
                names += ['sqr', 'squared', 'cub', 'cubed']
            if domain == 'nonneg':             # exponential segments that start from / fall to exactly 0
                names += ['exp', 'exponential']
            if domain == 'pos':
                names += ['exp', 'exponential']
            return 'n:' + rng.choice(names)
        if r < 0.66:
            return 'n:' + rng.choice(['foo', 'sqrt', 'linea', ''])
        v = rng.choice([self.dy(rng, -8, 8), Fraction(0), Fraction(1, 16384), Fraction(-1, 32768), Fraction(-4), Fraction(2),
                        Fraction(rng.randint(-8, 8))])
        if v.denominator == 1 and rng.random() < 0.5:
            return f'ci:{v.numerator}'        # the curvature given as a Python int
        return 'c:' + fq(v)

    def eval_times(self, rng, e):
        if isinstance(e, str):
            return ['0', '1']
        off = e['offset']
        ts, acc = [Fraction(0)], Fraction(0)
        for d in e['times']:
            acc += d
            ts.append(acc)
        out = set(ts)
        for a, b in zip(ts, ts[1:]):
            if b > a:
                out.add(a + (b - a) * Fraction(rng.randint(1, 15), 16))
                if rng.random() < 0.5:
                    out.add(a + (b - a) / 2)
        out.add(acc + rng.randint(1, 5))
        out.add(Fraction(-1))
        pick = sorted(out)
        if len(pick) > 14:
            pick = sorted(rng.sample(pick, 14))
        return [fq(t + off) for t in pick]

    def gen_case(self, rng):
        ctor = rng.choice(['new'] * 9 + CTORS[1:])
        domain = rng.choice(['any', 'pos', 'nonneg', 'pos'])

        def level():
            if domain == 'pos':
                return self.dy(rng, 1, 12, (1, 2, 4, 8)) / rng.choice([1, 1, 4])
            if domain == 'nonneg':
                return Fraction(0) if rng.random() < 0.25 else self.dy(rng, 0, 12)
            return self.dy(rng, -8, 8)

        def dur():
            r = rng.random()
            return Fraction(0) if r < 0.08 else self.dy(rng, 1, 16, (1, 2, 4, 8, 16)) / rng.choice([1, 4])
        c = {'ctor': ctor}
        if ctor == 'new':
            n = rng.choice([0, 1, 1, 2, 2, 3, 3, 4, 5, 6, 8])
            c['levels'] = [fq(level()) for _ in range(n + 1)]
            nt = rng.randint(1, max(1, n)) if rng.random() < 0.5 else max(1, n)
            c['times'] = [fq(dur()) for _ in range(nt)]
            if rng.random() < 0.4:
                c['curves'] = self.curve(rng, domain)
            else:
                c['curves'] = [self.curve(rng, domain) for _ in range(rng.randint(1, n + 1))]
            c['rel'] = rng.randint(0, max(0, n)) if rng.random() < 0.4 else None
            c['loop'] = rng.randint(0, max(0, n)) if rng.random() < 0.2 else None
            c['offset'] = fq(self.dy(rng, 0, 4)) if rng.random() < 0.2 else '0'
        elif ctor in ('triangle', 'sine'):
            c['args'] = [fq(dur() * 2), fq(level())]
        elif ctor == 'perc':
            c['args'] = [fq(dur()), fq(dur()), fq(level())]
            c['curve'] = self.curve(rng, domain)
        elif ctor == 'linen':
            c['args'] = [fq(dur()), fq(dur()), fq(dur()), fq(level())]
            c['curve'] = self.curve(rng, domain)
        elif ctor == 'cutoff':
            c['args'] = [fq(dur()), fq(level())]
            c['curve'] = self.curve(rng, domain)
        elif ctor == 'dadsr':
            c['args'] = [fq(dur()), fq(dur()), fq(dur()), fq(self.dy(rng, 0, 1, (8,))), fq(dur()), fq(level()),
                         fq(self.dy(rng, 0, 2) if rng.random() < 0.3 else 0)]
            c['curve'] = self.curve(rng, 'any' if domain == 'any' else 'nonneg')
        elif ctor == 'adsr':
            c['args'] = [fq(dur()), fq(dur()), fq(self.dy(rng, 0, 1, (8,))), fq(dur()), fq(level()),
                         fq(self.dy(rng, 0, 2) if rng.random() < 0.3 else 0)]
            c['curve'] = self.curve(rng, 'any' if domain == 'any' else 'nonneg')
        elif ctor == 'asr':
            c['args'] = [fq(dur()), fq(level()), fq(dur())]
            c['curve'] = self.curve(rng, 'any' if domain == 'any' else 'nonneg')
        elif ctor == 'step':
            n = rng.randint(1, 6)
            c['levels'] = [fq(level()) for _ in range(n)]
            c['times'] = [fq(dur()) for _ in range(n if rng.random() < 0.9 else n + 1)]
            c['rel'] = rng.randint(1, n) if rng.random() < 0.6 else None
            c['loop'] = rng.randint(0, n - 1) if rng.random() < 0.2 else None
            c['offset'] = '0'
        else:
            n = rng.randint(1, 6)
            ts = [self.dy(rng, 0, 16, (1, 2, 4)) for _ in range(n)]
            if rng.random() < 0.6:
                ts = sorted(ts)
            if ctor == 'xyc':
                c['pts'] = [[fq(t), fq(level()), self.curve(rng, domain)] for t in ts]
            else:
                c['pts'] = [[fq(t), fq(level())] for t in ts]
                r = rng.random()
                c['curves'] = None if r < 0.3 else (self.curve(rng, domain) if r < 0.6 else
                                                    [self.curve(rng, domain) for _ in range(n if r < 0.95 else n + 1)])
        c['at'] = self.eval_times(rng, doc_env(c))
        return c

    def default_case(self, ctor):
        """constructor called with its documented defaults (the model gets the arguments the
        SOURCE declares as defaults, read with ast)."""
        c = {'ctor': ctor, 'defaults': True}
        src = self.src_defaults().get('__init__' if ctor == 'new' else ctor, {})

        def num(name):
            return fq(Fraction(src[name]))

        def cur(name='curve'):
            v = src.get(name)
            return 'n:' + v if isinstance(v, str) else 'c:' + fq(Fraction(v))
        try:
            if ctor == 'new':
                c.update(levels=[], times=[], curves=cur('curves'), rel=src['release_node'], loop=src['loop_node'],
                         offset=num('offset'))
            elif ctor in ('triangle', 'sine'):
                c['args'] = [num('dur'), num('level')]
            elif ctor == 'perc':
                c.update(args=[num('attack_time'), num('release_time'), num('level')], curve=cur())
            elif ctor == 'linen':
                c.update(args=[num('attack_time'), num('sustain_time'), num('release_time'), num('level')], curve=cur())
            elif ctor == 'cutoff':
                c.update(args=[num('release_time'), num('level')], curve=cur())
            elif ctor == 'dadsr':
                c.update(args=[num(k) for k in ('delay_time', 'attack_time', 'decay_time', 'sustain_level',
                                                'release_time', 'peak_level', 'bias')], curve=cur())
            elif ctor == 'adsr':
                c.update(args=[num(k) for k in ('attack_time', 'decay_time', 'sustain_level', 'release_time',
                                                'peak_level', 'bias')], curve=cur())
            elif ctor == 'asr':
                c.update(args=[num('attack_time'), num('sustain_level'), num('release_time')], curve=cur())
            elif ctor == 'step':
                c.update(levels=[], times=[], rel=src['release_level'], loop=src['loop_level'], offset=num('offset'))
            else:
                return None
        except (KeyError, TypeError, ValueError):
            return None
        c['at'] = ['0', '1/128', '1/2', '1', '5/4', '2', '3']
        return c

    def src_defaults(self):
        if not hasattr(self, '_defaults'):
            tree = ast.parse((common.REPO / 'sc3' / 'synth' / 'envelope.py').read_text())
            out = {}
            for c in tree.body:
                if isinstance(c, ast.ClassDef) and c.name == 'Env':
                    for m in c.body:
                        if isinstance(m, ast.FunctionDef):
                            names = [a.arg for a in m.args.args[1:]]
                            try:
                                ds = [ast.literal_eval(d) for d in m.args.defaults]
                            except ValueError:
                                continue
                            out[m.name] = dict(zip(names[len(names) - len(ds):], ds))
            self._defaults = out
        return self._defaults

    # ---- multichannel expansion: list-valued levels / times / constructor parameters
    MC_CTORS = ('new', 'new', 'perc', 'linen', 'asr', 'triangle', 'sine')

    def gen_mc_case(self, rng):
        for _ in range(20):
            c = self.gen_case(rng)
            if c['ctor'] in self.MC_CTORS and (c['ctor'] != 'new' or len(c['levels']) >= 2):
                break
        else:
            return None

        def widen(x):
            k = rng.choice([2, 2, 3, 4])
            base = Fraction(x)
            return [fq(base + Fraction(rng.randint(0, 6), 4)) for _ in range(k)]
        keys = ['levels', 'times'] if c['ctor'] == 'new' else ['args']
        done = False
        for key in keys:
            vals = list(c.get(key, []))
            for i in range(len(vals)):
                if rng.random() < 0.4:
                    vals[i] = widen(vals[i])
                    done = True
            c[key] = vals
        if not done:
            key = keys[0]
            if not c[key]:
                return None
            c[key][0] = widen(c[key][0])
        c['mc'] = True
        c['at'] = c.get('at', [])[:6]
        return c

    @staticmethod
    def channels(case):
        """flop: channel i takes element i mod len of every list-valued entry"""
        keys = [k for k in ('levels', 'times', 'args') if k in case]
        n = max([len(v) for k in keys for v in case[k] if isinstance(v, list)] or [1])
        out = []
        for i in range(n):
            ch = {k: v for k, v in case.items() if k != 'mc'}
            for k in keys:
                ch[k] = [v[i % len(v)] if isinstance(v, list) else v for v in case[k]]
            out.append(ch)
        return out

    def gen(self, rng, n):
        cases = [c for c in (self.default_case(k) for k in CTORS) if c]
        for _ in range(n):
            c = self.gen_mc_case(rng) if rng.random() < 0.12 else None
            c = c or self.gen_case(rng)
            if not c.get('mc') and rng.random() < 0.3:      # the duration property: setter after the encodings were read
                c['dur'] = fq(Fraction(rng.choice([1, 3, 5, 7, 9, 24]), rng.choice([1, 2, 4, 8])))
            cases.append(c)
        return cases

    # ------------------------------------------------------------------ runners
    def impl(self, cases):
        res, err = common.run_impl('c19', 'run', {'cases': cases})
        if res is None:
            self.notes.append(err)
        return res

    def model(self, cases):
        lines, spans = [], []
        for c in cases:                      # a multichannel case is one model run per channel
            chs = self.channels(c) if c.get('mc') else [c]
            spans.append(len(chs) if c.get('mc') else 0)
            lines += [json.dumps({k: v for k, v in ch.items() if k != 'dur'}) for ch in chs]
        out, err = common.run_driver('Sc3Verif/C19/Driver.lean', lines)
        if out is None:
            raise RuntimeError('driver failed: ' + err)
        flat = []
        for line in out:
            try:
                flat.append(json.loads(line))
            except ValueError:
                raise RuntimeError(f'driver output is not JSON: {line!r}')
        res, k = [], 0
        for sp in spans:
            if sp == 0:
                res.append(flat[k])
                k += 1
            else:
                res.append({'mc': flat[k:k + sp]})
                k += sp
        return res

    def compare(self, case, io, mo):
        if case.get('mc'):
            chs = self.channels(case)
            fm = io.get('fmt')
            if isinstance(fm, str):
                errs = {m.get('fmt') for m in mo['mc'] if isinstance(m.get('fmt'), str)}
                return None if fm in errs else {'impl': fm, 'model': [m.get('fmt') for m in mo['mc']], 'at': 'fmt'}
            if len(fm) != len(chs):
                return {'impl': len(fm), 'model': len(chs), 'at': 'channels'}
            for i, (ch, m) in enumerate(zip(chs, mo['mc'])):
                sub = {'fmt': fm[i], 'at': [a[i] if isinstance(a, list) else a for a in io.get('at', [])]}
                d = self.compare(ch, sub, m)
                if d:
                    d['channel'] = i
                    return d
            return None

        def same(a, b):
            if a == b:
                return True
            try:
                return abs(F(a) - F(b)) <= Fraction(1, 10 ** 12) * max(1, abs(F(a)))
            except (ValueError, ZeroDivisionError):
                return False
        fa, fb = io.get('fmt'), mo.get('fmt')
        if isinstance(fa, str) or isinstance(fb, str):
            if fa != fb:
                return {'impl': fa, 'model': fb, 'at': 'fmt'}
            return None
        if len(fa) != len(fb) or not all(same(a, b) for a, b in zip(fa, fb)):
            return {'impl': fa, 'model': fb, 'at': 'fmt'}
        for k, (a, b) in enumerate(zip(io.get('at', []), mo.get('at', []))):
            if isinstance(b, str) and b.startswith('E:not-executable'):
                continue
            if not same(a, b):
                return {'impl': a, 'model': b, 'at': f'at[{k}] t={case["at"][k]}'}
        if len(io.get('at', [])) != len(mo.get('at', [])):
            return {'impl': io.get('at'), 'model': mo.get('at'), 'at': 'len(at)'}
        return None

    # ------------------------------------------------------------------ oracle
    def oracle(self, case, out):
        ru = out.get('reuse')
        if ru:      # constructor arguments belong to the caller
            if 'changed' in ru:
                what = f'the call changed the caller\'s arguments from {ru["changed"][0]} to {ru["changed"][1]}'
            else:
                what = (f'a second call with the same argument objects gives {ru["second"][1]}, '
                        f'the first gave {ru["second"][0]}')
            return {'what': f'{case["ctor"]}: {what}', 'signature': 'env:ctor-args'}
        du = out.get('dur')
        if du and not isinstance(du, str):      # env.duration = d: the times sum to d, proportions kept
            d = float(F(case['dur']))
            t0, t1 = [float(F(x)) for x in du['before']], [float(F(x)) for x in du['after']]
            tot = sum(t0)
            if tot > 0:
                want = [t * d / tot for t in t0]
                getter = float(F(du['get']))
                if len(t1) != len(t0) or any(abs(a - b) > 1e-9 * max(1.0, abs(b)) for a, b in zip(t1, want)) \
                        or abs(getter - d) > 1e-9 * max(1.0, d):
                    return {'what': f'{case["ctor"]}: after duration = {d} on times {t0} the times are {t1} '
                                    f'(duration reads {getter}); expected {want}, summing to {d}',
                            'signature': 'env:duration'}
        # the node-parameter entry point: the control value is the EnvGen array of every channel
        fm, ctl = out.get('fmt'), out.get('ctl')
        if not isinstance(fm, str) and ctl is not None:
            want = fm if case.get('mc') else [fm]
            if ctl != want:
                return {'what': f'{case["ctor"]}: as a node control value the envelope is sent as {ctl}, its EnvGen '
                                f'encoding is {want} ({len(want)} channel(s))', 'signature': 'env:control-input'}
            nums = [x for x in out.get('osc', []) if x not in ('[', ']')]
            if nums != [v for ch in want for v in ch]:
                return {'what': f'{case["ctor"]}: OSC argument {out.get("osc")} does not carry the encoding {want}',
                        'signature': 'env:control-input'}
        gr = out.get('graph')
        if not isinstance(fm, str) and gr is not None:
            v = self.graph_oracle(case, fm if case.get('mc') else [fm], gr, out.get('ifmt'), bool(case.get('mc')))
            if v:
                return v
        if case.get('mc'):
            if isinstance(fm, str):
                return None
            chs = self.channels(case)
            if len(fm) != len(chs):
                return {'what': f'{case["ctor"]}: {len(fm)} channels encoded, the list-valued entries expand to '
                                f'{len(chs)}', 'signature': 'env:multichannel'}
            for i, ch in enumerate(chs):
                sub = {'fmt': fm[i], 'at': [a[i] if isinstance(a, list) else a for a in out.get('at', [])]}
                v = self.oracle(ch, sub)
                if v:
                    v = dict(v)
                    v['what'] = f'channel {i}: ' + v['what']
                    return v
            return None

        def bad(law, what):
            return {'what': f'{case["ctor"]}{"()" if case.get("defaults") else ""}: {what}',
                    'signature': f'env:{law}'}
        if case.get('defaults'):
            d = DOC_DEFAULTS.get(case['ctor'])
            doc = dict(case)
            doc.pop('defaults')
            if isinstance(d, dict):
                doc.update(levels=[fq(x) for x in d['levels']], times=[fq(x) for x in d['times']])
                if 'curves' in d:
                    doc['curves'] = d['curves']
                doc.setdefault('rel', None), doc.setdefault('loop', None), doc.setdefault('offset', '0')
                if case['ctor'] == 'step':
                    doc['rel'], doc['loop'] = None, None
            elif isinstance(d, tuple):
                doc.update(args=[fq(Fraction(str(x))) if False else fq(Fraction(float(x))) for x in d[0]], curve=d[1])
            else:
                doc['args'] = [fq(Fraction(float(x))) for x in d]
            e = doc_env(doc)
            law = 'ctor-default'
        else:
            e = doc_env(case)
            law = 'format' if case['ctor'] == 'new' else 'ctor'
        fmt = out.get('fmt')
        if isinstance(e, str):
            if fmt != e:
                return bad(law, f'expected {e}, got {fmt if isinstance(fmt, str) else "an envelope"}')
            return None
        exp = doc_format(e)
        if isinstance(exp, str):
            if fmt != exp:
                names = [c for c in e['curves'] if c.startswith('n:')]
                return bad('shape-name' if exp == 'E:ValueError' else law,
                           f'curves {names}: expected {exp}, got {fmt if isinstance(fmt, str) else "an array"}')
            return None
        if isinstance(fmt, str):
            names = sorted({c[2:] for c in e['curves'] if c.startswith('n:')})
            if fmt == 'E:ValueError' and any(n in SERVER_SHAPES for n in names):
                return bad('shape-name', f'documented shape name among {names} rejected with ValueError')
            return bad(law, f'raised {fmt}; documented envelope: levels {[float(x) for x in e["levels"]]}, '
                            f'times {[float(x) for x in e["times"]]}')
        got = [F(x) for x in fmt]
        if len(got) != len(exp) or any(abs(a - b) > Fraction(1, 10 ** 12) for a, b in zip(got, exp)):
            k = next((i for i, (a, b) in enumerate(zip(got, exp)) if abs(a - b) > Fraction(1, 10 ** 12)), min(len(got), len(exp)))
            return bad(law, f'EnvGen array differs at index {k}: got {[str(x) for x in got]}, '
                            f'documented layout gives {[str(x) for x in exp]}')
        # ---- evaluation laws on the real values
        n = len(e['times'])
        ats = out.get('at', [])
        if any(d < 0 for d in e['times']):
            return None
        T = [Fraction(0)]
        for d in e['times']:
            T.append(T[-1] + d)
        for ts, vs in zip(case.get('at', []), ats):
            t = max(Fraction(0), F(ts) - e['offset'])
            if n == 0:
                if vs != 'E:ValueError':
                    return bad('at', f'_at({ts}) on an envelope without segments gave {vs}')
                continue
            if isinstance(vs, str) and vs.startswith(('E:', 'x:', 'o:')):
                # shapes outside their documented domain may fail; inside it they must not
                j = max(i for i in range(n + 1) if T[i] <= t)
                if j < n and not self.in_domain(e, j):
                    continue
                return bad('at', f'_at({ts}) raised/returned {vs}')
            v = F(vs)
            if t >= T[n]:
                if abs(v - e['levels'][n]) > Fraction(1, 10 ** 12):
                    return bad('after-end', f'_at({ts}) = {float(v)} after the end, last level is {float(e["levels"][n])}')
                continue
            j = max(i for i in range(n + 1) if T[i] <= t)      # segment j: level j -> j+1, dur > 0
            if not self.in_domain(e, j):
                continue
            sh = curve_shape(e['curves'][j % len(e['curves'])])
            a, b = e['levels'][j], e['levels'][j + 1]
            scale = max(1, abs(a), abs(b))
            tol = scale * (Fraction(1, 10 ** 5) if sh == 7 else TOL)
            if t == T[j]:
                want = b if sh == 0 else a
                if abs(v - want) > tol:
                    return bad('breakpoint', f'_at({ts}) = {float(v)} at breakpoint {j}, level {float(want)} expected '
                                             f'(shape {sh})')
            ref = self.shape_value(sh, float((t - T[j]) / (T[j + 1] - T[j])), float(a), float(b),
                                   float(curve_value(e['curves'][j % len(e['curves'])])))
            if ref is not None and abs(float(v) - ref) > float(tol) * 10:
                return bad('shape-value', f'_at({ts}) = {float(v)} inside segment {j}, the documented shape {sh} '
                                          f'gives {ref}')
            if not (min(a, b) - tol <= v <= max(a, b) + tol):
                return bad('between', f'_at({ts}) = {float(v)} is outside [{float(min(a, b))}, {float(max(a, b))}] '
                                      f'inside segment {j} (shape {sh})')
        return None

    def graph_oracle(self, case, chans, gr, out_ifmt, mc):
        """EnvGen.ar/.kr and IEnvGen.ar/.kr inside a SynthDef: one unit per channel, each carrying that
        channel's array (read back from the emitted bytes, float32)."""
        def bad(what):
            return {'what': f'{case["ctor"]} in a SynthDef: {what}', 'signature': 'env:ugen-inputs'}
        if isinstance(gr, str):
            return bad(f'the build raised {gr}')
        want_env = sorted([[f32(F(x)) for x in ['1', '1', '0', '1', '0'] + ch] for ch in chans])
        for key in ('EnvGen.ar', 'EnvGen.kr'):
            got = gr.get(key, [])
            try:
                g = sorted([[Fraction(x) for x in u] for u in got])
            except ValueError:
                return bad(f'{key} has non-constant inputs {got}')
            if g != want_env:
                return bad(f'{len(got)} {key} unit(s) with inputs {got}; expected {len(chans)} unit(s), one per channel, '
                           f'carrying gate 1, levelScale 1, levelBias 0, timeScale 1, doneAction 0 and the channel\'s '
                           f'EnvGen array {chans}')
        ifmt = out_ifmt
        if isinstance(ifmt, str):
            return bad(f'_interpolation_format raised {ifmt}')
        if not mc:      # independent layout: offset, initial level, n, total duration, (duration, shape, curvature, level)*
            ch = chans[0]
            n = int(F(ch[1]))
            segs = [ch[4 + 4 * i: 8 + 4 * i] for i in range(n)]
            total = 0
            for sg in segs:
                total = total + float(F(sg[1]))
            exp1 = [F(ch[0]), Fraction(n), Fraction(total)] + [F(x) for sg in segs for x in (sg[1], sg[2], sg[3], sg[0])]
            if len(ifmt) != 1 or [F(x) for x in ifmt[0][1:]] != exp1:
                return {'what': f'{case["ctor"]}: IEnvGen array {ifmt} is not offset, initial level, segment count, total '
                                f'duration and (duration, shape, curvature, level) per segment of {ch}',
                        'signature': 'env:interpolation-format'}
        exp = sorted([[f32(F(x)) for x in ch] for ch in ifmt])
        for key in ('IEnvGen.ar', 'IEnvGen.kr'):
            got = gr.get(key, [])
            try:
                g = sorted([[Fraction(x) for x in u[1:]] for u in got])       # after the index input
            except ValueError:
                return bad(f'{key} has non-constant envelope inputs {got}')
            if g != exp:
                return bad(f'{len(got)} {key} unit(s) with inputs {got}; expected {len(ifmt)} unit(s), one per channel, '
                           f'carrying the channel\'s IEnvGen array {ifmt}')
        return None

    @staticmethod
    def shape_value(sh, pos, a, b, c):
        """The server's / sclang's segment shapes (Env:at), written independently with `math`."""
        import math
        if sh == 0:
            return b
        if sh == 8:
            return a
        if sh == 1 or (sh == 5 and abs(c) < 0.0001):
            return a + (b - a) * pos
        if sh == 2:
            return 0.0 if a == 0 else a * (b / a) ** pos      # 0 ** 0 = 1: the level itself at the breakpoint
        if sh == 3:
            return a + (b - a) * (0.5 - 0.5 * math.cos(math.pi * pos))
        if sh == 4:
            if a < b:
                return a + (b - a) * math.sin(math.pi / 2 * pos)
            return b - (b - a) * math.sin(math.pi / 2 - math.pi / 2 * pos)
        if sh == 5:
            return a + (b - a) * (1 - math.exp(pos * c)) / (1 - math.exp(c))
        if sh == 6:
            y = pos * (math.sqrt(b) - math.sqrt(a)) + math.sqrt(a)
            return y * y
        if sh == 7:
            y = pos * (b ** (1 / 3) - a ** (1 / 3)) + a ** (1 / 3)
            return y ** 3
        return None

    @staticmethod
    def in_domain(e, j):
        sh = curve_shape(e['curves'][j % len(e['curves'])])
        a, b = e['levels'][j], e['levels'][j + 1]
        if sh == 2:                        # same sign; a segment from or to exactly 0 is evaluated too
            return a * b >= 0
        if sh in (6, 7):
            return a >= 0 and b >= 0
        return sh is not None

    # ------------------------------------------------------------------ evidence
    def nontrivial(self, case, out):
        if case.get('mc'):
            return not isinstance(out.get('fmt'), str)
        e = doc_env({k: v for k, v in case.items() if k != 'defaults'}) if not case.get('defaults') else None
        if not isinstance(e, dict) or len(e['times']) < 2 or isinstance(out.get('fmt'), str):
            return False
        T = [Fraction(0)]
        for d in e['times']:
            T.append(T[-1] + d)
        return any(all(F(t) - e['offset'] != x for x in T) and 0 < F(t) - e['offset'] < T[-1] for t in case.get('at', []))

    def histogram(self, cases, outs):
        h = {}
        for c, o in zip(cases, outs):
            k = 'ctor:' + c['ctor'] + (':defaults' if c.get('defaults') else '')
            h[k] = h.get(k, 0) + 1
            if c.get('mc'):
                h['multichannel'] = h.get('multichannel', 0) + 1
                continue
            if isinstance(o.get('fmt'), str):
                h['fmt:' + o['fmt']] = h.get('fmt:' + o['fmt'], 0) + 1
            else:
                n = int(F(o['fmt'][1]))
                h[f'segments:{min(n, 8)}'] = h.get(f'segments:{min(n, 8)}', 0) + 1
                for i in range(n):
                    s = 'shape:' + o['fmt'][4 + 4 * i + 2]
                    h[s] = h.get(s, 0) + 1
            for v in o.get('at', []):
                if isinstance(v, str) and v.startswith('E:'):
                    h['at:' + v] = h.get('at:' + v, 0) + 1
        return dict(sorted(h.items()))
