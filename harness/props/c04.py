"""C04 — Function parameters become correctly laid-out, correctly wired controls."""
import json

from harness import common
from harness.impl import c04 as I

RATES = ('ir', 'tr', 'ar', 'kr')
VALS = [0, 1, 1, 2, 3, 0.5, 0.25, 4, 5, 7, 10, 0.125, 100, 440, -1, -0.5]
LAGS = [0.5, 0.25, 1, 2, 0.125, 0, 0]
GROUP = {'ir': ('Control', 0), 'tr': ('TrigControl', 1), 'ar': ('AudioControl', 2)}


def as_list(v):
    return list(v) if isinstance(v, list) else [v]


def expected_rate(ann, r):
    """intended semantics: a rate name in `rates` wins, else the annotation, else control rate"""
    if isinstance(r, str) and r in RATES:
        return r
    return ann or 'kr'


def expected_lags(r, size):
    """lag of every slot of a control-rate parameter: number -> all slots, list -> cyclically"""
    if isinstance(r, bool) or r is None or isinstance(r, str):
        return [0] * size
    if isinstance(r, (int, float)):
        return [r] * size
    if isinstance(r, list):
        return [r[j % len(r)] for j in range(size)] if r else [0] * size
    return [0] * size


def defaults_of(p, specs):
    d = p['d']
    if d[0] in ('none', 'None'):
        if specs is not None and p['n'] in specs:
            return [specs[p['n']]], False
        return [0], False
    if d[0] == 's':
        return [d[1]], False
    return list(d[1]), True


class Check(common.Check):
    PROP = 'C04'
    LEAN_TARGETS = ['Sc3Verif.C04.Props']
    LEAN_DIRS = ['Sc3Verif/C04']
    THEOREMS = ['Sc3Verif.C04.' + t for t in (
        'names_in_declaration_order', 'level_indices_closed_form', 'layout_by_rate_then_decl', 'classify_spec', 'units_partition_slots',
        'name_index_points_to_defaults', 'body_receives_slots', 'lags_carried', 'later_levels_keep_earlier',
        'wrap_levels_concatenate', 'rates_padding_idempotent', 'variants_overlay', 'variant_block_spec', 'variant_block_length',
        'variants_wellformed', 'call_maps_args')]
    N_QUICK = 1200
    N_THOROUGH = 20000
    ASSUMPTIONS = [
        'defaults, lags and variant values are dyadic numbers exactly representable as float32',
        'the levels of a definition are the graph function and the wrapped functions in wrap-call order',
    ]

    def rule(self):
        return ('signatures of 0-40 parameters (sizes 0-3 / 4-12 / 13-40 equally), annotation in {none,ir,tr,ar,kr}, '
                'rates entry in {absent,None,rate name,lag number,lag list}, default in {missing,None,scalar,tuple 1-20 '
                '(>16 control-rate values frequent)}, prepend 0-3, 0-2 nested wrap levels, metadata specs, 0-3 variants '
                '(valid, partial, unknown name, too many values, name too long), call with positional + keyword '
                'arguments. Non-trivial: >= 2 rate groups or an array control or a wrap level or a lag or a variant; '
                'distinct by case JSON')

    # ---- generator -------------------------------------------------------------------------
    def g_level(self, rng, names, depth, nmax):
        n = rng.choice([rng.randint(0, 3), rng.randint(4, 12), rng.randint(13, nmax)]) if depth == 0 \
            else rng.randint(0, 6)
        nprep = rng.choice([0, 0, 0, 1, 2, 3]) if n else 0
        nprep = min(nprep, n)
        style = rng.random()
        params = []
        n_missing = rng.randint(0, 2) if rng.random() < 0.3 else 0
        for i in range(n):
            # names never decide the rate group (no sclang-style a_/i_/t_ prefix inference)
            nm = rng.choice(['p', 'p', 'p', 't_', 'i_', 'a_', 'k_', 't_trig', 'i_freq', 'a_in', 'gate', 'out', 'freq',
                             'amp', 'trig']) + str(len(names))
            names.append(nm)
            if style < 0.15:
                ann = None
            elif style < 0.3:
                ann = rng.choice(RATES)
            else:
                ann = rng.choice([None, None, 'ir', 'tr', 'ar', 'kr'])
            r = rng.random()
            if i < nprep or i < nprep + n_missing:
                d = ['none'] if rng.random() < 0.7 else ['s', rng.choice(VALS)]
                if d[0] == 's' and any(q['d'][0] == 'none' for q in params[i:]):
                    d = ['none']
            elif r < 0.1:
                d = ['None']
            elif r < 0.65:
                d = ['s', rng.choice(VALS)]
            else:
                k = rng.choice([1, 2, 2, 3, 4, rng.randint(5, 20)])
                d = ['t', [rng.choice(VALS) for _ in range(k)]]
            q = {'n': nm, 'ann': ann, 'd': d}
            if d[0] == 's' and rng.random() < 0.2:
                # same value written as a bool or as an instance of an int/float subclass: slot = float(default)
                v = d[1]
                if v in (0, 1) and rng.random() < 0.6:
                    q['dsrc'] = 'True' if v == 1 else 'False'
                elif v == int(v):
                    q['dsrc'] = f'MyInt({int(v)})'
                else:
                    q['dsrc'] = f'MyFloat({v!r})'
            if i < nprep and rng.random() < 0.5:
                # prepended parameters are not controls: whatever annotation they carry (a type hint, a
                # string that is no rate name, a rate name) is ignored; the layout is a function of the
                # non-prepended parameters only
                q['ann'] = None
                q['annraw'] = rng.choice(['list', 'int', 'object', "'signal'", "'audio'", "'ChannelList'", "'kr '"])
            params.append(q)
        # python syntax: parameters without default must precede those with one
        seen_default = False
        for p in params:
            if p['d'][0] != 'none':
                seen_default = True
            elif seen_default:
                p['d'] = ['None']
        nctl = n - nprep
        rates = None
        if rng.random() < 0.7:
            m = rng.choice([nctl, nctl, rng.randint(0, nctl), nctl + rng.randint(0, 2)])
            rates = []
            for i in range(m):
                r = rng.random()
                if r < 0.3:
                    rates.append(None)
                elif r < 0.55:
                    rates.append(rng.choice(RATES))
                elif r < 0.8:
                    rates.append(rng.choice(LAGS))
                else:
                    rates.append([rng.choice(LAGS) for _ in range(rng.randint(1, 4))])
        lv = {'params': params, 'rates': rates, 'prepend': [rng.choice(VALS) for _ in range(nprep)], 'wraps': []}
        if nprep == 1 and rng.random() < 0.6:
            # `prepend` given as ONE value that is not a list: a bare scalar, or a tuple (one argument)
            if rng.random() < 0.5:
                lv['pform'] = 'scalar'
                if not lv['prepend'][0]:      # `prepend or []`: a falsy bare value means "no prepend" (noted)
                    lv['prepend'] = [rng.choice([v for v in VALS if v])]
            else:
                lv['pform'] = 'tuple'
                lv['prepend'] = [[rng.choice(VALS) for _ in range(rng.randint(1, 3))]]
        if depth < 2:
            for _ in range(rng.choice([0, 0, 0, 1, 1, 2])):
                lv['wraps'].append(self.g_level(rng, names, depth + 1, nmax))
        return lv

    def gen_one(self, rng):
        names = []
        top = self.g_level(rng, names, 0, 40)
        ctl = [p for lv in I.preorder(top) for p in I.level_params(lv)]
        case = {'top': top, 'specs': None, 'variants': [], 'call': None}
        levels = I.preorder(top)
        if rng.random() < (0.5 if len(levels) > 1 else 0.1):
            # ONE rates list object (short, with None entries) shared by the graph function and all
            # wrapped functions: the layout must be that of fresh copies of the same value
            m = rng.randint(0, max(len(I.level_params(lv)) for lv in levels))
            shared = [rng.choice([None, None, None, rng.choice(RATES), rng.choice(LAGS)]) for _ in range(m)]
            for lv in levels:
                lv['rates'] = list(shared)
            case['shared_rates'] = True
        if rng.random() < 0.35:
            case['specs'] = {p['n']: rng.choice(VALS + [0, 0, 0]) for p in ctl if rng.random() < 0.5}
            # specs whose minval is not 0 (a default of 0 must stay 0), explicit and named ones
            case['spec_min'] = {n: rng.choice([-1, -20, 0.5, 20]) for n in case['specs'] if rng.random() < 0.5}
            case['spec_named'] = {}
            for n in list(case['specs']):
                if rng.random() < 0.2:
                    case['spec_named'][n] = rng.choice(['pan', 'bipolar', 'detune'])
                    case['specs'][n] = 0
        if ctl and rng.random() < 0.6:
            for vi in range(rng.randint(1, 3)):
                r = rng.random()
                if r > 0.2:
                    vname = f'v{vi}'
                else:      # around the 32 character limit of `name.variant`
                    vname = f'v{vi}' + 'x' * (rng.choice([30, 31, 32, 32, 33, 34]) - 4 - len(f'v{vi}'))
                pairs = []
                for p in rng.sample(ctl, min(len(ctl), rng.randint(1, 3))):
                    size = len(defaults_of(p, case['specs'])[0])
                    k = rng.random()
                    if k < 0.5:
                        vals = [rng.choice(VALS) for _ in range(size)]
                    elif k < 0.8:
                        vals = [rng.choice(VALS) for _ in range(rng.randint(1, max(1, size)))]
                    elif k < 0.9:
                        vals = [rng.choice(VALS) for _ in range(size + 1)]
                    else:
                        vals = rng.choice(VALS)
                    if isinstance(vals, list) and len(vals) == 1 and rng.random() < 0.5:
                        vals = vals[0]
                    pairs.append([p['n'], vals])
                if rng.random() < 0.07:
                    pairs.append(['nosuch', 1])
                if rng.random() < 0.15:
                    pairs = []          # a variant without overrides is the plain defaults under another name
                case['variants'].append([vname, pairs])
        if rng.random() < 0.6:
            topctl = I.level_params(top)
            na = rng.randint(0, len(topctl) + (1 if rng.random() < 0.1 else 0))
            na = min(na, 6)
            args = [rng.choice(VALS) if rng.random() < 0.8 else [rng.choice(VALS), rng.choice(VALS)] for _ in range(na)]
            kw = [[p['n'], rng.choice(VALS)] for p in rng.sample(ctl, min(len(ctl), rng.randint(0, 3)))]
            case['call'] = {'args': args, 'kwargs': kw}
        return case

    def gen(self, rng, n):
        return [self.gen_one(rng) for _ in range(n)]

    # ---- runners ---------------------------------------------------------------------------
    def impl(self, cases):
        res, err = common.run_impl('c04', 'run', {'cases': cases}, timeout=3000)
        if res is None:
            self.notes.append(err)
            return None
        for r in res:
            if 'infra' in r:
                raise common.Infra('impl runner: ' + r['infra'])
        return res

    def model_lines(self, case):
        ids = I.name_ids(case)
        S = lambda v: str(int(v * I.SCALE))  # noqa
        lines = ['reset']
        for k, v in (case.get('specs') or {}).items():
            lines.append(f'spec {ids[k]} {S(v)}')
        for lv in I.preorder(case['top']):
            ps = []
            for p in lv['params']:
                d = p['d']
                ds = '-' if d[0] in ('none', 'None') else ('s' + S(d[1]) if d[0] == 's' else 't' + ','.join(S(v) for v in d[1]))
                ps.append(f"{ids[p['n']]}:{p['ann'] or '-'}:{ds}")
            rs = []
            for r in (lv.get('rates') or []):
                if r is None:
                    rs.append('N')
                elif isinstance(r, str):
                    rs.append(r)
                elif isinstance(r, list):
                    rs.append('l' + ','.join(S(v) for v in r))
                else:
                    rs.append('n' + S(r))
            lines.append(f"level {len(lv.get('prepend') or [])} ; {' '.join(ps)} ; {' '.join(rs)}")
        lines.append('build')
        for vname, pairs in case.get('variants') or []:
            lines.append(f"variant {len('c04.' + vname)} " +
                         ' '.join(f"{ids[c]}={','.join(S(v) for v in as_list(vals))}" for c, vals in pairs))
        lines.append('variants')
        if case.get('call') is not None:
            def T(v):
                return '[' + ','.join(I.sc(x) for x in v) + ']' if isinstance(v, list) else I.sc(v)
            lines.append('call ' + ' '.join(T(v) for v in case['call']['args']) + ' ; ' +
                         ' '.join(f'{ids[k]}={T(v)}' for k, v in case['call']['kwargs']))
        return lines

    def model(self, cases):
        lines, spans = [], []
        for c in cases:
            ls = self.model_lines(c)
            spans.append((len(lines), len(ls)))
            lines.extend(ls)
        out, err = common.run_driver('Sc3Verif/C04/Driver.lean', lines)
        if out is None:
            raise RuntimeError('driver failed: ' + err)
        if len(out) != len(lines):
            raise RuntimeError(f'driver returned {len(out)} lines for {len(lines)} ops')
        res = []
        for (a, n), c in zip(spans, cases):
            o = out[a:a + n]
            if 'bad-op' in o:
                raise RuntimeError('driver: bad-op for ' + json.dumps(lines[a:a + n])[:400])
            r = {}
            bi = n - 2 - (1 if c.get('call') is not None else 0) - len(c.get('variants') or [])
            r['build'] = o[bi]
            r['variants'] = o[n - 1 - (1 if c.get('call') is not None else 0)]
            if c.get('call') is not None:
                r['call'] = o[n - 1]
            res.append(r)
        return res

    def compare(self, case, io, mo):
        if mo['build'].startswith('ERR'):
            return None if io.get('exc') == 'Exception' else {'impl': io, 'model': mo['build']}
        if 'exc' in io or 'exc_bytes' in io or 'parse_error' in io:
            return {'impl': {k: io[k] for k in io if k in ('exc', 'exc_bytes', 'parse_error')}, 'model': mo['build'][:300]}
        got = f"{io['controls']} # {io['names']} # {io['units']} # {io['args']}"
        if got != mo['build']:
            return {'what': 'controls # names # units # args', 'impl': got, 'model': mo['build']}
        gv = f"{len(io['variants'])}" + ''.join(' # ' + v for _, v in io['variants'])
        if gv != mo['variants']:
            return {'what': 'variants', 'impl': gv, 'model': mo['variants']}
        if case.get('call') is not None and io.get('call') != mo['call']:
            return {'what': 'call', 'impl': io.get('call'), 'model': mo['call']}
        if not io['order_ok']:
            return {'what': 'control units are not written in creation order'}
        return None

    # ---- property oracle (independent of the Lean model) ----------------------------------------
    def oracle(self, case, io):
        specs = case.get('specs')
        levels = I.preorder(case['top'])
        ctl = [(li, p) for li, lv in enumerate(levels) for p in I.level_params(lv)]
        total = sum(len(defaults_of(p, specs)[0]) for _, p in ctl)
        # groups without a single value cannot be built ("wrong number of channels"): outside the property
        for lv in levels:
            ps = I.level_params(lv)
            rs = lv.get('rates') or []
            for g in RATES:
                mem = [p for i, p in enumerate(ps) if expected_rate(p['ann'], rs[i] if i < len(rs) else None) == g]
                if mem and sum(len(defaults_of(p, specs)[0]) for p in mem) == 0:
                    return None
        if 'exc' in io or 'exc_bytes' in io:
            return {'what': f"building the definition raised {io.get('exc') or io.get('exc_bytes')}",
                    'signature': 'build:exc'}
        if 'parse_error' in io:
            return {'what': 'definition bytes are not well-formed SCgf-2: ' + io['parse_error'],
                    'signature': 'bytes:malformed'}
        controls = [int(x) for x in io['controls'].split()]
        S = lambda v: int(v * I.SCALE)  # noqa
        # 1. name table: every control parameter, in declaration order, pointing at its defaults
        names = io['names_raw']
        want_names = [p['n'] for _, p in ctl]
        if [n for n, _ in names] != want_names:
            return {'what': f'name table lists {[n for n, _ in names][:8]}…, parameters are {want_names[:8]}…',
                    'signature': 'names:order'}
        index = {n: i for n, i in names}
        if len(controls) != total:
            return {'what': f'{len(controls)} control slots, the parameters have {total} values', 'signature': 'slots:count'}
        for _, p in ctl:
            vals, _ = defaults_of(p, specs)
            i = index[p['n']]
            got = controls[i:i + len(vals)]
            if got != [S(v) for v in vals]:
                return {'what': f"name table entry {p['n']} -> slot {i} holds {got}, default is {[S(v) for v in vals]}",
                        'signature': 'names:defaults'}
        # 2. layout: levels in order; inside a level rate groups ir,tr,ar,kr; inside a group declaration order
        pos = 0
        for li, lv in enumerate(levels):
            ps = I.level_params(lv)
            rs = lv.get('rates') or []
            for g in RATES:
                for i, p in enumerate(ps):
                    if expected_rate(p['ann'], rs[i] if i < len(rs) else None) == g:
                        if index[p['n']] != pos:
                            return {'what': f"parameter {p['n']} ({g}) is at slot {index[p['n']]}, layout by rate group "
                                            f"then declaration order puts it at {pos}", 'signature': 'layout'}
                        pos += len(defaults_of(p, specs)[0])
        # 3. control units partition the slots, class and rate by group
        units = []
        for u in io['units'].split():
            cls, rate, special, nout, lags = u.split('/')
            units.append({'cls': cls, 'rate': int(rate), 'special': int(special), 'n': int(nout),
                          'lags': [int(x) for x in lags.split(',')] if lags else []})
        pos = 0
        for k, u in enumerate(units):
            if u['special'] != pos:
                return {'what': f"control unit #{k} starts at slot {u['special']}, previous units end at {pos}",
                        'signature': 'units:partition'}
            pos += u['n']
        if pos != len(controls):
            return {'what': f'control units cover {pos} slots of {len(controls)}', 'signature': 'units:partition'}
        if io['other_units'] or not io['unit_outs_rates_ok'] or not io['order_ok']:
            return {'what': 'unexpected units / output rates / order', 'signature': 'units:other'}
        slot_unit = {}
        for k, u in enumerate(units):
            for j in range(u['n']):
                slot_unit[u['special'] + j] = (k, j)
        # 4. what the body received, class/rate of the unit, lags
        rows = io['args'].split(' | ') if levels else []
        for li, lv in enumerate(levels):
            ps = I.level_params(lv)
            rs = lv.get('rates') or []
            toks = tokenize_args(rows[li] if li < len(rows) else '')
            if len(toks) != len(ps):
                return {'what': f'level {li}: body received {len(toks)} values for {len(ps)} parameters',
                        'signature': 'body:count'}
            krlags = []
            for i, p in enumerate(ps):
                r = rs[i] if i < len(rs) else None
                if expected_rate(p['ann'], r) == 'kr':
                    krlags += expected_lags(r, len(defaults_of(p, specs)[0]))
            lagged = any(x != 0 for x in krlags)
            for i, p in enumerate(ps):
                r = rs[i] if i < len(rs) else None
                g = expected_rate(p['ann'], r)
                vals, arr = defaults_of(p, specs)
                t = toks[i]
                if arr != isinstance(t, list) and not (len(vals) != 1 and isinstance(t, list)):
                    return {'what': f"parameter {p['n']}: body received {'a list' if isinstance(t, list) else 'one signal'}"
                                    f" for {'an array' if arr else 'a scalar'} default", 'signature': 'body:shape'}
                got = t if isinstance(t, list) else [t]
                if len(got) != len(vals):
                    return {'what': f"parameter {p['n']}: body received {len(got)} channels for {len(vals)} values",
                            'signature': 'body:shape'}
                lg = expected_lags(r, len(vals)) if g == 'kr' else None
                for j, pr in enumerate(got):
                    want = slot_unit.get(index[p['n']] + j)
                    if pr != want:
                        return {'what': f"parameter {p['n']} channel {j}: body received output {pr}, its slot "
                                        f"{index[p['n']] + j} is output {want}", 'signature': 'body:slot'}
                    u = units[pr[0]]
                    if g in GROUP:
                        wc = GROUP[g]
                    else:
                        wc = ('LagControl' if lagged else 'Control', 1)
                    if (u['cls'], u['rate']) != wc:
                        return {'what': f"parameter {p['n']} ({g}) is served by {u['cls']} rate {u['rate']}, expected {wc}",
                                'signature': 'units:class'}
                    if g == 'kr' and lagged:
                        if len(u['lags']) != u['n'] or u['lags'][pr[1]] != S(lg[j]):
                            return {'what': f"parameter {p['n']} channel {j}: lag input {u['lags'][pr[1]] if pr[1] < len(u['lags']) else None}"
                                            f", rates gives {S(lg[j])}", 'signature': 'lags'}
                    elif u['lags']:
                        return {'what': f"unit of {p['n']} has inputs {u['lags']}", 'signature': 'lags'}
                    if u['cls'] == 'LagControl' and u['n'] > 16:
                        return {'what': 'LagControl with more than 16 channels', 'signature': 'lags:clump'}
        # 4a. the caller's rates / prepend / variants objects are not modified, and a second build from
        #     the same objects gives the same definition
        if io.get('args_after') != io.get('args_before'):
            return {'what': f"building modified the caller's arguments: [rates, prepend, variants] was "
                            f"{io.get('args_before')[:160]}, is {io.get('args_after')[:160]}", 'signature': 'args:mutated'}
        if io.get('rebuild_same') is not True:
            return {'what': f"a second build from the same function and argument objects gives different bytes "
                            f"({io.get('rebuild_same')})", 'signature': 'rebuild:differs'}
        if io.get('decorator_same') is not True:
            return {'what': f"@synthdef(…) with the same keywords builds a different definition than "
                            f"SynthDef(name, f, …) ({io.get('decorator_same')})", 'signature': 'decorator'}
        # 4b. prepended values reach the body unchanged
        for li, lv in enumerate(levels):
            want = [I.pval(v) for v in (lv.get('prepend') or [])]
            if io['prepended'][li] != want:
                return {'what': f"level {li}: body received {io['prepended'][li]} for the prepended values {want}",
                        'signature': 'prepend'}
        # 5. variants: the blocks of the valid prefix, each = defaults with exactly the named slots replaced
        sizes = {p['n']: len(defaults_of(p, specs)[0]) for _, p in ctl}
        want_blocks = []
        for vname, pairs in case.get('variants') or []:
            if len('c04.' + vname) > 32:
                break
            blk = list(controls)
            ok = True
            for cname, vals in pairs:
                vals = as_list(vals)
                if cname not in index or len(vals) > sizes[cname]:
                    ok = False
                    break
                for j, v in enumerate(vals):
                    blk[index[cname] + j] = S(v)
            if not ok:
                break
            want_blocks.append(['c04.' + vname, ' '.join(str(x) for x in blk)])
        if io['variants'] != want_blocks:
            return {'what': f"variant blocks {[n for n, _ in io['variants']]} differ from the overlay of the valid "
                            f"variants {[n for n, _ in want_blocks]}", 'signature': 'variants'}
        # 6. calling the definition
        if case.get('call') is not None:
            ids = I.name_ids(case)

            def T(v):
                return '[' + ','.join(I.sc(x) for x in v) + ']' if isinstance(v, list) else I.sc(v)
            topn = [p['n'] for p in I.level_params(case['top'])]
            want = [f'{ids[n]}={T(v)}' for n, v in zip(topn, case['call']['args'])]
            want += [f'{ids[k]}={T(v)}' for k, v in case['call']['kwargs']]
            if io.get('call') != ' '.join(want):
                return {'what': f"call sends `{io.get('call')}`, positional then keyword arguments are `{' '.join(want)}`",
                        'signature': 'call'}
        return None

    def nontrivial(self, case, io):
        if 'controls' not in io:
            return False
        levels = I.preorder(case['top'])
        kinds = {u.split('/')[0] for u in io['units'].split()}
        return len(kinds) >= 2 or len(levels) > 1 or '[' in io['args'] or bool(io['variants'])

    def histogram(self, cases, outs):
        h = {}

        def inc(k, n=1):
            h[k] = h.get(k, 0) + n
        for c, o in zip(cases, outs):
            levels = I.preorder(c['top'])
            n = sum(len(I.level_params(lv)) for lv in levels)
            inc('params:' + ('0' if n == 0 else '1-3' if n <= 3 else '4-12' if n <= 12 else '13+'))
            inc(f'levels:{min(len(levels), 4)}')
            if any(lv.get('prepend') for lv in levels):
                inc('prepend')
            for lv in levels:
                if lv.get('pform'):
                    inc('prepend_as_' + lv['pform'])
            if any(p.get('annraw') for lv in levels for p in lv['params']):
                inc('prepended_param_with_non_rate_annotation')
            if c.get('specs') is not None:
                inc('specs')
            if c.get('shared_rates'):
                inc('shared_rates_object')
            if any(p['n'][:2] in ('t_', 'i_', 'a_') for lv in levels for p in lv['params']):
                inc('rate_prefix_like_names')
            if any(p.get('dsrc') for lv in levels for p in lv['params']):
                inc('bool_or_subclass_default')
            inc(f"variants:{len(c.get('variants') or [])}")
            if c.get('call') is not None:
                inc('call')
            if 'exc' in o or 'exc_bytes' in o:
                inc('exc:' + str(o.get('exc') or o.get('exc_bytes')))
            elif 'parse_error' in o:
                inc('parse_error')
            else:
                for u in o['units'].split():
                    inc('unit:' + u.split('/')[0])
                if len(o['controls'].split()) > 16:
                    inc('slots>16')
                inc(f"variants_written:{len(o['variants'])}")
        return h

    def shrink(self, case, fails):
        cur = case
        steps = 0

        def variants(c):
            # drop wraps, params (from the end), variants, call, specs, rates
            for path in level_paths(c['top']):
                lv = get_level(c['top'], path)
                if lv.get('wraps'):
                    for i in range(len(lv['wraps'])):
                        d = json.loads(json.dumps(c))
                        del get_level(d['top'], path)['wraps'][i]
                        yield d
                np = len(lv.get('prepend') or [])
                for i in range(len(lv['params']) - 1, np - 1, -1):
                    d = json.loads(json.dumps(c))
                    l2 = get_level(d['top'], path)
                    del l2['params'][i]
                    if l2.get('rates') and i - np < len(l2['rates']):
                        del l2['rates'][i - np]
                    yield d
                if lv.get('rates'):
                    d = json.loads(json.dumps(c))
                    get_level(d['top'], path)['rates'] = None
                    yield d
                for i, p in enumerate(lv['params']):
                    if p['d'][0] == 't' and len(p['d'][1]) > 1:
                        d = json.loads(json.dumps(c))
                        get_level(d['top'], path)['params'][i]['d'][1].pop()
                        yield d
            for i in range(len(c.get('variants') or [])):
                d = json.loads(json.dumps(c))
                del d['variants'][i]
                yield d
            if c.get('call') is not None:
                d = json.loads(json.dumps(c))
                d['call'] = None
                yield d
            if c.get('specs') is not None:
                d = json.loads(json.dumps(c))
                d['specs'] = None
                yield d
        progress = True
        while progress and steps < 80:
            progress = False
            for v in variants(cur):
                steps += 1
                if steps > 80:
                    break
                v = prune_refs(v)
                try:
                    if fails(v):
                        cur, progress = v, True
                        break
                except Exception:
                    continue
        return cur


def tokenize_args(s):
    out, cur = [], None
    for t in s.replace('[', ' [ ').replace(']', ' ] ').split():
        if t == '[':
            cur = []
        elif t == ']':
            out.append(cur)
            cur = None
        else:
            try:
                a, b = t.split('.')
                v = (int(a), int(b))
            except ValueError:
                v = t
            if cur is not None:
                cur.append(v)
            else:
                out.append(v)
    return out


def level_paths(top, path=()):
    yield path
    for i, w in enumerate(top.get('wraps', [])):
        yield from level_paths(w, path + (i,))


def get_level(top, path):
    for i in path:
        top = top['wraps'][i]
    return top


def prune_refs(c):
    """drop variant pairs / kwargs that refer to parameters removed by shrinking (keeps 'nosuch')"""
    names = {p['n'] for lv in I.preorder(c['top']) for p in lv['params']}
    for v in c.get('variants') or []:
        v[1] = [pr for pr in v[1] if pr[0] in names or pr[0] == 'nosuch']
    c['variants'] = [v for v in (c.get('variants') or [])]
    if c.get('call') is not None:
        c['call']['kwargs'] = [kv for kv in c['call']['kwargs'] if kv[0] in names]
        c['call']['args'] = c['call']['args'][:len(I.level_params(c['top'])) + 1]
    if c.get('specs') is not None:
        c['specs'] = {k: v for k, v in c['specs'].items() if k in names}
    return c
