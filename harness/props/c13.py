"""C13 — Patterns denote the sequences their definitions say, compositionally."""
import json

from harness import common
from harness.props import c13_oracle as orc

LIST_KEYS = {'seq': [1], 'ser': [1], 'tuple': [1], 'switch': [1], 'switch1': [1], 'slide': [1]}
PAT_ARGS = {  # positions of sub-patterns (single) per constructor
    'pn': [1], 'switch': [2], 'switch1': [2], 'slide': [2, 3], 'series': [2], 'geom': [2],
    'stutter': [1, 2], 'clump': [1, 2], 'flatten': [1, 2], 'diff': [1], 'pconst': [1], 'drop': [1],
    'len': [1], 'collect': [2], 'select': [2], 'reject': [2], 'pif': [1, 2, 3], 'wrap': [1, 2, 3],
    'unop': [2], 'binop': [2, 3], 'narop': [2, 3, 4]}


def seed_py(sd):
    """Seed of a term: an int, or 'f<float>' for a float seed."""
    return float(sd[1:]) if isinstance(sd, str) else int(sd)


def derive(t):
    """Replace every seeded random pattern by the deterministic pattern it denotes for the draws
    `random.Random(seed)` delivers (the Mersenne Twister is the oracle stream, not modelled):
    Pseed re-seeds for every pass, so the same pass is repeated for ever."""
    import random as _random
    if not isinstance(t, list) or not t or not isinstance(t[0], str):
        return t
    k = t[0]
    if k == 'pseed' and isinstance(t[1], list):
        # a seed PATTERN (finite): one pass per seed value, then the Pseed ends
        return ['seq', [derive(['pseed', sd, t[2]])[1] for sd in t[1][1:]], 1, 0]
    if k == 'pseed':
        seed, rp = seed_py(t[1]), t[2]
        items = [derive(x) for x in rp[1]]
        size, n = len(items), rp[2]
        R = _random.Random(seed)
        if rp[0] == 'prand':                       # n items, each lst[rand(size)]
            idx = [R.randrange(0, size, 1) for _ in range(n)]
            one = ['switch', items, ['seq', [['const', ['i', i]] for i in idx], 1, 0]] if n else \
                ['len', ['const', ['i', 0]], 0]
        elif rp[0] == 'pxrand':                    # never the same index twice in a row
            i = R.randrange(0, size, 1) if size >= 1 else 0
            idx = []
            for _ in range(n):
                d = R.randrange(0, size - 1, 1) if size - 1 >= 1 else 0
                i = (i + d + 1) % size
                idx.append(i)
            one = ['switch', items, ['seq', [['const', ['i', i]] for i in idx], 1, 0]] if n else \
                ['len', ['const', ['i', 0]], 0]
        elif rp[0] == 'pwrand':                    # n items, index drawn with the given weights
            idx = [R.choices(range(size), rp[3])[0] for _ in range(n)]
            one = ['switch', items, ['seq', [['const', ['i', i]] for i in idx], 1, 0]] if n else \
                ['len', ['const', ['i', 0]], 0]
        elif rp[0] == 'pshuffle':                  # one shuffle per pass, then n times through
            perm = list(range(size))
            R.shuffle(perm)
            one = ['seq', [items[i] for i in perm], n, 0]
        else:
            raise ValueError(rp)
        return ['pn', one, 'inf']
    if k == 'place':
        return ['place', [({'sub': [derive(y) for y in x['sub']], **({'tuple': True} if x.get('tuple') else {})}
                           if isinstance(x, dict) else derive(x)) for x in t[1]]] + t[2:]
    out = list(t)
    for i in LIST_KEYS.get(k, []):
        out[i] = [derive(x) for x in t[i]]
    for i in PAT_ARGS.get(k, []):
        out[i] = derive(t[i])
    return out


def subpats(t):
    out = []
    k = t[0]
    if k == 'pseed':
        return list(t[2][1])
    for i in LIST_KEYS.get(k, []):
        out.extend(t[i])
    if k == 'place':
        for x in t[1]:
            out.extend(x['sub'] if isinstance(x, dict) else [x])
    for i in PAT_ARGS.get(k, []):
        out.append(t[i])
    return out


def depth(t):
    s = subpats(t)
    return 1 + (max(depth(x) for x in s) if s else 0)


def classes(t, acc):
    acc[t[0]] = acc.get(t[0], 0) + 1
    for x in subpats(t):
        classes(x, acc)


# ---------------- term -> s-expression for the Lean driver ----------------
def sx_val(v):
    if v[0] in ('l', 't'):
        return '(' + ' '.join([v[0]] + [sx_val(x) for x in v[1:]]) + ')'
    return f'({v[0]} {v[1]})'


def sx_fn(f):
    if f == 'id':
        return 'id'
    if f[0] == 'un':
        return f'(un {f[1]} {sx_fn(f[2])})'
    if f[0] == 'binR':
        return f'(binR {f[1]} {sx_fn(f[2])} {sx_val(f[3])})'
    if f[0] == 'binL':
        return f'(binL {f[1]} {sx_val(f[2])} {sx_fn(f[3])})'
    if f[0] == 'isInt':
        return f'(isInt {sx_fn(f[1])})'
    raise ValueError(f)


def sx(t):
    k = t[0]
    L = lambda l: '(' + ' '.join(sx(x) for x in l) + ')'
    if k == 'const':
        return f'(const {sx_val(t[1])})'
    if k in ('seq', 'ser'):
        return f'({k} {L(t[1])} {t[2]} {t[3]})'
    if k == 'pn':
        return f'(pn {sx(t[1])} {t[2]})'
    if k == 'place':
        flat, lens = [], []
        for x in t[1]:
            sub = x['sub'] if isinstance(x, dict) else [x]
            flat.extend(sub); lens.append(len(sub))
        return f'(place {L(flat)} ({" ".join(map(str, lens))}) {t[2]} {t[3]})'
    if k == 'tuple':
        return f'(tuple {L(t[1])} {t[2]})'
    if k in ('switch', 'switch1'):
        return f'({k} {L(t[1])} {sx(t[2])})'
    if k == 'slide':
        return f'(slide {L(t[1])} {sx(t[2])} {sx(t[3])} {t[4]} {int(t[5])} {t[6]})'
    if k in ('series', 'geom'):
        return f'({k} {sx_val(t[1])} {sx(t[2])} {t[3]})'
    if k in ('stutter', 'clump', 'flatten'):
        return f'({k} {sx(t[1])} {sx(t[2])})'
    if k == 'diff':
        return f'(diff {sx(t[1])})'
    if k == 'pconst':
        return f'(pconst {sx(t[1])} {sx_val(t[2])} {"1/1000" if t[3] == "default" else t[3]})'
    if k in ('drop', 'len'):
        return f'({k} {sx(t[1])} {t[2]})'
    if k in ('collect', 'select', 'reject'):
        return f'({k} {sx_fn(t[1])} {sx(t[2])})'
    if k == 'pif':
        return f'(pif {sx(t[1])} {sx(t[2])} {sx(t[3])})'
    if k == 'wrap':
        return f'(wrap {sx(t[1])} {sx(t[2])} {sx(t[3])})'
    if k == 'unop':
        return f'(unop {t[1]} {sx(t[2])})'
    if k == 'binop':
        return f'(binop {t[1]} {sx(t[2])} {sx(t[3])})'
    if k == 'narop':
        return f'(narop {t[1]} {sx(t[2])} {sx(t[3])} {sx(t[4])})'
    raise ValueError(t)


# ---------------- generator ----------------
class Gen:
    def __init__(self, rng):
        self.r = rng

    def rep(self, allow_inf=True):
        x = self.r.random()
        if x < 0.04:
            return 0
        if allow_inf and x < 0.22:
            return 'inf'
        return self.r.choice([1, 1, 2, 2, 3])

    def num_val(self, floats=True):
        if floats and self.r.random() < 0.3:
            return ['f', f'{self.r.randint(-24, 40)}/{self.r.choice([1, 2, 4, 8])}']
        return ['i', self.r.randint(-4, 9)]

    def c(self, v):
        return ['const', v]

    def items(self, kind, d, lo=1, hi=5):
        n = self.r.randint(lo, hi)
        return [self.pat(kind, d - 1) if self.r.random() < 0.35 else self.leaf(kind) for _ in range(n)]

    def leaf(self, kind):
        r = self.r
        if kind == 'num':
            return self.c(self.num_val())
        if kind == 'int':
            return self.c(['i', r.randint(-4, 9)])
        if kind == 'idx':
            return self.c(['i', r.randint(-3, 7)])
        if kind == 'cnt':
            return self.c(['i', r.choice([0, 1, 1, 2, 2, 3, -2])] if r.random() < 0.9 else ['b', r.randint(0, 1)])
        if kind == 'bool':
            return self.c(['b', r.randint(0, 1)] if r.random() < 0.8 else ['i', r.randint(0, 2)])
        if kind == 'list':
            return self.c(self.list_val(2))
        if kind == 'tup':
            return self.c(['t'] + [self.num_val() for _ in range(self.r.randint(0, 3))])
        raise ValueError(kind)

    def list_val(self, d):
        n = self.r.randint(0, 3)
        return ['l'] + [self.list_val(d - 1) if d > 0 and self.r.random() < 0.3 else self.num_val()
                        for _ in range(n)]

    def fn_num(self, d=2):
        r = self.r
        if d == 0 or r.random() < 0.3:
            return 'id'
        x = r.random()
        if x < 0.2:
            return ['un', r.choice(['neg', 'abs', 'pos']), self.fn_num(d - 1)]
        if x < 0.65:
            return ['binR', r.choice(['add', 'sub', 'mul', 'pymod', 'min', 'max']), self.fn_num(d - 1),
                    ['i', r.choice([1, 2, 3, -2, 5])] if r.random() < 0.7 else ['f', r.choice(['1/2', '3/2', '-1/4', '2/1'])]]
        if x < 0.9:
            return ['binL', r.choice(['add', 'sub', 'mul']), self.num_val(), self.fn_num(d - 1)]
        return ['binR', 'div', self.fn_num(d - 1), ['i', r.choice([1, 2, 4, -2, 0])]]

    def fn_bool(self):
        r = self.r
        x = r.random()
        if x < 0.7:
            return ['binR', r.choice(['lt', 'le', 'gt', 'ge']), self.fn_num(1), self.num_val()]
        if x < 0.8:
            return ['isInt', self.fn_num(1)]
        if x < 0.9:   # not a bool: Pselect/Preject then drop everything
            return self.fn_num(1)
        return ['binL', r.choice(['lt', 'ge']), self.num_val(), self.fn_num(1)]

    def arg_stream(self, d, length, ints, floats):
        """The step / grow argument of Pseries / Pgeom: a plain value, or a pattern that is shorter than,
        as long as, or longer than `length` (the series ends with whichever ends first), or endless."""
        r = self.r
        x = r.random()
        val = lambda: ['i', r.choice(ints)] if r.random() < 0.75 else ['f', r.choice(floats)]
        if x < 0.35:
            return self.c(val())
        if x < 0.8:
            n = 8 if length == 'inf' else int(length)
            k = max(1, r.choice([n - 2, n - 1, n, n + 1, 1, 2, 3]))
            items = [self.c(val()) for _ in range(k)]
            if r.random() < 0.25:      # a finite sub-pattern among the items
                items[r.randrange(len(items))] = ['len', self.c(val()), r.randint(0, 2)]
            return ['seq', items, r.choice([1, 1, 1, 2, 'inf']), r.choice([0, 0, 1])]
        return self.pat('int', d - 1)

    def listpat(self, kind, d):
        """A list pattern of the given kind of items."""
        r = self.r
        x = r.random()
        off = r.choice([0, 0, 0, 1, 2, -1, 5, -7])
        if x < 0.45:
            return ['seq', self.items(kind, d), self.rep(), off]
        if x < 0.6:
            return ['ser', self.items(kind, d), r.choice([0, 1, 3, 4, 7, 'inf']), off]
        if x < 0.7:
            return ['pn', self.pat(kind, d - 1) if r.random() < 0.7 else self.leaf(kind), self.rep()]
        if x < 0.8:
            its = []
            for _ in range(r.randint(1, 4)):
                if r.random() < 0.5:
                    sub = self.items(kind, d, 1, 3) if r.random() < 0.97 else []
                    e = {'sub': sub}
                    if r.random() < 0.3:
                        e['tuple'] = True
                    its.append(e)
                else:
                    its.append(self.leaf(kind) if r.random() < 0.7 else self.pat(kind, d - 1))
            return ['place', its, self.rep(), off]
        if x < 0.88:
            return ['switch', self.items(kind, d, 1, 4), self.pat('idx', d - 1)]
        if x < 0.94:
            return ['switch1', self.items(kind, d, 1, 4), self.pat('idx', d - 1)]
        return ['slide', self.items(kind, d, 1, 5), self.pat('cnt', d - 1) if r.random() < 0.6 else self.c(['i', r.randint(0, 4)]),
                self.pat('idx', d - 1) if r.random() < 0.5 else self.c(['i', r.choice([1, 1, 2, -1, 0])]),
                r.choice([0, 0, 1, 2, -1, -3, 6]), r.random() < 0.6, self.rep()]

    def directed(self):
        """Rare shapes that deserve a steady share of the cases."""
        r = self.r
        if r.random() < 0.5:
            # n-ary operator with MIXED extra arguments (a number and a pattern), embedded in Pseq / Pn
            lo = r.randint(-3, 3)
            his = [lo + r.randint(0, 6) for _ in range(r.randint(1, 4))]
            src = ['seq', [self.c(['i', r.randint(-9, 9)]) for _ in range(r.randint(2, 5))], 1, 0]
            hi = ['seq', [self.c(['i', h]) for h in his], r.choice([1, 'inf', 'inf']), 0]
            lo = self.c(['i', lo])
            inner = ['narop', r.choice(['clip', 'wrap']), src] + ([lo, hi] if r.random() < 0.7 else [['seq', [lo], 'inf', 0], self.c(['i', max(his)])])
            return ['seq', [inner, self.c(['i', 0])], 2, 0] if r.random() < 0.5 else ['pn', inner, 2]
        # non-wrapping Pslide whose segments tile the list exactly (step >= length), repeats left over
        ln = r.randint(1, 3)
        k = r.randint(1, 3)
        size = ln * k
        step = r.choice([ln, ln, size, ln + size])
        sl = ['slide', [self.c(['i', i + 1]) for i in range(size)], self.c(['i', ln]), self.c(['i', step]),
              0, False, k + r.randint(1, 4)]
        x = r.random()
        if x < 0.4:
            return sl
        if x < 0.7:
            return ['seq', [sl, self.c(['i', 0])], 2, 0]
        return ['binop', 'mul', sl, self.c(['i', 10]), 'op']

    def pat(self, kind, d):
        r = self.r
        if d <= 0:
            return self.leaf(kind)
        if kind == 'num' and r.random() < 0.02:
            return self.directed()
        if r.random() < 0.03:          # malformed stream: wrong kind of operand
            kind = r.choice(['num', 'list', 'bool', 'idx', 'cnt', 'tup'])
        if kind in ('idx', 'cnt', 'int'):
            x = r.random()
            if x < 0.25:
                return self.leaf(kind)
            if x < 0.7:
                return ['seq', self.items(kind, d, 1, 5), self.rep(), r.choice([0, 0, 1, -1])]
            if x < 0.8:
                return ['series', ['i', r.randint(-2, 3)], self.c(['i', r.choice([1, 1, 2, -1])]),
                        r.choice([2, 3, 5, 'inf'])]
            if x < 0.9:
                return ['len', self.pat(kind, d - 1), r.randint(0, 6)]
            if x < 0.95:
                return ['binop', r.choice(['add', 'mod', 'mul']), self.pat(kind, d - 1), self.c(['i', r.choice([2, 3])])]
            return self.listpat(kind, d)
        if kind == 'bool':
            x = r.random()
            if x < 0.2:
                return self.leaf('bool')
            if x < 0.5:
                return ['seq', self.items('bool', d, 1, 5), self.rep(), 0]
            return ['binop', r.choice(['lt', 'le', 'gt', 'ge']), self.pat('num', d - 1), self.pat('num', d - 1),
                    r.choice(['op', 'cls'])]
        if kind == 'tup':
            x = r.random()
            if x < 0.75:
                return ['tuple', [self.pat(r.choice(['num', 'num', 'idx', 'bool', 'list']), d - 1) if r.random() < 0.6
                                  else self.leaf('num') for _ in range(r.randint(1, 4))], self.rep()]
            if x < 0.9:
                return ['seq', [self.pat('tup', d - 1) for _ in range(r.randint(1, 3))], self.rep(), 0]
            return ['len', self.pat('tup', d - 1), r.randint(0, 6)]
        if kind == 'list':
            x = r.random()
            if x < 0.3:
                return ['seq', self.items('list', d, 1, 4), self.rep(), 0]
            if x < 0.75:
                return ['clump', self.pat('num', d - 1), self.pat('cnt', d - 1)]
            if x < 0.9:
                return ['clump', self.pat('list', d - 1), self.pat('cnt', d - 1)]
            return self.leaf('list')
        # num
        x = r.random()
        if x < 0.06:
            sd = lambda: r.choice([0, 0, 'f0.0', -1, -7, 2 ** 40 + 3, 'f2.5', 1, r.randint(2, 99), r.randint(2, 99)])
            seed = sd() if r.random() < 0.7 else ['S'] + [sd() for _ in range(r.randint(1, 3))]
            return ['pseed', seed,
                    self.rand_pat(d)]
        if x < 0.3:
            return self.listpat('num', d)
        if x < 0.36:
            length = r.choice([0, 1, 3, 5, 8, 'inf', 'inf'])
            return ['series', self.num_val(), self.arg_stream(d, length, [1, 2, -1, 3, 0], ['1/2', '-3/4', '5/4']), length]
        if x < 0.42:
            length = r.choice([0, 1, 3, 5, 8, 'inf', 'inf'])
            start = ['i', r.choice([1, 2, 3, -1])] if r.random() < 0.7 else ['f', r.choice(['1/2', '3/4', '5/1'])]
            return ['geom', start, self.arg_stream(d, length, [2, -2, 3, 1, -1], ['1/2', '3/2', '-1/2']), length]
        if x < 0.46:
            return ['stutter', self.pat('num', d - 1), self.pat('cnt', d - 1)]
        if x < 0.5:
            return ['flatten', self.pat('list', d - 1) if r.random() < 0.85 else self.pat('num', d - 1),
                    self.pat('cnt', d - 1) if r.random() < 0.7 else self.c(['f', r.choice(['1/2', '3/2', '1/1'])])]
        if x < 0.54:
            return ['diff', self.pat('num', d - 1)]
        if x < 0.6:
            tol = r.choice(['default', '0', '1/8', '1/2', '1/1024', '1', '2'])
            src = self.pat('int' if tol == 'default' or r.random() < 0.5 else 'num', d - 1)
            return ['pconst', src, ['i', r.randint(0, 12)] if r.random() < 0.7 else ['f', f'{r.randint(0, 40)}/4'], tol]
        if x < 0.65:
            return ['drop', self.pat('num', d - 1), r.randint(0, 6)]
        if x < 0.71:
            return ['len', self.pat('num', d - 1), r.randint(0, 8)]
        if x < 0.76:
            return ['collect', self.fn_num(), self.pat('num', d - 1)]
        if x < 0.8:
            return [r.choice(['select', 'reject']), self.fn_bool(), self.pat('num', d - 1)]
        if x < 0.84:
            return ['pif', self.pat('bool', d - 1), self.pat('num', d - 1), self.pat('num', d - 1)]
        if x < 0.88:
            y = r.random()
            if y < 0.4:
                # bounds given as patterns whose width changes from step to step (floats and ints),
                # values well outside the bounds: each step uses that step's bounds
                k = r.randint(2, 5)
                fl = r.random() < 0.7
                los = [r.randint(-12, 12) for _ in range(k)]
                his = [l + r.randint(1, 12) for l in los]
                mk = (lambda v: self.c(['f', f'{v}/4'])) if fl else (lambda v: self.c(['i', v]))
                rep = r.choice([1, 2, 'inf', 'inf'])
                src = ['collect', ['binR', 'mul', 'id', ['f', '3/2']], self.pat('num', d - 1)] if fl else self.pat('int', d - 1)
                if r.random() < 0.5:
                    src = ['seq', [self.c(['f', f'{r.randint(-60, 60)}/4']) if fl else self.c(['i', r.randint(-15, 15)])
                                   for _ in range(r.randint(3, 7))], r.choice([1, 2]), 0]
                return ['wrap', src, ['seq', [mk(v) for v in los], rep, 0], ['seq', [mk(v) for v in his], rep, 0]]
            if y < 0.7:
                lo = r.randint(-3, 3); hi = lo + r.randint(0, 5)
                return ['wrap', self.pat('int', d - 1), self.c(['i', lo]), self.c(['i', hi])]
            lo = r.randint(-12, 12); hi = lo + r.randint(1, 20)
            return ['wrap', ['collect', ['binR', 'mul', 'id', ['f', '1/2']], self.pat('num', d - 1)],
                    self.c(['f', f'{lo}/4']), self.c(['f', f'{hi}/4'])]
        if x < 0.91:
            return ['unop', r.choice(['neg', 'abs', 'pos']), self.pat('num', d - 1)]
        if x < 0.935:
            # number (op) pattern: the reflected form of a non-commutative operator
            o = r.choice(['sub', 'sub', 'div', 'mod'])
            if o == 'sub':
                return ['binop', 'sub', self.c(self.num_val()), self.pat('num', d - 1), 'op']
            vals = [['i', v] for v in (1, 2, 4, -2, 8)] + [['f', '1/2'], ['f', '1/4']]
            if o == 'mod':
                vals = [['i', v] for v in (1, 2, 3, 5, 7)] + [['f', '3/2']]
            right = ['seq', [self.c(r.choice(vals)) for _ in range(r.randint(1, 5))], r.choice([1, 2, 'inf']), 0]
            return ['binop', o, self.c(['i', r.choice([7, 10, -9, 1])] if r.random() < 0.7 else ['f', r.choice(['7/2', '-5/4'])]),
                    right, 'op']
        if x < 0.97:
            o = r.choice(['add', 'add', 'sub', 'mul', 'mod', 'min', 'max', 'div'])
            b = self.pat('num', d - 1)
            if o == 'mod':
                b = self.c(['i', r.choice([1, 2, 3, 5, 0])] if r.random() < 0.7 else ['f', r.choice(['1/2', '3/2', '5/4'])])
            if o == 'div':
                b = self.c(['i', r.choice([1, 2, 4, -2, 8, 0])])
            return ['binop', o, self.pat('num', d - 1), b, r.choice(['op', 'cls'])]
        if r.random() < 0.4:
            k = r.randint(2, 5)
            fl = r.random() < 0.6
            los = [r.randint(-12, 12) for _ in range(k)]
            his = [l + r.randint(1, 12) for l in los]
            mk = (lambda v: self.c(['f', f'{v}/4'])) if fl else (lambda v: self.c(['i', v]))
            rep = r.choice([1, 2, 'inf'])
            src = ['seq', [self.c(['f', f'{r.randint(-60, 60)}/4']) if fl else self.c(['i', r.randint(-15, 15)])
                           for _ in range(r.randint(3, 7))], r.choice([1, 2]), 0]
            return ['narop', r.choice(['clip', 'wrap']), src, ['seq', [mk(v) for v in los], rep, 0],
                    ['seq', [mk(v) for v in his], rep, 0]]
        lo = r.randint(-3, 3); hi = lo + r.randint(0, 6)
        return ['narop', r.choice(['clip', 'wrap']), self.pat('int', d - 1), self.c(['i', lo]),
                self.c(['i', hi]) if r.random() < 0.8 else self.pat('int', d - 1)]

    def rand_pat(self, d):
        r = self.r
        kind = r.choice(['prand', 'pxrand', 'pshuffle', 'pwrand', 'pwrand'])
        items = self.items('num', d, 1, 5)
        rp = [kind, items, r.randint(0, 5)]
        if kind == 'pwrand':
            rp.append(None if r.random() < 0.2 else [r.choice([1, 1, 2, 3, 5, 0.5, 0.25]) for _ in items])
        return rp

    def ops(self):
        r = self.r
        ns = r.choice([1, 1, 2, 2, 3])
        n = r.choice([r.randint(4, 16), r.randint(16, 40), r.randint(40, 64)])
        ops = [['new']]
        live = 1
        for _ in range(n):
            if r.random() < 0.03:
                ops.append(['mutate', r.choice(['reverse', 'append', 'setitem'])])
            elif live < ns and r.random() < 0.15:
                ops.append(['new']); live += 1
            else:
                ops.append(['next', r.randrange(live)])
        return ops


def top_kind(rng):
    return rng.choice(['num'] * 7 + ['list', 'bool', 'idx', 'tup', 'tup'])


class Check(common.Check):
    PROP = 'C13'
    LEAN_TARGETS = ['Sc3Verif.C13.Props']
    LEAN_DIRS = ['Sc3Verif/C13']
    THEOREMS = ['Sc3Verif.C13.' + t for t in (
        'stream_eq_den', 'stream_eq_den_S', 'den_chain', 'run_le_den', 'den_le_run',
        'stream_take_eq_den', 'stream_end_iff_den_end', 'next_yield_obs', 'next_done_obs',
        'next_err_obs', 'streams_independent', 'blueprint_immutable', 'stopped_stays_stopped',
        'good_of_wf')]
    N_QUICK = 1500
    ALL_N = 48
    DEN_K = 12
    DEN_N = 40
    N_THOROUGH = 60000
    ASSUMPTIONS = [
        'values are Python ints, bools, exact binary64 floats (dyadic, modelled as Rat), lists and tuples; '
        'terms whose reference evaluation leaves the exactly representable range are not generated',
        'operator patterns: numbers (bool as int), list+list, tuple+tuple, sequence*int; comparisons of two '
        'sequences, negative modulus and wrap bounds hi<lo are outside the modelled domain (not generated)',
        'ListPattern constructors reject empty lists (Pat.WF); patterns are observed through next() only, '
        'the inval argument is passed but value patterns do not depend on it',
        'silent divergence (a next() that never returns) is not generated: the reference evaluation has a '
        'work budget and such terms are discarded; in the theorem it is the empty continuation on both sides',
        'Mersenne Twister not modelled: a seeded random pattern is replaced by the deterministic pattern '
        'its random.Random(seed) draws select (Pswitch / Pseq over the drawn indices)',
        'after an exception a stream is not observed any further',
    ]

    def rule(self):
        return ('random pattern terms, depth 1-7 (nested patterns as list items and as arguments n / which / '
                'step / length / lo / hi), over all 27 classes of the AST + Pseed(Prand|Pxrand|Pshuffle); list '
                'sizes 1-5, repeats in {0,1,2,3,inf}, Python-style offsets (negative, beyond the length), ints '
                'and dyadic floats, 3% operands of the wrong kind (TypeError paths); 1-3 streams of the same '
                'pattern object driven in a random interleaving by 4-64 next() calls (with and without an '
                'inval), continuing after StopStream. Every case is compared three ways: real streams vs the '
                'Lean small-step machine (driver), real streams vs an independent lazy Python evaluation of '
                'the documented meaning (oracle), Lean denotation den(k=12) vs the oracle. Non-trivial: term '
                'depth >= 2 and >= 3 values observed; distinct by term + op list')

    def gen_case(self, rng):
        g = Gen(rng)
        for _ in range(200):
            d = rng.choice([1, 2, 2, 3, 3, 4, 5])
            k = top_kind(rng)
            t = g.pat(k, d)
            if t[0] == 'const':
                continue
            ops = g.ops()
            n = sum(1 for o in ops if o[0] == 'next')
            obs, flags = orc.observe(derive(t), n + 2)
            if flags:
                continue
            if rng.random() < 0.3:
                # all() on stream 0 (fresh or after some nexts) when the rest of the sequence is short and error-free
                full, fl = orc.observe(derive(t), n + 2 + self.ALL_N - 8)
                if not fl and 'ERR' not in full and 'STOP' in full and full.index('STOP') <= self.ALL_N - 8:
                    ops.insert(rng.randint(1, len(ops)), ['all', 0])
            return {'pat': t, 'ops': ops, 'inval': rng.choice([0, 0, 1, 2])}
        raise common.Infra('generator could not find a productive exact term')

    def gen(self, rng, n):
        return [self.gen_case(rng) for _ in range(n)]

    def impl(self, cases):
        res, err = common.run_impl('c13', 'run', {'cases': cases, 'budget_s': 10.0})
        if res is None:
            self.notes.append(err)
        return res

    def model(self, cases):
        lines = []
        for c in cases:
            lines.append('reset')
            lines.append('pat ' + sx(derive(c['pat'])))
            for o in c['ops']:
                if o[0] == 'all':              # all() = next() until the stream stops
                    lines += [f'next {o[1]}'] * self.ALL_N
                elif o[0] != 'mutate':         # the model has no caller lists: nothing to do
                    lines.append('new' if o[0] == 'new' else f'next {o[1]}')
            lines.append(f'den {self.DEN_K} {self.DEN_N}')
        out, err = common.run_driver('Sc3Verif/C13/Driver.lean', lines)
        if out is None:
            raise RuntimeError('driver failed: ' + err)
        res, cur = [], None
        for l in out:
            if l == 'reset':
                cur = []; res.append(cur)
            else:
                cur.append(l)
        final = []
        for c, r in zip(cases, res):
            k = 1
            for o in c['ops']:
                if o[0] == 'mutate':
                    r.insert(k, 'ok')
                elif o[0] == 'all':
                    part = r[k:k + self.ALL_N]
                    stop = next((i for i, v in enumerate(part) if v in ('STOP', 'ERR')), None)
                    r[k:k + self.ALL_N] = ['NOSTOP' if stop is None else
                                           ('ERR' if part[stop] == 'ERR' else 'all:' + ','.join(part[:stop]))]
                k += 1
            if len(r) != len(c['ops']) + 2 or r[0] != 'ok':
                final.append({'ops': r, 'den': None})
            else:
                final.append({'ops': r[1:-1], 'den': r[-1]})
        return final

    def expected(self, case):
        """Oracle: outputs of every op according to the documented meaning."""
        n = sum(1 if o[0] == 'next' else self.ALL_N if o[0] == 'all' else 0 for o in case['ops'])
        obs, flags = orc.observe(derive(case['pat']), n + 2)
        if flags:
            return None
        pos, out = [], []
        for o in case['ops']:
            if o[0] == 'all':
                i = pos[o[1]]
                if 'STOP' not in obs[i:] or 'ERR' in obs[i:]:
                    return None
                j = obs.index('STOP', i) if i < len(obs) else i
                out.append('all:' + ','.join(obs[i:j]))
                pos[o[1]] = j
            elif o[0] == 'mutate':
                out.append('ok')               # a pattern denotes the values it was built from
            elif o[0] == 'new':
                out.append(str(len(pos))); pos.append(0)
            else:
                i = pos[o[1]]
                if i < len(obs):
                    out.append(obs[i])
                    if obs[i] not in ('STOP', 'ERR'):
                        pos[o[1]] += 1
                    elif obs[i] == 'ERR':
                        pos[o[1]] = len(obs) + 1
                else:
                    out.append('STOP')
        return out

    def compare(self, case, impl_out, model_out):
        if impl_out != model_out['ops']:
            return {'impl': impl_out, 'model': model_out['ops']}
        den = model_out['den']
        if den is None:
            return {'model': 'no den line'}
        obs, flags = orc.observe(derive(case['pat']), self.DEN_N + 1)
        if flags:
            return None
        d = den.split(' ')
        vals, st = d[:-1], d[-1]
        if st == 'MORE':
            ok = obs[:len(vals)] == vals
        else:
            ok = obs[:len(vals) + 1] == vals + [st]
        if not ok:
            return {'den': den, 'oracle': obs}
        return None

    def oracle(self, case, out):
        exp = self.expected(case)
        if exp is None:
            return None          # not a term of the generator's domain (diverging / inexact)
        if out != exp:
            i = next((j for j, (a, b) in enumerate(zip(out, exp)) if a != b), min(len(out), len(exp)))
            sid = case['ops'][i][1] if i < len(case['ops']) and case['ops'][i][0] == 'next' else None
            after_stop = any(o[0] == 'next' and o[1] == sid and x == 'STOP'
                             for o, x in zip(case['ops'][:i], out[:i]))
            kind = 'value-after-stop' if after_stop else 'pattern-sequence'
            return {'what': f'op #{i} {case["ops"][i] if i < len(case["ops"]) else "?"} returned '
                            f'{out[i] if i < len(out) else None}, the documented sequence gives '
                            f'{exp[i] if i < len(exp) else None}',
                    'signature': kind + ':' + case['pat'][0], 'index': i, 'expected': exp}
        return None

    def nontrivial(self, case, out):
        vals = [o for o in out if o and o[0] in 'ifb[(']
        return depth(case['pat']) >= 2 and len(vals) >= 3

    def histogram(self, cases, outs):
        h = {'classes': {}, 'depth': {}, 'stops': 0, 'errs': 0, 'multi_stream': 0, 'values': 0}
        for c, o in zip(cases, outs):
            classes(c['pat'], h['classes'])
            d = depth(c['pat'])
            h['depth'][str(d)] = h['depth'].get(str(d), 0) + 1
            h['stops'] += 'STOP' in o
            h['errs'] += 'ERR' in o
            h['multi_stream'] += sum(1 for x in c['ops'] if x[0] == 'new') > 1
            h['values'] += sum(1 for x in o if x and x[0] in 'ifb[(')
        return h

    def shrink(self, case, fails):
        cur = case
        changed = True
        steps = 0
        while changed and steps < 60:
            changed = False
            for sub in subpats(cur['pat']):
                if sub[0] == 'const':
                    continue
                cand = dict(cur, pat=sub)
                steps += 1
                if fails(cand):
                    cur, changed = cand, True
                    break
        ops = common.shrink_list(cur['ops'][1:], lambda o: self._ops_ok(o) and fails(dict(cur, ops=[['new']] + o)),
                                 max_steps=60)
        return dict(cur, ops=[['new']] + ops)

    def _still_violates(self, case, v):
        # while shrinking only the kind of failure has to stay the same (the class in the
        # signature is the top class of the final, smallest term)
        outs = self.impl([case])
        if not outs:
            return False
        w = self.oracle(case, outs[0])
        return bool(w) and w['signature'].split(':')[0] == str(v.get('signature')).split(':')[0]

    @staticmethod
    def _ops_ok(ops):
        live = 1
        for o in ops:
            if o[0] == 'mutate':
                continue
            if o[0] == 'new':
                live += 1
            elif o[1] >= live:
                return False
        return True
