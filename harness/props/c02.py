"""C02 — Emitted definitions are well-formed, topologically ordered SCgf v2.
Shares the program language, the real-code runner and the Lean driver with C01."""
import string
from harness import common
from harness.props import c01, c01_regen

NAME_CHARS = string.ascii_letters + string.digits + '_'


class Check(c01.Check):
    PROP = 'C02'
    LEAN_TARGETS = ['Sc3Verif.C02.Props']
    LEAN_DIRS = ['Sc3Verif/C01', 'Sc3Verif/C02']
    THEOREMS = ['Sc3Verif.C02.' + t for t in (
        'write_parse_roundtrip', 'emitted_bytes_parse', 'topo_order', 'topo_each_once', 'topo_complete')]
    N_QUICK = 400
    N_THOROUGH = 8000
    ASSUMPTIONS = c01.Check.ASSUMPTIONS + [
        'binary32 conversion of constants is struct.pack (trusted); constants used are exactly representable',
        'variants block not covered here (C04)']

    @staticmethod
    def _ref_wf(f):
        ref = c01_regen.class_ref().get(f.get('cls'))
        return bool(f.get('wf')) if ref is None else ref[1] == 1

    def rule(self):
        return ('C01 program generator with larger graphs (up to 300 events), definition names of length '
                '0..257 over [A-Za-z0-9_], more multi-out and width-first units, invalid graphs (bad inputs, '
                'rate mismatches). Non-trivial: compiled, >= 3 units and at least one unit refers to another '
                'unit output; or rejected with an exception. Distinct by program text.')

    def gen(self, rng, n):
        cases = []
        for i in range(n):
            big = rng.random() < 0.06
            g = c01.GraphGen(rng, max_events=300 if big else 40, bad_rate=0.004 if big else 0.02)
            p = g.program(i)
            r = rng.random()
            if r < 0.25:
                ln = rng.choice([0, 1, 2, 31, 32, 254, 255, 255, 256, 257]) if r < 0.12 else rng.randint(1, 255)
                p['name'] = ''.join(rng.choice(NAME_CHARS) for _ in range(ln))
                if ln == 0:
                    p['surely_valid'] = False
            cases.append(p)
        # the name length limit itself: a plain definition under names of 1, 31, 32, 254 and 255 characters
        for ln in (1, 31, 32, 254, 255):
            cases.append({'name': ''.join(rng.choice(NAME_CHARS) for _ in range(ln)), 'params': [], 'surely_valid': True,
                          'events': [{'t': 'atom', 'cls': 'SinOsc', 'ctor': 'ar', 'ins': [['n', 440, 1], ['n', 0, 1]]},
                                     {'t': 'out', 'cls': 'Out', 'mode': 'auto', 'bus': ['n', 0, 1], 'chans': [['r', 0, 0]]}]})
        return cases

    def extra_static(self):
        """control names in slot order with their default values and rates, for parameters of every
        rate and array defaults: the bytes and the library's reader vs an independent layout rule
        (groups ir, tr, ar, kr in that order; declaration order inside a group)."""
        import random
        from fractions import Fraction as F
        rng = random.Random(f'C02:desc:{self.seed}')
        sigs = []
        for _ in range(40 if self.tier == 'quick' else 400):
            n = rng.randint(1, 7)
            sig = []
            for k in range(n):
                rate = rng.choice([None, None, 'kr', 'ir', 'tr', 'ar'])
                size = rng.choice([1, 1, 1, 2, 3, 4])
                vals = [rng.choice([0, 1, 2, -1, 0.5, 0.25, 440, 7]) for _ in range(size)]
                sig.append([f'p{k}' if rng.random() < 0.9 or any(x[0] == 'gate' for x in sig) else 'gate', rate, vals if size > 1 else vals[0]])
            sigs.append(sig)
        # few names, many slots (array defaults beyond 255 slots), and many names
        sigs.append([['big', rng.choice([None, 'kr', 'ir']), [k % 7 for k in range(rng.randint(256, 420))]], ['q', 'ir', 0.5]])
        sigs.append([[f'n{k}', None, k % 5] for k in range(rng.choice([40, 120, 255]))])
        # in half of the definitions the output bus is one of the scalar parameters: the reader must
        # name that parameter as the starting channel of the output
        bus, inbus, outcls = {}, {}, {}
        for i, sig in enumerate(sigs):
            scal = [name for name, rate, d in sig if not isinstance(d, list) and rate in (None, 'kr', 'ir')]
            if scal and rng.random() < 0.5:
                bus[str(i)] = rng.choice(scal)
            elif rng.random() < 0.7:
                bus[str(i)] = str(rng.choice([0, 0, 1, 2, 7, 64]))          # a literal bus number (0 included)
            if rng.random() < 0.4:
                src = rng.choice(scal) if scal and rng.random() < 0.5 else str(rng.choice([0, 0, 2, 5, 16]))
                inbus[str(i)] = [src, rng.choice([1, 1, 2, 4]), rng.choice(['kr', 'ar'])]
                outcls[str(i)] = rng.choice(['Out', 'Out', 'ReplaceOut', 'OffsetOut', 'XOut', 'LocalOut'])
                if outcls[str(i)] == 'OffsetOut' and inbus[str(i)][2] == 'kr':
                    outcls[str(i)] = 'Out'
        # lag times for some control-rate parameters (the group becomes a LagControl; layout and names unchanged)
        lags = {}
        for i, sig in enumerate(sigs):
            if len(sig) <= 12 and rng.random() < 0.35:
                l = [(rng.choice([0.1, 0.5, 2]) if (rate in (None, 'kr') and rng.random() < 0.6) else None) for _, rate, _ in sig]
                if any(x is not None for x in l):
                    lags[str(i)] = l
        res, err = common.run_impl('c01', 'desc_probe', {'sigs': sigs, 'bus': bus, 'inbus': inbus, 'outcls': outcls, 'lags': lags}, timeout=900)
        if res is None:
            self.notes.append('desc probe failed: ' + err[-300:])
            return []
        out = []
        self._desc_probe = len(res)
        # every constructible unit class: one definition each, strictly parsed and read back
        sw, err = common.run_impl('c01', 'class_sweep', {'mode': 'nrt'}, timeout=900)
        if sw is None:
            self.notes.append('class sweep failed: ' + err[-300:])
        else:
            self._class_sweep = len(sw)
            for name, ctor, argkind, status, _want, _rates in sw:
                if status != 'ok':
                    out.append({'what': f'definition with one {name}.{ctor}({"" if argkind == "none" else argkind}) unit: {status}',
                                'signature': f'c02:class-sweep:{name}', 'case': {'class': name, 'ctor': ctor, 'arg': argkind}})
        # every constructor argument of every unit class replaced in turn by NaN / None / a string
        iv, err = common.run_impl('c01', 'invalid_sweep', {'mode': 'nrt', 'kinds': ['nan', 'none', 'str']},
                                  timeout=1800)
        if iv is None:
            self.notes.append('invalid-input sweep failed: ' + err[-300:])
        else:
            self._invalid_sweep = True
            seen = set()
            for name, ctor, k, pname, kind in iv:
                if (name, ctor) in seen:
                    continue
                seen.add((name, ctor))
                out.append({'what': f'{name}.{ctor}(…, {pname}={kind}, …): the definition was compiled to bytes with the unit fed by the invalid value',
                            'signature': f'c02:invalid-accepted:{name}', 'case': {'class': name, 'ctor': ctor, 'arg': k, 'name': pname, 'value': kind}})
        # rate constraints of every unit class: each constructor argument given a signal of the other rate;
        # the forms the reference lists as rejected (because of the rate) must still be rejected
        import json as _json
        rref = {(x[0], x[1], x[2]) for x in _json.loads((common.VERIF / 'harness/c02_rate_ref.json').read_text())}
        rc, err = common.run_impl('c01', 'rate_constraint_probe', {'mode': 'nrt'}, timeout=1800)
        if rc is None:
            self.notes.append('rate-constraint probe failed: ' + err[-300:])
        else:
            self._srfirst_probe = len(rc)
            for row in rc:
                name, ctor, k, status = row[:4]
                if status == 'compiled' and (name, ctor, k) in rref:
                    other = 'control' if ctor == 'ar' else 'audio'
                    if isinstance(k, str):
                        other, k = 'number instead of a signal (scalar', k[:-1] + ')'
                    out.append({'what': f'{name}.{ctor}(…) with a {other}-rate signal as argument {k}: this input must run at the '
                                        'unit\'s rate; the graph was compiled to bytes instead of rejected',
                                'signature': f'c02:input-rate-accepted:{name}', 'case': {'class': name, 'ctor': ctor, 'arg': k}})
        for si, (sig, r) in enumerate(zip(sigs, res)):
            if 'error' in r:
                out.append({'what': f'definition with parameters {sig} not built/read: {r["error"]}',
                            'signature': 'c02:desc-probe-error', 'case': {'sig': sig}})
                continue
            order = {'ir': 0, 'tr': 1, 'ar': 2, 'kr': 3, None: 3}
            rname = {'ir': 'scalar', 'tr': 'control', 'ar': 'audio', 'kr': 'control', None: 'control'}
            slots, idx = {}, 0
            flat = []
            for g in range(4):
                for name, rate, d in sig:
                    if order[rate] == g:
                        vals = d if isinstance(d, list) else [d]
                        slots[name] = (idx, vals, rname[rate])
                        flat += vals
                        idx += len(vals)
            want_pn = [[name, slots[name][0]] for name, _, _ in sig]
            want_params = [str(F(v)) for v in flat]
            problem = None
            if [list(x) for x in r['pnames']] != want_pn:
                problem = f'name table {r["pnames"]} != {want_pn}'
            elif r['params'] != want_params:
                problem = f'parameter defaults {r["params"]} != {want_params}'
            elif r['desc_names'] != [name for name, _, _ in sig]:
                problem = f'reader control names {r["desc_names"]}'
            else:
                for name, (i0, vals, rn) in slots.items():
                    got = r['desc'].get(name)
                    wv = [str(F(v)) for v in vals] if len(vals) > 1 else str(F(vals[0]))
                    if got != [i0, rn, wv]:
                        problem = f'reader recovers {name} as {got}, expected {[i0, rn, wv]}'
                        break
            if not problem and r.get('has_gate') != any(name == 'gate' for name, _, _ in sig):
                problem = f'gate flag read back as {r.get("has_gate")}'
            oc = outcls.get(str(si), 'Out')
            if not problem and oc != 'LocalOut' and r.get('out_start') != [bus.get(str(si), '0')]:
                problem = (f'output unit writes to bus {bus.get(str(si), "0")!r} (a parameter name or a literal number); the reader '
                           f'recovers starting channel {r.get("out_start")}')
            ib = inbus.get(str(si))
            if not problem and ib:
                rn = {'kr': 'control', 'ar': 'audio'}[ib[2]]
                if r.get('ins') != [[rn, ib[1], ib[0], 'In']]:
                    problem = f'input unit In.{ib[2]}({ib[0]}, {ib[1]}): the reader recovers {r.get("ins")}'
                elif r.get('outs') != [[rn, ib[1], oc]]:
                    problem = f'output unit {oc}.{ib[2]} with {ib[1]} channel(s): the reader recovers {r.get("outs")}'
            elif not problem and not ib and r.get('ins'):
                problem = f'no input unit in the definition; the reader recovers {r.get("ins")}'
            if problem:
                out.append({'what': f'parameters {sig}: {problem}', 'signature': 'c02:desc-layout', 'case': {'sig': sig}})
        return out

    def oracle(self, case, io):
        canon = io['canon']
        params = case.get('params', [])
        base = 1 if params else 0
        if len(case['name']) > 255 and not canon.startswith('ERR'):
            return {'what': f'definition name of {len(case["name"])} characters produced bytes', 'signature': 'c02:longname'}
        # a unit that was handed None / NaN / a string and is part of the emitted definition: the
        # graph cannot be compiled and must have been rejected
        for j, e in enumerate(case['events']):
            if e['t'] == 'atom' and any(a[0] == 'bad' for a in e['ins']):
                survives = bool((io.get('positions') or {}).get(str(base + j)))
                if survives and canon.startswith('OK'):
                    return {'what': f'graph with an invalid input ({[a[1] for a in e["ins"] if a[0] == "bad"]}) to '
                                    f'{e["cls"]}.{e["ctor"]} (event {base + j}) was compiled to bytes',
                            'signature': 'c02:invalid-accepted'}
        if io.get('has_nan'):
            return {'what': 'emitted definition carries a NaN constant', 'signature': 'c02:nan-constant'}
        if canon.startswith('ERR') and case.get('surely_valid') and len(case['name']) <= 255 and not io.get('skip'):
            return {'what': f'well-formed graph function named with {len(case["name"])} characters did not compile: {canon} {io.get("detail", "")}',
                    'signature': 'c02:valid-rejected:' + canon[4:]}
        sem0 = io.get('sem')
        if sem0 and sem0.get('signature') == 'c02:bytes-after-failed-write':
            return sem0
        if not canon.startswith('OK'):
            return None
        if io.get('out_nonaudio'):
            ei, chs = io['out_nonaudio'][0]
            return {'what': f'audio-rate output unit of event {ei} was given channel(s) {chs} that are not audio rate '
                            '(control-rate signal or non-zero constant) and the graph was compiled to bytes instead of rejected',
                    'signature': 'c02:out-nonaudio-accepted'}
        sem = io.get('sem')
        if sem and sem.get('signature', '').startswith(('scgf:', 'c02:')):
            return sem
        # the library's own reader recovers the description
        desc, parsed = io.get('desc') or {}, io.get('parsed') or {}
        if 'error' in desc:
            return {'what': 'SynthDesc reader rejects the emitted bytes: ' + desc['error'], 'signature': 'c02:desc-reject'}
        want_names = [n for n, _ in params]
        if desc.get('name') != case['name'] or parsed.get('name') != case['name']:
            return {'what': f'name recovered as {desc.get("name")!r}', 'signature': 'c02:desc-name'}
        if desc.get('control_names') != want_names:
            return {'what': f'control names {desc.get("control_names")} != {want_names}', 'signature': 'c02:desc-controls'}
        from fractions import Fraction as F
        for k, (n, dflt) in enumerate(params):
            c = desc['controls'][k] if k < len(desc.get('controls', [])) else None
            want = str(F(dflt[0], dflt[1]))
            if not c or c[0] != n or c[1] != k or c[2] != 'control' or c[3] != want:
                return {'what': f'control {k} recovered as {c}, expected {[n, k, "control", want]}',
                        'signature': 'c02:desc-control'}
        rate_name = {0: 'scalar', 1: 'control', 2: 'audio', 3: 'demand'}
        want_outs = [[rate_name[r], nch, cls] for r, nch, cls in parsed.get('outs', [])]
        if desc.get('outputs') != want_outs:
            return {'what': f'output units recovered as {desc.get("outputs")}, file has {want_outs}',
                    'signature': 'c02:desc-outputs'}
        if desc.get('has_gate') != ('gate' in want_names):
            return {'what': 'gate flag wrong', 'signature': 'c02:desc-gate'}
        # width-first units precede every unit created after them
        pos = io.get('positions') or {}
        flags = io.get('flags') or {}
        for ei, f in flags.items():
            if self._ref_wf(f) and pos.get(ei):
                p0 = pos[ei][0]
                for ej, pj in pos.items():
                    if int(ej) > int(ei) and pj and pj[0] < p0:
                        return {'what': f'unit of event {ej} is placed before the width-first unit of event {ei} created earlier',
                                'signature': 'c02:width-first-order'}
        return None

    def nontrivial(self, case, io):
        if io['canon'].startswith('ERR'):
            return True
        if io.get('nunits', 0) < 3:
            return False
        units = io['canon'].split(' U=')[1].split(' B=')[0].split('|')
        return any(any(not x.startswith('-1.') for x in u.split('/')[3].split()) for u in units if u.split('/')[3])
