"""C02 — Emitted definitions are well-formed, topologically ordered SCgf v2.
Shares the program language, the real-code runner and the Lean driver with C01."""
import string
from harness import common
from harness.props import c01, c01_regen

NAME_CHARS = string.ascii_letters + string.digits + '_'


class Check(c01.Check):
    PROP = 'C02'
    LEAN_TARGETS = ['Sc3Verif.C02.Props']
    LEAN_DIRS = ['Sc3Verif/C01', 'Sc3Verif/C02']
    THEOREMS = ['Sc3Verif.C02.' + t for t in (
        'write_parse_roundtrip', 'emitted_bytes_parse', 'topo_order', 'topo_each_once', 'topo_complete')]
    N_QUICK = 400
    N_THOROUGH = 8000
    ASSUMPTIONS = c01.Check.ASSUMPTIONS + [
        'binary32 conversion of constants is struct.pack (trusted); constants used are exactly representable',
        'variants block not covered here (C04)']

    def rule(self):
        return ('C01 program generator with larger graphs (up to 300 events), definition names of length '
                '0..257 over [A-Za-z0-9_], more multi-out and width-first units, invalid graphs (bad inputs, '
                'rate mismatches). Non-trivial: compiled, >= 3 units and at least one unit refers to another '
                'unit output; or rejected with an exception. Distinct by program text.')

    def gen(self, rng, n):
        cases = []
        for i in range(n):
            big = rng.random() < 0.06
            g = c01.GraphGen(rng, max_events=300 if big else 40)
            p = g.program(i)
            r = rng.random()
            if r < 0.25:
                ln = rng.choice([0, 1, 2, 31, 32, 254, 255, 255, 256, 257]) if r < 0.12 else rng.randint(1, 255)
                p['name'] = ''.join(rng.choice(NAME_CHARS) for _ in range(ln))
                if ln == 0:
                    p['surely_valid'] = False
            cases.append(p)
        return cases

    def oracle(self, case, io):
        canon = io['canon']
        params = case.get('params', [])
        base = 1 if params else 0
        if len(case['name']) > 255 and not canon.startswith('ERR'):
            return {'what': f'definition name of {len(case["name"])} characters produced bytes', 'signature': 'c02:longname'}
        # a constructor of a side-effecting unit was handed None / NaN / a string: must be rejected
        for j, e in enumerate(case['events']):
            if e['t'] == 'atom' and any(a[0] == 'bad' for a in e['ins']):
                f = (io.get('flags') or {}).get(str(base + j))
                if f and not f['dce'] and canon.startswith('OK'):
                    return {'what': f'graph with an invalid input to {e["cls"]} (event {base + j}) was compiled to bytes',
                            'signature': 'c02:invalid-accepted'}
        if not canon.startswith('OK'):
            return None
        sem = io.get('sem')
        if sem and sem.get('signature', '').startswith('scgf:'):
            return sem
        # the library's own reader recovers the description
        desc, parsed = io.get('desc') or {}, io.get('parsed') or {}
        if 'error' in desc:
            return {'what': 'SynthDesc reader rejects the emitted bytes: ' + desc['error'], 'signature': 'c02:desc-reject'}
        want_names = [n for n, _ in params]
        if desc.get('name') != case['name'] or parsed.get('name') != case['name']:
            return {'what': f'name recovered as {desc.get("name")!r}', 'signature': 'c02:desc-name'}
        if desc.get('control_names') != want_names:
            return {'what': f'control names {desc.get("control_names")} != {want_names}', 'signature': 'c02:desc-controls'}
        from fractions import Fraction as F
        for k, (n, dflt) in enumerate(params):
            c = desc['controls'][k] if k < len(desc.get('controls', [])) else None
            want = str(F(dflt[0], dflt[1]))
            if not c or c[0] != n or c[1] != k or c[2] != 'control' or c[3] != want:
                return {'what': f'control {k} recovered as {c}, expected {[n, k, "control", want]}',
                        'signature': 'c02:desc-control'}
        rate_name = {0: 'scalar', 1: 'control', 2: 'audio', 3: 'demand'}
        want_outs = [[rate_name[r], nch, cls] for r, nch, cls in parsed.get('outs', [])]
        if desc.get('outputs') != want_outs:
            return {'what': f'output units recovered as {desc.get("outputs")}, file has {want_outs}',
                    'signature': 'c02:desc-outputs'}
        if desc.get('has_gate') != ('gate' in want_names):
            return {'what': 'gate flag wrong', 'signature': 'c02:desc-gate'}
        # width-first units precede every unit created after them
        pos = io.get('positions') or {}
        flags = io.get('flags') or {}
        for ei, f in flags.items():
            if f.get('wf') and pos.get(ei):
                p0 = pos[ei][0]
                for ej, pj in pos.items():
                    if int(ej) > int(ei) and pj and pj[0] < p0:
                        return {'what': f'unit of event {ej} is placed before the width-first unit of event {ei} created earlier',
                                'signature': 'c02:width-first-order'}
        return None

    def nontrivial(self, case, io):
        if io['canon'].startswith('ERR'):
            return True
        if io.get('nunits', 0) < 3:
            return False
        units = io['canon'].split(' U=')[1].split(' B=')[0].split('|')
        return any(any(not x.startswith('-1.') for x in u.split('/')[3].split()) for u in units if u.split('/')[3])
