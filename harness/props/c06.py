"""C06 — OSC encoding round-trips, conforms to OSC 1.0 and is sized correctly."""
import ast
import struct
import sys
from fractions import Fraction

from harness import common

sys.path.insert(0, str(common.VERIF / 'tools'))
import osc10  # noqa: E402

MAX_DGRAM = 65504
I32 = (-2 ** 31, 2 ** 31 - 1)


# ---------------------------------------------------------------------------------------------
# JSON value helpers (encoding documented in harness/impl/c06.py)
# ---------------------------------------------------------------------------------------------
def jf(x):
    return {'f': float(x).hex() if x == x and abs(x) != float('inf') else str(float(x))}


def js(s):
    return {'s': s}


def jb(b, kind='b'):
    return {kind: bytes(b).hex()}


def is_float(j):
    return isinstance(j, dict) and 'f' in j


def fval(j):
    return float.fromhex(j['f']) if j['f'] not in ('nan', 'inf', '-inf') else float(j['f'])


F32_OVERFLOW = 2 ** 128 - 2 ** 103     # midpoint between the largest binary32 and 2**128 (ties to even: up)


def f32_overflows(x):
    """a FINITE binary64 that rounds to a binary32 infinity: no 32-bit representation (exact arithmetic)"""
    return x == x and abs(x) != float('inf') and abs(Fraction(x)) >= F32_OVERFLOW


def f32bits(x):
    if f32_overflows(x):
        return 2 ** 32                 # no pattern (the Lean model decides the same from the exact value)
    return struct.unpack('>I', struct.pack('>f', x))[0]


def is_str(j):
    return isinstance(j, dict) and 's' in j


def is_bytes(j):
    return isinstance(j, dict) and ('b' in j or 'ba' in j or 'mv' in j)


def bval(j):
    return bytes.fromhex(j.get('b', j.get('ba', j.get('mv'))))


def is_time(j):
    return j is None or isinstance(j, (bool, int)) or is_float(j)


def utf8(s):
    try:
        return s.encode('utf-8')
    except UnicodeEncodeError:
        return None


def tok(j):
    """driver token(s) of a JSON-encoded Python value"""
    if j is None:
        return 'N'
    if j is True:
        return 'T'
    if j is False:
        return 'F'
    if isinstance(j, int):
        return f'I{j}'
    if isinstance(j, list):
        return ' '.join([f'L{len(j)}'] + [tok(x) for x in j])
    if 'f' in j:
        x = fval(j)
        if x != x or abs(x) == float('inf'):
            return f'D0/1:{f32bits(x)}'
        fr = Fraction(x)
        return f'D{fr.numerator}/{fr.denominator}:{f32bits(x)}'
    if 's' in j:
        b = utf8(j['s'])
        return 'X' if b is None else 'S' + b.hex()
    if is_bytes(j):
        return 'B' + bval(j).hex()
    if 'u' in j:
        return ' '.join([f'U{len(j["u"])}'] + [tok(x) for x in j['u']])
    return 'O'


def frac(hexfloat):
    fr = Fraction(float.fromhex(hexfloat))
    return f'{fr.numerator}/{fr.denominator}'


# ---------------------------------------------------------------------------------------------
# Independent expectation (the documented coercions), used by the oracle
# ---------------------------------------------------------------------------------------------
class Refuse(Exception):
    """the value has no OSC representation / is not a valid message: must be refused"""


class OutOfDomain(Exception):
    """accepted by design but outside the property's domain (address without '/', MIDI tuples...)"""


def timetag_of(lat, send, off):
    if lat is None:
        return 1
    v = Fraction(fval(lat)) if is_float(lat) else Fraction(int(lat))
    if v < 0:
        return 1
    x = (v + Fraction(send)) * 2 ** 32
    t = int(x)              # Fraction.__int__ truncates toward zero, like int(float)
    t += off
    if not 0 <= t < 2 ** 64:
        raise Refuse('timetag out of range')
    return t


def expect_addr(a):
    if not is_str(a):
        raise Refuse('address is not a str')
    b = utf8(a['s'])
    if b is None:
        raise Refuse('address not encodable')
    if not b:
        raise Refuse('empty address')
    if 0 in b:
        raise Refuse('NUL in address')
    if not b.startswith(b'/'):
        raise OutOfDomain('address without leading /')
    return b


def expect_msg(args, send, off):
    """-> ('msg', addr, values) in tools/osc10 terms; nested lists become ('nested', packet)"""
    if not args:
        raise Refuse('empty message list')
    addr = expect_addr(args[0])
    flat = []
    for a in args[1:]:
        if a is None or a is False:
            flat.append(('i', 0))
        elif a is True:
            flat.append(('i', 1))
        elif isinstance(a, int):
            if not I32[0] <= a <= I32[1]:
                raise Refuse('int out of int32')
            flat.append(('i', a))
        elif is_float(a):
            if f32_overflows(fval(a)):
                raise Refuse('finite float beyond the binary32 range')   # never sent as an infinity
            flat.append(('f', f32bits(fval(a))))
        elif is_str(a):
            if a['s'] == '[':
                flat.append('[')
            elif a['s'] == ']':
                flat.append(']')
            else:
                b = utf8(a['s'])
                if b is None:
                    raise Refuse('str not encodable')
                if 0 in b:
                    raise Refuse('NUL in str')
                flat.append(('s', b))
        elif is_bytes(a):
            if not bval(a):
                raise Refuse('empty blob')        # refused by the library (python-osc heritage)
            flat.append(('b', bval(a)))
        elif isinstance(a, list):
            if not a:
                flat.append(('i', 0))
            elif is_str(a[0]):
                flat.append(('nested', expect_msg(a, send, off)))
            elif is_time(a[0]) and len(a) > 1 and isinstance(a[1], list):
                flat.append(('nested', expect_bundle(a, send, off)))
            else:
                raise Refuse('list is neither message nor bundle')
        elif isinstance(a, dict) and 'u' in a:
            u = a['u']
            if len(u) != 4:
                raise Refuse('tuple is not a MIDI message')
            if not all(isinstance(x, int) for x in u):
                raise OutOfDomain('MIDI tuple of non-ints')
            flat.append(('m', tuple(int(x) % 256 for x in u)))
        else:
            raise Refuse('unsupported type')
    # bracket markers -> arrays
    stack = [[]]
    for v in flat:
        if v == '[':
            arr = []
            stack[-1].append(('[', arr)); stack.append(arr)
        elif v == ']':
            if len(stack) < 2:
                raise Refuse('unbalanced ]')
            stack.pop()
        else:
            stack[-1].append(v)
    if len(stack) != 1:
        raise Refuse('unbalanced [')
    return ('msg', addr, stack[0])


def expect_bundle(args, send, off):
    if not args:
        raise Refuse('empty bundle list')
    t = args[0]
    if not is_time(t):
        raise Refuse('bundle time is not a number')
    els = []
    for e in args[1:]:
        if isinstance(e, dict) and ('s' in e or 'u' in e or is_bytes(e)):
            raise OutOfDomain('a str/bytes/tuple where an element list is expected is indexed like a list')
        if not isinstance(e, list) or not e:
            raise Refuse('bundle element is not a non-empty list')
        if is_str(e[0]):
            els.append(expect_msg(e, send, off))
        elif is_time(e[0]):
            if t is not None:
                if e[0] is None:
                    raise Refuse('nested time None inside timed bundle')
                tv = Fraction(fval(t)) if is_float(t) else Fraction(int(t))
                sv = Fraction(fval(e[0])) if is_float(e[0]) else Fraction(int(e[0]))
                if tv > sv:
                    raise Refuse('nested time earlier than enclosing')
            els.append(expect_bundle(e, send, off))
        else:
            raise Refuse('bundle element is neither message nor bundle')
    return ('bundle', timetag_of(t, send, off), els)


def same(exp, got):
    """deep comparison expected (with 'nested') vs strict parse (tools/osc10 values)"""
    if exp[0] == 'msg':
        return got[0] == 'msg' and exp[1] == got[1] and same_vals(exp[2], got[2])
    return (got[0] == 'bundle' and exp[1] == got[1] and len(exp[2]) == len(got[2])
            and all(same(a, b) for a, b in zip(exp[2], got[2])))


def same_vals(ev, gv):
    if len(ev) != len(gv):
        return False
    for e, g in zip(ev, gv):
        if e[0] == 'nested':
            if g[0] != 'b':
                return False
            try:
                if not same(e[1], osc10.read_packet(g[1])):
                    return False
            except osc10.Osc10Error:
                return False
        elif e[0] == '[':
            if g[0] != '[' or not same_vals(e[1], g[1]):
                return False
        elif tuple(e) != tuple(g):
            return False
    return True


def canon_vals(vals, blobs):
    """canonical text (impl/driver format) of expected values; nested packets are taken from the
    strict parse (`blobs` iterates over the blobs met in the same order)"""
    out = []
    for v in vals:
        if v[0] == 'nested':
            out.append('b' + next(blobs).hex())
        elif v[0] == '[':
            out.append(' '.join(['['] + canon_vals(v[1], blobs) + [']']))
        elif v[0] == 'i':
            out.append(f'i{v[1]}')
        elif v[0] == 'f':
            out.append('fnan' if (v[1] >> 23) & 255 == 255 and v[1] & 0x7fffff else f'f{v[1]}')
        elif v[0] == 's':
            out.append('s' + v[1].hex())
        elif v[0] == 'b':
            next(blobs)
            out.append('b' + v[1].hex())
        elif v[0] == 'm':
            out.append('m' + '.'.join(str(x) for x in v[1]))
    return out


def blobs_of(vals):
    for v in vals:
        if v[0] == 'b':
            yield v[1]
        elif v[0] == '[':
            yield from blobs_of(v[1])


def canon_packet(exp, got):
    """expected `OscPacket(dgram).messages` text: flatten, stable sort by time"""
    flat_e, flat_g = osc10.flatten(exp), osc10.flatten(got)
    rows = []
    for (t, addr, ev), (_, _, gv) in zip(flat_e, flat_g):
        rows.append((t, addr.hex() + ';' + ' '.join(canon_vals(ev, blobs_of(gv)))))
    rows.sort(key=lambda r: r[0] or 0)
    return '|'.join(('None' if t is None else str(t)) + ';' + r for t, r in rows)


# ---------------------------------------------------------------------------------------------
class Check(common.Check):
    PROP = 'C06'
    LEAN_TARGETS = ['Sc3Verif.C06.Props']
    LEAN_DIRS = ['Sc3Verif/C06']
    THEOREMS = []          # filled below
    N_QUICK = 2000
    N_THOROUGH = 24000
    ASSUMPTIONS = [
        "struct.pack('>f') (double -> single conversion) is trusted; a float argument is modelled by its 32-bit pattern",
        "str.encode('utf-8') / bytes.decode('utf-8') are trusted; the model carries text as UTF-8 bytes with an executable validity check compared against CPython on every run",
        "latencies in the run are dyadic rationals, on which the binary64 arithmetic of _get_timetag is exact (modelled over Rat)",
        "addresses start with '/' for the packet-level round trip (the decoder drops other contents by design; sc3, like sclang, does not enforce it when sending)",
        "size prediction is claimed for ASCII addresses (the library encodes the address with 'ascii' when sizing)",
        "MIDI 4-tuples are outside the property's value domain; their bytes are masked with & 0xFF as python-osc documents",
    ]

    def __init__(self, tier, seed):
        super().__init__(tier, seed)
        if tier == 'thorough':
            self.SEARCH_FACTOR = 1          # keeps a broken-tie run of the thorough tier within bounds

    # ---- translator tie: constants of netaddr.py -------------------------------------------------
    def regen(self):
        src = (common.REPO / 'sc3' / 'base' / 'netaddr.py').read_text()
        try:
            tree = ast.parse(src)
        except SyntaxError as e:
            return f'netaddr.py does not parse: {e}'
        consts, default, strpad = {}, None, None
        for node in ast.walk(tree):
            if isinstance(node, ast.ClassDef) and node.name == 'NetAddr':
                for st in node.body:
                    if isinstance(st, ast.Assign) and len(st.targets) == 1 and isinstance(st.targets[0], ast.Name) \
                            and isinstance(st.value, ast.Constant) and isinstance(st.value.value, int):
                        consts[st.targets[0].id] = st.value.value
                    if isinstance(st, ast.FunctionDef) and st.name == '_clump_bundle':
                        d = st.args.defaults
                        if len(d) == 1 and isinstance(d[0], ast.Constant) and isinstance(d[0].value, int):
                            default = d[0].value
                    if isinstance(st, ast.FunctionDef) and st.name == '_strpad4':
                        body = [b for b in st.body if not (isinstance(b, ast.Expr) and isinstance(b.value, ast.Constant))]
                        if len(body) == 1 and isinstance(body[0], ast.Return):
                            strpad = ast.unparse(body[0].value)
        for k in ('_MAX_UDP_DGRAM_SIZE', '_SYNC_BNDL_DGRAM_SIZE'):
            if k not in consts:
                return f'NetAddr.{k} is not an integer literal any more'
        if default is None:
            return 'default size of NetAddr._clump_bundle is not an integer literal any more'
        if strpad != 'n + 4 - (n & 3)':
            return f'NetAddr._strpad4 has an unknown shape: {strpad!r} (model has n + 4 - n % 4)'
        text = ('-- REGENERATED by harness/props/c06.py:regen() from sc3/base/netaddr.py — do not edit.\n'
                'namespace Sc3Verif.C06\n'
                '/-- `NetAddr._MAX_UDP_DGRAM_SIZE` -/\n'
                f'def maxUdpDgramSize : Nat := {consts["_MAX_UDP_DGRAM_SIZE"]}\n'
                '/-- `NetAddr._SYNC_BNDL_DGRAM_SIZE` -/\n'
                f'def syncBndlDgramSize : Nat := {consts["_SYNC_BNDL_DGRAM_SIZE"]}\n'
                '/-- default `size` of `NetAddr._clump_bundle` -/\n'
                f'def defaultClumpSize : Nat := {default}\n'
                'end Sc3Verif.C06\n')
        f = common.LEAN / 'Sc3Verif' / 'C06' / 'GenConsts.lean'
        if not f.exists() or f.read_text() != text:
            f.write_text(text)
        return None

    def rule(self):
        return ('messages: address over printable ASCII (all lengths mod 4; rarely empty / no slash / non-ASCII / NUL / '
                'non-str), 0-8 arguments over int32 edges and out-of-range ints, dyadic and non-dyadic floats, nan/inf, the edge of the binary32 range '
                '(largest binary32, first overflowing value, 1e39, 1e300, float max, smallest subnormal), '
                'ASCII and non-ASCII str incl. NUL and lone surrogates, bytes/bytearray/memoryview of length 0-70, bool, '
                'None, [], nested message and bundle lists to depth 4, malformed lists, array markers balanced and not, '
                'MIDI tuples, unsupported objects; bundles: latency None/negative/0/positive dyadic/bool, nested bundles '
                'with legal and illegal sub-times, bad elements; clump/send/sync: element lists (few large, many tiny) '
                'whose predicted total straddles 8192, 65468 and 65504 by -8..+8 bytes and small limits. '
                'Non-trivial: an accepted packet with >= 1 argument or element that is not a plain int, or a '
                'clump case with >= 2 clumps; distinct by case')

    # ---- generator ---------------------------------------------------------------------------
    SEGCH = 'abcxyz019_-.~+'

    def g_addr(self, rng, weird=True):
        r = rng.random()
        if weird and r < 0.02:
            return rng.choice([js(''), js('foo'), js('/é' + 'a' * rng.randrange(3)), js('/a\x00b'),
                               5, None, jb(b'/a'), js('\ud800'), js('#bundle' if self.BUNDLE_DAMAGE else '#bundl'),
                               True, []])
        n = rng.choice([0, 1, 2, 3, 4, 5, 6, 7, rng.randrange(8, 30)])
        s = '/' + ''.join(rng.choice(self.SEGCH + '/' if i % 5 else self.SEGCH) for i in range(n))
        if rng.random() < 0.05:
            s += rng.choice(['*', '?', '[a-c]', '{x,y}', ' ', '#', '!'])
        return js(s)

    def g_str(self, rng):
        r = rng.random()
        if r < 0.55:
            n = rng.choice([0, 1, 2, 3, 4, 5, 7, 8, rng.randrange(9, 40)])
            return js(''.join(rng.choice('abcXYZ 0189_/,[]#') for _ in range(n)))
        if r < 0.85:
            n = rng.randrange(1, 7)
            return js(''.join(rng.choice('aé漢ñ😀ß߿ࠀ￿\U00010000z') for _ in range(n)))
        if r < 0.91:
            return js(rng.choice(['a\x00b', '\x00', 'abc\x00', 'é\x00']))
        if r < 0.95:
            return js(rng.choice(['\ud800', 'a\udfffb']))
        return js(rng.choice(['[x', ']]', '[]', ',', ',i']))

    def g_int(self, rng):
        r = rng.random()
        if r < 0.35:
            return rng.randrange(-5, 6)
        if r < 0.6:
            return rng.choice([2 ** 31 - 1, -2 ** 31, 2 ** 31 - 2, -2 ** 31 + 1, 255, 256, 65535, 65536, 2 ** 24, -2 ** 24,
                               0x7f7f7f7f, -129, 128, 0x01020304])
        if r < 0.72:
            return rng.choice([2 ** 31, -2 ** 31 - 1, 2 ** 32, 2 ** 63, -2 ** 40, 2 ** 31 + 5])
        return rng.randrange(-2 ** 31, 2 ** 31)

    def g_float(self, rng):
        r = rng.random()
        if r < 0.6:
            return jf(rng.randrange(-2 ** 12, 2 ** 12) / 2 ** rng.randrange(0, 11))
        if r < 0.8:
            return jf(rng.choice([0.1, -0.3, 1e-50, 3.4e38, 1e30, 16777217.0, -0.0, 1.0000001]))
        if r < 0.9:
            return jf(rng.choice([float('nan'), float('inf'), float('-inf')]))
        if r < 0.97:                                              # the edge of the binary32 range, both sides
            big = float.fromhex('0x1.fffffep+127')                # largest binary32
            edge = float.fromhex('0x1.ffffffp+127')               # 2**128 - 2**103: the first value that overflows
            return jf(rng.choice([1, -1]) * rng.choice([
                big, edge, float.fromhex('0x1.fffffefffffffp+127'), float.fromhex('0x1.ffffff0000001p+127'),
                3.5e38, 1e39, 1e300, sys.float_info.max, 2.0 ** 128, float('inf'),
                float.fromhex('0x1p-149'), float.fromhex('0x1p-150'), float.fromhex('0x1.8p-150'), 5e-324]))
        return jf(rng.uniform(-1e6, 1e6))

    def g_bytes(self, rng):
        n = rng.choice([0, 1, 2, 3, 4, 5, 6, 7, 8, rng.randrange(9, 71)])
        b = bytes(rng.randrange(256) if rng.random() < 0.7 else 0 for _ in range(n))
        return jb(b, rng.choice(['b', 'b', 'b', 'ba', 'mv']))

    def g_lat(self, rng):
        r = rng.random()
        if r < 0.25:
            return None
        if r < 0.35:
            return rng.choice([True, False])
        if r < 0.55:
            return rng.randrange(-2, 6)
        return jf(rng.randrange(-2 ** 8, 2 ** 14) / 2 ** rng.randrange(0, 11))

    def g_arg(self, rng, depth):
        r = rng.random()
        if r < 0.17:
            return self.g_int(rng)
        if r < 0.30:
            return self.g_float(rng)
        if r < 0.45:
            return self.g_str(rng)
        if r < 0.57:
            return self.g_bytes(rng)
        if r < 0.63:
            return rng.choice([True, False])
        if r < 0.68:
            return None
        if r < 0.72:
            return []
        if r < 0.80 and depth < 4:
            return self.g_msg(rng, depth + 1)
        if r < 0.87 and depth < 4:
            return self.g_bundle(rng, depth + 1)
        if r < 0.90:
            return rng.choice([[jf(1.0)], [jf(1.0), 5], [None], [0, js('/x')], [[js('/a')]], [jb(b'/a'), 1],
                               [{'o': 1}], [{'u': [1, 2]}, [js('/a')]]])
        if r < 0.94:
            return {'u': [rng.randrange(256) for _ in range(4)]}
        if r < 0.96:
            return rng.choice([{'u': [1, 2, 3]}, {'u': []}, {'u': [1, 2, 3, 4, 5]}, {'u': [300, -1, 256, 4]},
                               {'u': [True, 0, 1, 2]}])
        if r < 0.98:
            return {'o': 1}
        return js(rng.choice(['[', ']']))

    def g_args(self, rng, depth):
        n = rng.choice([0, 0, 1, 1, 2, 3, 4, rng.randrange(5, 9)])
        args = [self.g_arg(rng, depth) for _ in range(n)]
        if rng.random() < 0.25:                         # array markers, mostly balanced
            i = rng.randrange(len(args) + 1)
            j = rng.randrange(i, len(args) + 1)
            args.insert(j, js(']')); args.insert(i, js('['))
            if rng.random() < 0.4 and j > i:            # nested array
                k = rng.randrange(i + 1, j + 2)
                args.insert(k, js(']')); args.insert(k, js('['))
            if rng.random() < 0.2:
                args.pop(rng.randrange(len(args)))      # may unbalance
        return args

    def g_msg(self, rng, depth=0):
        return [self.g_addr(rng)] + self.g_args(rng, depth)

    def g_bundle(self, rng, depth=0, parent=None):
        t = self.g_lat(rng)
        n = rng.choice([0, 1, 1, 2, 2, 3, 4])
        els = []
        for _ in range(n):
            r = rng.random()
            if r < 0.62 or depth >= 4:
                els.append(self.g_msg(rng, depth + 1))
            elif r < 0.92:
                sub = self.g_bundle(rng, depth + 1)
                if rng.random() < 0.75:                 # make the sub-time legal most of the time
                    if t is None:
                        pass
                    elif sub[0] is None or self.num(sub[0]) < self.num(t):
                        sub[0] = t if rng.random() < 0.5 else self.later(rng, t)
                els.append(sub)
            else:
                els.append(rng.choice([[], 5, None, [{'o': 1}], [jb(b'x')], jf(1.0), [[js('/a')]]]))
        return [t] + els

    @staticmethod
    def num(t):
        return fval(t) if is_float(t) else int(t)

    def later(self, rng, t):
        v = self.num(t) + rng.randrange(0, 9) / 4
        return jf(v) if rng.random() < 0.7 or v != int(v) else int(v)

    def g_send(self, rng):
        return float(rng.choice([0, 0, 1, rng.randrange(0, 2 ** 12) / 2 ** rng.randrange(0, 8), 100.75])).hex()

    def g_off(self, rng):
        return rng.choice([0, 0, 16594746777600000000 + rng.randrange(2 ** 40), 2 ** 64 - 2 ** 33, -2 ** 33, 12345])

    def g_elems_near(self, rng, limit):
        """RLE element list whose exact size 16 + sum(4 + s) is limit + delta"""
        delta = rng.choice([-12, -8, -4, 0, 4, 8, 12, rng.randrange(-200, 200) * 4, rng.randrange(1, 4) * limit])
        target = max(40, limit + delta)
        spec, total, idx = [], 16, 0
        style = rng.random()
        while True:
            room = target - total
            if room < 16:
                break
            if style < 0.4:                       # many tiny
                n = rng.randrange(1, 40)
                n = min(n, room // 16)
                alen = rng.choice([1, 2])           # '/a' or '/ab' -> 4 + 4 + 4 prefix = 12 + 4
                spec.append([n, [js('/' + 'abcdefghij'[idx % 10] * alen)]]); total += 16 * n
            else:
                big = rng.random() < 0.5
                k = rng.randrange(0, 3000 if big else 40)
                s_pad = k + 4 - k % 4
                sz = 4 + 8 + s_pad                  # prefix + '/x\0\0' + ',s\0\0' + string
                if sz > room:
                    k = max(0, room - 16 - 4)
                    k -= k % 4
                    s_pad = k + 4
                    sz = 12 + s_pad
                    if sz > room:
                        break
                kind = rng.random()
                if kind < 0.7:
                    e = [js('/' + 'klmnopqrst'[idx % 10]), js('x' * k)]
                elif kind < 0.85 and k > 0:
                    k2 = k if k % 4 == 0 else k + 4 - k % 4
                    e = [js('/' + 'klmnopqrst'[idx % 10]), jb(b'\x01' * (k2 if k2 else 4))]
                    sz = 12 + 4 + (k2 if k2 else 4)
                    if sz > room:
                        break
                else:
                    e = [self.SUBT, [js('/' + 'uvw'[idx % 3]), js('y' * k)]]
                    sz = 4 + 16 + 4 + 8 + s_pad
                    if sz > room:
                        break
                spec.append([1, e]); total += sz
            idx += 1
            if len(spec) > 400:
                break
        if not spec:
            spec = [[1, [js('/a')]]]
        if rng.random() < 0.3:
            rng.shuffle(spec)
        return spec

    SUBT = None
    BUNDLE_DAMAGE = True      # damaged bundles too (the element size is validated since repair D1)

    def gen_one(self, rng):
        r = rng.random()
        # nested bundle elements of clump/send cases: a sub-time that stays legal under the outer time
        self.SUBT = rng.choice([None, 0, jf(0.5), 3])
        if r < 0.46:
            return {'k': 'msg', 'send': self.g_send(rng), 'off': self.g_off(rng), 'args': self.g_msg(rng)}
        if r < 0.74:
            return {'k': 'bndl', 'send': self.g_send(rng), 'off': self.g_off(rng), 'args': self.g_bundle(rng)}
        if r < 0.84:
            return {'k': 'dec', 'hex': self.g_dgram(rng)}
        if r < 0.90:
            limit = rng.choice([8192, 65504, 65468, 64, 100, 256, 1000])
            return {'k': 'clump', 'size': limit, 'els': self.g_elems_near(rng, limit)}
        if r < 0.93:
            return self.g_reuse(rng)
        if r < 0.945:
            return self.g_dsend(rng)
        if r < 0.955:
            return self.g_bna(rng)
        if r < 0.96:
            return self.g_bnag(rng)
        if r < 0.98:
            t = rng.choice([None, float(0.25).hex(), float(0).hex()])
            self.SUBT = rng.choice([None, 0, jf(0.5)]) if t is None else rng.choice([jf(1.5), 3])
            return {'k': 'sendc', 'time': t,
                    'els': self.g_elems_near(rng, rng.choice([8192, 65504, 65504, 65504]))}
        t = rng.choice([None, float(0.5).hex()])
        self.SUBT = rng.choice([None, 0, jf(0.5)]) if t is None else rng.choice([jf(1.5), 3])
        return {'k': 'sync', 'lat': t,
                'els': self.g_elems_near(rng, rng.choice([65468, 65468, 65504, 8192]))}

    COMPLETIONS = [None, None, [js('/s_new'), js('big'), 1000, 0, 1], [js('/n_set'), 1, js('a'), jf(0.5)],
                   [None, [js('/a')], [js('/b'), 1]], [js('/c')], [js('/s_new'), js('a-much-longer-definition-name'), -1, 1, 0,
                                                             js('freq'), jf(440.0), js('amp'), jf(0.5)]]

    def g_dsend(self, rng):
        """SynthDef._do_send: definition size straddling the UDP limit, with / without completion message"""
        comp = rng.choice(self.COMPLETIONS)
        r = rng.random()
        if r < 0.8:
            size = MAX_DGRAM - 16 + rng.randrange(-100, 12)
        elif r < 0.9:
            size = rng.randrange(1, 400)
        else:
            size = MAX_DGRAM + rng.randrange(0, 3000)
        return {'k': 'dsend', 'size': size, 'completion': comp}

    def g_bnag(self, rng):
        """collecting proxy (send=False): messages, bundles with nested bundles carrying their own latency,
        sync(latency, elements=[...]), then get_bundle(time)"""
        ops, i = [], 0

        def el(depth=0):
            nonlocal i
            i += 1
            if depth < 2 and rng.random() < 0.3:                  # a nested bundle with its own latency
                return [rng.choice([None, jf(0.5), jf(0.25), 1]), *[el(depth + 1) for _ in range(rng.randrange(1, 3))]]
            return [js(f'/e{i}'), i] + ([js('x' * rng.randrange(9))] if rng.random() < 0.3 else [])
        for _ in range(rng.randrange(2, 10)):
            r = rng.random()
            if r < 0.4:
                i += 1
                ops.append(['msg', [js(f'/m{i}'), i]])
            elif r < 0.6:
                ops.append(['bundle', [el() for _ in range(rng.randrange(0, 4))]])
            elif r < 0.68:
                ops.append(['clumped', [el() for _ in range(rng.randrange(0, 3))]])
            elif r < 0.72:
                ops.append(['status'])
            else:
                ops.append(['sync', rng.choice([None, None, jf(0.5), jf(0.125)]),
                            rng.choice([None, [el() for _ in range(rng.randrange(0, 3))]])])
        return {'k': 'bnag', 'ops': ops, 'time': rng.choice([None, jf(0.25)])}

    @staticmethod
    def expect_bnag(c):
        """what the proxy holds: the elements as given (nesting, latencies, order), cut at every sync —
        the sync's own elements close the bundle they were given with, the sync latency times the next one"""
        res, curr = [], [c['time']]
        for op in c['ops']:
            if op[0] == 'msg':
                curr.append(op[1])
            elif op[0] in ('bundle', 'clumped'):
                curr.extend(op[1])
            elif op[0] == 'sync':
                curr.extend(op[2] or [])
                res.append(curr)
                curr = [op[1]]
        res.append(curr)
        return res

    def g_bna(self, rng):
        """BundleNetAddr (server.bind()): messages, sync, more messages, exit"""
        ops, i = [], 0

        def el():
            nonlocal i
            i += 1
            if rng.random() < 0.15:
                return [None, [js(f'/e{i}'), i]]
            return [js(f'/e{i}'), i] + ([js('x' * rng.randrange(9))] if rng.random() < 0.3 else [])
        for _ in range(rng.randrange(2, 13)):
            r = rng.random()
            if r < 0.5:
                ops.append(['msg', el()])
            elif r < 0.62:
                ops.append(['bundle', [el() for _ in range(rng.randrange(0, 4))]])
            elif r < 0.7:
                ops.append(['clumped', [el() for _ in range(rng.randrange(0, 4))]])
            elif r < 0.74:
                ops.append(['status'])
            elif r < 0.93:
                ops.append(['sync', None])
            else:
                ops.append(['sync', [el() for _ in range(rng.randrange(0, 3))]])
        return {'k': 'bna', 'ops': ops}

    @staticmethod
    def def_bytes(n):
        return bytes((i * 7 + 3) % 251 for i in range(n))

    def g_reuse(self, rng):
        """call histories: the SAME argument objects given to a send path 2-4 times"""
        m = rng.choice(['sync', 'sync', 'sendc', 'bundle', 'msg'])
        n = rng.randrange(2, 5)
        if m == 'msg':
            self.SUBT = None
            args = [js('/m'), rng.randrange(9), [js('/c'), rng.randrange(5)], [None, [js('/d'), js('x')], [js('/e')]],
                    js('s' * rng.randrange(6))][:rng.randrange(2, 6)]
            return {'k': 'reuse', 'method': 'msg', 'n': n, 'args': args, 'time': None}
        t = None if m in ('bundle',) else rng.choice([None, None, float(0.5).hex()])
        self.SUBT = rng.choice([None, 0, jf(0.5)]) if t is None else rng.choice([jf(4.5), 8])
        if m == 'bundle':
            self.SUBT = None
        limit = rng.choice([200, 400, 8192, 8192, 65468, 65504]) if m != 'bundle' else rng.choice([100, 300, 2000])
        els = self.g_elems_near(rng, limit)
        if m == 'bundle' or rng.random() < 0.5:          # stay below every clumping threshold
            els = els[:rng.randrange(1, 5)]
            els = [[min(c, 3), e] for c, e in els]
        return {'k': 'reuse', 'method': m, 'n': n, 'time': t, 'els': els,
                'as': 'list' if rng.random() < 0.8 else 'tuple'}

    def g_dgram(self, rng):
        """well-formed and mildly damaged datagrams for the decoder tie (the hostile stream is C18's)"""
        parts = [b'/a\x00\x00,i\x00\x00\x00\x00\x00\x05', b'/ab\x00,sf\x00xyz\x00\x3f\x80\x00\x00',
                 b'/abc\x00\x00\x00\x00,b\x00\x00\x00\x00\x00\x03\x01\x02\x03\x00',
                 b'/abc\x00\x00\x00\x00,bis\x00\x00\x00\x00\x00\x00\x00\x02AB\x00\x00\x00\x00\x04\xd2tail\x00\x00\x00\x00',
                 b'/b\x00\x00,bbf\x00\x00\x00\x00\x00\x00\x00\x05ABCDE\x00\x00\x00\x00\x00\x00\x01Z\x00\x00\x00\x3f\x00\x00\x00',
                 b'/t\x00\x00,TF[i[f]]\x00\x00\x00\x00\x00\x00\x00\x07\x40\x00\x00\x00',
                 b'/d\x00\x00,dtrm\x00\x00\x00' + bytes(range(24)),
                 b'/n\x00\x00,NIxi\x00\x00\x00\x00\x00\x00\x09']
        d = rng.choice(parts)
        if rng.random() < 0.5:
            els = [rng.choice(parts) for _ in range(rng.randrange(0, 4))]
            d = b'#bundle\x00' + struct.pack('>Q', rng.choice([0, 1, 5, 2 ** 63]))
            for e in els:
                if rng.random() < 0.25:
                    e = b'#bundle\x00' + struct.pack('>Q', rng.choice([0, 3, 9])) + struct.pack('>i', len(e)) + e
                d += struct.pack('>i', len(e)) + e
        r = rng.random()
        if d.startswith(b'#') and not self.BUNDLE_DAMAGE:
            r = 1.0
        if rng.random() < 0.18:                       # size fields: negative, zero, oversized, off by one
            sz = rng.choice([-1, -4, -16, -2 ** 31, -2 ** 31 + 3, 2 ** 31 - 1, 2 ** 20, 0, 1, 2, 3, 5, 9, 12, 13, 16])
            body = rng.choice([b'abcd', b'\x01\x02\x03\x00', b'', b'abcdefgh\x00\x00\x00\x00', b'/x\x00\x00,\x00\x00\x00'])
            if rng.random() < 0.5:                    # blob size
                d = b'/abc\x00\x00\x00\x00' + rng.choice([b',b\x00\x00', b',bi\x00', b',ib\x00\x00\x00\x00\x07'][:2]) \
                    + struct.pack('>i', sz) + body
                if rng.random() < 0.3:
                    d = b'#bundle\x00' + struct.pack('>Q', 1) + struct.pack('>i', len(d)) + d
            else:                                     # bundle element size
                d = b'#bundle\x00' + struct.pack('>Q', rng.choice([1, 7])) + struct.pack('>i', sz) + body
                if rng.random() < 0.4:
                    d += struct.pack('>i', 8) + b'/y\x00\x00,\x00\x00\x00'
            return d.hex()
        if r < 0.3 and d:
            d = d[:rng.randrange(len(d) + 1)]
        elif r < 0.5 and d:
            i = rng.randrange(len(d))
            d = d[:i] + bytes([rng.choice([0, 1, 0x2c, 0x2f, 0x80, 0xff, rng.randrange(256)])]) + d[i + 1:]
        elif r < 0.55:
            d = d + bytes(rng.randrange(256) for _ in range(rng.randrange(1, 6)))
        return d.hex()

    def gen(self, rng, n):
        return [self.gen_one(rng) for _ in range(n)]

    # ---- runners -----------------------------------------------------------------------------
    def impl(self, cases):
        res, err = common.run_impl('c06', 'run', {'cases': cases}, timeout=3000)
        if res is None:
            self.notes.append(err)
        return res

    @staticmethod
    def els_list(spec):
        out = []
        for cnt, e in spec:
            out.extend([e] * cnt)
        return out

    def model(self, cases):
        lines, idx = [], []
        for c in cases:
            k = c['k']
            if k in ('msg', 'bndl'):
                lines.append(f'{k} {frac(c["send"])} {c["off"]} {tok(c["args"])}')
                lines.append(('csm ' + tok(c['args'])) if k == 'msg' else ('csb ' + tok(c['args'][1:])))
                idx.append(2)
            elif k == 'dec':
                lines.append('dec ' + c['hex']); idx.append(1)
            elif k == 'clump':
                lines.append(f'clump {c["size"]} ' + tok(self.els_list(c['els']))); idx.append(1)
            elif k == 'dsend':
                hx = self.def_bytes(c['size']).hex()
                lines.append(f'dsend B{hx} {tok(c["completion"])}')
                lines.append(f'msg 0/1 0 L3 S2f645f72656376 B{hx} {tok(c["completion"])}')
                idx.append(2)
            elif k == 'bnag':
                exp = self.expect_bnag(c)
                for bd in exp:
                    lines.append('bndl 0/1 0 ' + tok(bd))
                idx.append(len(exp))
            elif k == 'bna':
                lines.append('bna reset')
                for op in c['ops']:
                    if op[0] == 'msg':
                        lines.append('bna msg ' + tok(op[1]))
                    elif op[0] in ('bundle', 'clumped'):
                        lines.append('bna ext ' + tok(op[1]))
                    elif op[0] == 'status':
                        lines.append('bna ext L0')
                    else:
                        lines.append('bna sync ' + ('-' if op[1] is None else tok(op[1])))
                lines.append('bna exit')
                idx.append(len(c['ops']) + 2)
            elif k == 'reuse':
                m = c['method']
                if m == 'msg':
                    lines.append('msg 0/1 0 ' + tok(c['args']))
                elif m == 'bundle':
                    lines.append('bndl 0/1 0 ' + tok([None] + self.els_list(c['els'])))
                else:
                    lines.append(f'{m} ' + tok(self.els_list(c['els'])))
                idx.append(1)
            else:
                lines.append(f'{k} ' + tok(self.els_list(c['els']))); idx.append(1)
        out, err = common.run_driver('Sc3Verif/C06/Driver.lean', lines)
        if out is None or len(out) != len(lines):
            raise RuntimeError('driver failed: ' + (err or f'{len(out)} lines for {len(lines)}'))
        res, p, second = [], 0, []
        for c, n in zip(cases, idx):
            o = out[p:p + n]; p += n
            k = c['k']
            if k in ('msg', 'bndl'):
                d = {'r': o[0], 'size': o[1]}
                if o[0].startswith('ok '):
                    second.append((d, o[0][3:]))
                res.append(d)
            elif k == 'dec':
                res.append({'dec': o[0]})
            elif k == 'dsend':
                if o[0] == 'recv':
                    res.append({'r': ('ok recv %d' % ((len(o[1]) - 3) // 2)) if o[1].startswith('ok ') else o[1]})
                elif o[0] == 'load':
                    res.append({'r': 'ok load'})
                else:
                    res.append({'r': o[0]})
            elif k == 'bnag':
                res.append({'hex': list(o)})
            elif k == 'bna':
                res.append({'ops': [x.rstrip() for x in o[1:]]})
            elif k == 'reuse':
                if c['method'] in ('msg', 'bundle'):       # every call sends these very bytes
                    res.append({'r': o[0] if not o[0].startswith('ok ') else 'ok ' + ';'.join([o[0][3:]] * c['n'])})
                else:                                       # every call sends this plan
                    res.append({'r': o[0] if not o[0].startswith('ok ') else 'ok ' + ';'.join([o[0][3:]] * c['n'])})
            else:
                res.append({'r': o[0]})
        if second:
            out2, err = common.run_driver('Sc3Verif/C06/Driver.lean', ['dec ' + h for _, h in second])
            if out2 is None or len(out2) != len(second):
                raise RuntimeError('driver failed (decode pass): ' + err)
            for (d, _), o in zip(second, out2):
                d['dec'] = o
        return res

    KEYS = {'msg': ('r', 'dec', 'size'), 'bndl': ('r', 'dec', 'size'), 'dec': ('dec',), 'clump': ('r',),
            'sendc': ('r',), 'sync': ('r',), 'reuse': ('r',), 'dsend': ('r',), 'bna': ('ops',), 'bnag': ('hex',)}

    def compare(self, case, io, mo):
        diff = {}
        for key in self.KEYS[case['k']]:
            a, b = io.get(key), mo.get(key)
            if key == 'ops' and isinstance(a, list):
                a = [x.rstrip() for x in a]
            if case['k'] in ('sendc', 'sync') and key == 'r':
                a = ('ok ' + ','.join(str(x) for x in io.get('counts', []))) if a == 'ok' else a
            if case['k'] == 'reuse' and case['method'] in ('msg', 'bundle') and key == 'r' and str(a).startswith('ok '):
                a = 'ok ' + ';'.join(h for cl in io.get('calls', []) for h in (cl['hex'] or []))
            if mo.get('r') == 'err NOT-MODELLED' or b == 'err NOT-MODELLED':
                continue        # a str / bytes / tuple where an element LIST is expected: Python indexes it
                                # like a list; outside the modelled (and the property's) domain
            if a != b:
                diff[key] = {'impl': a, 'model': b}
        return diff or None

    # ---- property oracle (independent of the Lean model) ---------------------------------------
    def oracle(self, c, o):
        k = c['k']
        for key in ('r', 'dec', 'size'):
            if o.get(key) == 'HANG':
                return {'what': f'{key}: the call did not return within 20 s', 'signature': 'c06:hang'}
        if k == 'bnag':
            exp = self.expect_bnag(c)
            if o.get('r') == 'ok' and o.get('struct') != exp:
                return {'what': f'the collecting proxy holds {o.get("struct")!r:.400}; given, in order, with nesting and '
                                f'latencies: {exp!r:.400}', 'signature': 'c06:proxy-structure'}
            return None
        if k in ('msg', 'bndl'):
            return self.oracle_packet(c, o)
        if k == 'clump':
            return self.oracle_clump(c, o)
        if k in ('sendc', 'sync'):
            return self.oracle_send(c, o)
        if k == 'reuse':
            return self.oracle_reuse(c, o)
        if k == 'dsend':
            return self.oracle_dsend(c, o)
        if k == 'bna':
            return self.oracle_bna(c, o)
        return None

    def oracle_dsend(self, c, o):
        if not o['r'].startswith('ok'):
            return {'what': f'_do_send raised {o["r"]}', 'signature': 'c06:send-raises'}
        if len(o['sizes']) != 1:
            return {'what': f'_do_send sent {o["kinds"]}', 'signature': 'c06:dsend-count'}
        if o['sizes'][0] > MAX_DGRAM:
            return {'what': f'SynthDef._do_send (definition of {c["size"]} bytes, completion message '
                            f'{c["completion"]!r:.80}) handed a {o["kinds"][0]} datagram of {o["sizes"][0]} bytes to the '
                            f'socket (limit {MAX_DGRAM}) instead of falling back to /d_load',
                    'signature': 'c06:dgram-over-limit'}
        if o['kinds'] == ['/d_recv']:
            if not o.get('blob_ok'):
                return {'what': '/d_recv does not carry the definition bytes', 'signature': 'c06:roundtrip-strict'}
            # the completion message must be there, as the documented coercion says
            try:
                exp = expect_msg([js('/x'), c['completion']], 0.0, 0)
            except (Refuse, OutOfDomain):
                return None
            tail = bytes.fromhex(o['tail'])
            v = exp[2][0]
            if v[0] == 'nested':
                ok = len(tail) >= 4 and same(v[1], osc10.read_packet(tail[4:]))
            else:
                ok = tail == struct.pack('>i', v[1])
            if not ok or o.get('ntags') != 2:
                return {'what': f'/d_recv carries {tail[:40]!r} where the completion message {c["completion"]!r:.80} '
                                f'belongs', 'signature': 'c06:roundtrip-strict'}
        return None

    def oracle_bna(self, c, o):
        if o['r'] != 'ok':
            return {'what': f'BundleNetAddr history raised {o["r"]}', 'signature': 'c06:send-raises'}
        want, nsync = [], 0
        for op in c['ops']:
            if op[0] == 'msg':
                want += self.addr_seq(op[1])
            elif op[0] in ('bundle', 'clumped'):
                want += [a for e in op[1] for a in self.addr_seq(e)]
            elif op[0] == 'sync':
                nsync += 1
                if op[1]:
                    want += [a for e in op[1] for a in self.addr_seq(e)]
        got = [a for d in o['dgrams'] for a in d['addrs']]
        if [a for a in got if a != '/sync'] != want:
            missing = [a for a in want if a not in got]
            return {'what': f'server.bind() / BundleNetAddr: the datagrams carry {[a for a in got if a != "/sync"][:14]}, '
                            f'the messages collected were {want[:14]} (missing {missing[:6]}): every element must be '
                            f'sent exactly once and in order', 'signature': 'c06:bundle-netaddr-elements'}
        if got.count('/sync') != nsync:
            return {'what': f'{got.count("/sync")} /sync messages for {nsync} sync() calls', 'signature': 'c06:sync-missing'}
        if any(d['size'] > MAX_DGRAM for d in o['dgrams']):
            return {'what': 'datagram over the limit', 'signature': 'c06:dgram-over-limit'}
        return None

    def oracle_reuse(self, c, o):
        m = c['method']
        if not o['r'].startswith('ok'):
            return {'what': f'{m} raised {o["r"]} on well-formed arguments', 'signature': 'c06:send-raises'}
        if m == 'msg':
            want = [c['args'][0]['s']]
        else:
            want = [a for cnt, e in c['els'] for a in self.addr_seq(e) * cnt]
        for i, cl in enumerate(o['calls']):
            got = [a for per in cl['addrs'] for a in per]
            if m == 'sync':
                if any(per.count('/sync') != 1 or per[-1] != '/sync' for per in cl['addrs']):
                    return {'what': f'call #{i + 1} of sync(elements=<the same list>): a datagram carries '
                                    f'{[per.count("/sync") for per in cl["addrs"]]} /sync messages '
                                    f'({[len(per) for per in cl["addrs"]]} elements), expected exactly one, last',
                            'signature': 'c06:reuse-stale-elements', 'call': i}
                got = [a for a in got if a != '/sync']
            if got != want:
                return {'what': f'call #{i + 1} of {m} with the same argument objects: datagrams carry {got[:12]}…, '
                                f'the arguments say {want[:12]}…', 'signature': 'c06:reuse-wrong-elements', 'call': i}
            if any(s > MAX_DGRAM for s in cl['sizes']) and m != 'msg' and \
                    all(16 + 4 + s < (8192 if m == 'sendc' else MAX_DGRAM - 36) for s in o.get('elem_pred', [])) \
                    and m in ('sendc', 'sync'):
                return {'what': f'call #{i + 1}: datagram of {max(cl["sizes"])} bytes', 'signature': 'c06:dgram-over-limit'}
        if o.get('mutated'):
            return {'what': f'{m}: the caller\'s argument objects were modified by the call(s)',
                    'signature': 'c06:reuse-arguments-mutated'}
        return None

    def oracle_packet(self, c, o):
        send = float.fromhex(c['send'])
        try:
            exp = (expect_msg if c['k'] == 'msg' else expect_bundle)(c['args'], send, c['off'])
            refuse = None
        except Refuse as e:
            exp, refuse = None, str(e)
        except OutOfDomain:
            return None
        except (OverflowError, ValueError):
            return None
        if not o['r'].startswith('ok '):
            return None                          # refused: nothing was sent
        dgram = bytes.fromhex(o['r'][3:])
        if refuse is not None:
            return {'what': f'accepted although it has no faithful OSC representation ({refuse}); '
                            f'encoded as {dgram[:64]!r}', 'signature': 'c06:accepted-unrepresentable:' + refuse}
        try:
            got = osc10.read_packet(dgram)
        except osc10.Osc10Error as e:
            return {'what': f'encoded bytes are not OSC 1.0: {e}', 'signature': 'c06:not-osc10'}
        if not same(exp, got):
            return {'what': f'strict OSC 1.0 reading of the encoded bytes differs from the coerced input: '
                            f'expected {exp!r:.300}, read {got!r:.300}', 'signature': 'c06:roundtrip-strict'}
        want = canon_packet(exp, got)
        if o.get('dec') != 'ok ' + want:
            return {'what': f'OscPacket(dgram).messages = {o.get("dec")!r:.300}, expected {want!r:.300}',
                    'signature': 'c06:roundtrip-decoder'}
        if not self.ascii_addrs(c['args'], c['k'] == 'bndl'):
            return None
        sz = o.get('size', '')
        if not sz.startswith('ok '):
            return {'what': f'size prediction raised {sz} for an accepted {c["k"]} of {len(dgram)} bytes',
                    'signature': 'c06:size-raises'}
        if int(sz[3:]) < len(dgram):
            return {'what': f'predicted size {sz[3:]} < real size {len(dgram)}', 'signature': 'c06:size-below'}
        return None

    def ascii_addrs(self, args, bundle):
        """all addresses at every nesting level are ASCII"""
        if bundle:
            return all(self.ascii_addrs(e, not is_str(e[0])) for e in args[1:])
        if not (is_str(args[0]) and args[0]['s'].isascii()):
            return False
        for a in args[1:]:
            if isinstance(a, list) and a:
                if not self.ascii_addrs(a, not is_str(a[0])):
                    return False
        return True

    def oracle_clump(self, c, o):
        if not o['r'].startswith('ok '):
            return {'what': f'_clump_bundle raised {o["r"]} on well-formed elements', 'signature': 'c06:clump-raises'}
        if not o.get('concat'):
            return {'what': 'concatenation of the clumps is not the original element list', 'signature': 'c06:clump-concat'}
        for real, pred in zip(o['real'], o['pred']):
            if pred < real:
                return {'what': f'predicted bundle size {pred} < real {real}', 'signature': 'c06:size-below'}
        fits = all(16 + 4 + s < c['size'] for s in o['elem_pred'])
        if fits:
            for real in o['real']:
                if real > c['size']:
                    return {'what': f'a clump encodes to {real} bytes, limit {c["size"]} '
                                    f'(every element alone fits)', 'signature': 'c06:clump-over-limit'}
        return None

    def oracle_send(self, c, o):
        if o['r'] != 'ok':
            return {'what': f'{c["k"]} raised {o["r"]} on well-formed elements', 'signature': 'c06:send-raises'}
        want = [a for cnt, e in c['els'] for a in self.addr_seq(e) * cnt]
        got = [a for a in o['order'] if a != '/sync']
        if got != want:
            return {'what': 'datagrams do not carry every element exactly once in order',
                    'signature': 'c06:send-order'}
        inner = 8192 if c['k'] == 'sendc' else MAX_DGRAM - 36
        if all(16 + 4 + s < inner for s in o['elem_pred']):
            for s in o['sizes']:
                if s > MAX_DGRAM:
                    return {'what': f'a datagram of {s} bytes was handed to the socket (limit {MAX_DGRAM})',
                            'signature': 'c06:dgram-over-limit'}
        if c['k'] == 'sync' and any(a.count('/sync') != 1 for a in o['addrs_per']):
            return {'what': 'a sync bundle without exactly one /sync', 'signature': 'c06:sync-missing'}
        return None

    def addr_seq(self, e):
        if is_str(e[0]):
            return [e[0]['s']]
        return [a for x in e[1:] for a in self.addr_seq(x)]

    def nontrivial(self, c, o):
        if c['k'] in ('msg', 'bndl'):
            if not o['r'].startswith('ok '):
                return False
            return any(not isinstance(a, int) or isinstance(a, bool) for a in c['args'][1:])
        if c['k'] == 'clump':
            return o['r'].startswith('ok ') and o['r'].count(',') >= 1
        if c['k'] in ('sendc', 'sync'):
            return o['r'] == 'ok' and len(o.get('sizes', [])) >= 2
        if c['k'] == 'reuse':
            return o['r'].startswith('ok ')
        if c['k'] == 'dsend':
            return o['r'].startswith('ok')
        if c['k'] == 'bna':
            return o['r'] == 'ok' and len(o.get('dgrams', [])) >= 2
        if c['k'] == 'bnag':
            return o['r'] == 'ok' and len(o.get('hex', [])) >= 2
        return o.get('dec', '').startswith('ok ')

    def histogram(self, cases, outs):
        h = {}

        def inc(k):
            h[k] = h.get(k, 0) + 1
        for c, o in zip(cases, outs):
            k = c['k']
            inc('kind:' + k)
            r = o.get('r', o.get('dec', ''))
            inc(f'{k}:' + (r.split()[1] if r.startswith('err ') else 'ok'))
            if k in ('msg', 'bndl') and r.startswith('ok '):
                n = (len(r) - 3) // 2
                inc('dgram_len:' + ('<32' if n < 32 else '<128' if n < 128 else '<1024' if n < 1024 else '>=1024'))
                inc(f'dgram_mod4:{n % 4}')
            if k == 'reuse':
                inc('reuse:' + c['method'])
            if k == 'dsend':
                inc('dsend:' + ' '.join(o.get('r', '').split()[:2]))
            if k == 'clump' and r.startswith('ok '):
                inc('clumps:' + str(min(r.count(',') + 1, 5)) + ('+' if r.count(',') >= 4 else ''))
        return h

    def shrink(self, c, fails):
        if c['k'] in ('msg', 'bndl') and len(c['args']) > 2:
            head = c['args'][0]
            rest = common.shrink_list(c['args'][1:], lambda l: fails(dict(c, args=[head] + l)))
            return dict(c, args=[head] + rest)
        if c['k'] in ('bna', 'bnag') and len(c['ops']) > 1:
            return dict(c, ops=common.shrink_list(c['ops'], lambda l: fails(dict(c, ops=l))))
        if c['k'] in ('clump', 'sendc', 'sync') or (c['k'] == 'reuse' and c['method'] != 'msg') and len(c['els']) > 1:
            return dict(c, els=common.shrink_list(c['els'], lambda l: fails(dict(c, els=l))))
        return c


Check.THEOREMS = ['Sc3Verif.C06.' + t for t in (
    'msg_roundtrip', 'nestRun_iff_flat', 'bundle_roundtrip', 'packet_roundtrip', 'packet_order', 'nested_msg_blob',
    'nested_bundle_blob', 'coercions', 'validUtf8_string', 'refused_not_altered', 'float_refused_or_verbatim', 'representable_accepted', 'accepted_parses',
    'aligned4', 'string_blob_layout', 'message_layout', 'big_endian', 'element_size_prefix', 'frame_reads_back',
    'predict_ge_real_msg', 'predict_ge_real_bundle', 'clump_concat', 'clump_within_limit',
    'send_clumped_within_limit', 'sync_within_limit', 'd_recv_within_limit', 'bundle_netaddr_carries_all', 'decoder_total')]
