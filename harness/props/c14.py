"""C14 — Events resolve their keys and play as correctly timed server commands."""
import math
from fractions import Fraction as F

from harness import common

TOL = 1e-9
PITCH = ['freq', 'midinote', 'note', 'degree']
MODS = ['mtranspose', 'gtranspose', 'ctranspose', 'octave', 'root', 'harmonic', 'detune']
CTL_POOL = ['freq', 'amp', 'gate', 'pan', 'out', 'foo', 'bar', 'detune', 'sustain', 'dur', 'legato', 'db']
SCALES = [[0, 2, 4, 5, 7, 9, 11], [0, 2, 3, 5, 7, 8, 10], [0, 2, 4, 7, 9], [0, 1, 2, 3, 4, 5, 6, 7, 8, 9, 10, 11], [0, 3, 5, 6, 7, 10]]


# ---------------- s-expressions for the driver ----------------
def norm_v(v):
    """Arithmetic on values: the result is a Rest iff an operand is a Rest (whichever side)."""
    if isinstance(v, list) and v and v[0] == 'ra':
        a, b = norm_v(v[2]), norm_v(v[3])
        x, y = F(a[1]), F(b[1])
        r = {'add': x + y, 'sub': x - y, 'mul': x * y, 'div': (x / y) if y != 0 else None}[v[1]]
        rest = a[0] in ('r', 'ri') or b[0] in ('r', 'ri')
        return ['r' if rest else 'n', str(r)]
    return v


def norm_seq(s):
    if s[0] == 'finop':
        k = s[3]
        return ['fin'] + [norm_v(['ra', s[1], k, x] if s[2] == 'L' else ['ra', s[1], x, k]) for x in s[4:]]
    return [s[0]] + [x if x == 'seq' else norm_v(x) for x in s[1:]]


def sx_v(v):
    v = norm_v(v)
    if v == 'none':
        return 'none'
    k = v[0]
    if k in ('n', 'ni'):
        return f'(n {v[1]})'
    if k in ('r', 'ri'):
        return f'(r {v[1]})'
    if k == 's':
        return f'(s {v[1]})'
    if k == 'b':
        return f'(b {int(v[1])})'
    if k == 'sc':
        return '(sc ' + ' '.join(map(str, v[1:])) + ')'
    if k == 'sct':
        return '(sct ' + ' '.join(map(str, v[1:])) + ')'
    raise ValueError(v)


def sx_ev(e):
    return '(' + ' '.join(f'({k} {sx_v(v)})' for k, v in e) + ')'


def sx_binds(b):
    out = []
    for k, s in b:
        s = norm_seq(s)
        vals = [x for x in s[1:] if x != 'seq']
        out.append(f'({k} ({s[0]} ' + ' '.join(sx_v(x) for x in vals) + '))')
    return '(' + ' '.join(out) + ')'


def sx_pat(t):
    k = t[0]
    if k == 'bind':
        return f'(bind {sx_binds(t[1])})'
    if k == 'chain':
        return f'(chain {sx_binds(t[1])} {sx_pat(t[2])})'
    if k == 'par':
        return '(par ' + ' '.join(sx_pat(x) for x in t[1:]) + ')'
    if k == 'dur':
        return f'(dur {t[1]} {t[2]} {sx_pat(t[3])})'
    if k == 'delta':
        return f'(delta {t[1]} {sx_pat(t[2])})'
    if k == 'monop':
        return f'(mono {t[1]} {sx_binds(t[2])})'
    if k == 'seq':
        return '(seq ' + ' '.join(sx_pat(x) for x in t[1:]) + ')'
    if k == 'pn':
        return f'(pn {t[1]} {sx_pat(t[2])})'
    raise ValueError(t)


# ---------------- evaluating the driver's symbolic numbers ----------------
def tokenize(s):
    return s.replace('(', ' ( ').replace(')', ' ) ').split()


def parse(tokens, i=0):
    if tokens[i] == '(':
        lst, i = [], i + 1
        while tokens[i] != ')':
            x, i = parse(tokens, i)
            lst.append(x)
        return lst, i + 1
    return tokens[i], i + 1


def ev_sym(x):
    if isinstance(x, str):
        return float(F(x))
    op, args = x[0], [ev_sym(a) for a in x[1:]]
    if op == 'midicps':
        return 440.0 * 2.0 ** ((args[0] - 69.0) / 12.0)
    if op == 'cpsmidi':
        return math.log2(args[0] / 440.0) * 12.0 + 69.0
    if op == 'dbamp':
        return 10.0 ** (args[0] / 20.0)
    if op == 'add':
        return args[0] + args[1]
    if op == 'mul':
        return args[0] * args[1]
    if op == 'div':
        return args[0] / args[1]
    raise ValueError(op)


def parse_model_line(line):
    toks, i = tokenize(line), 0
    items = []
    while i < len(toks):
        x, i = parse(toks, i)
        items.append(x)
    out = [ev_sym(items[0]), items[1]]
    for a in items[2:]:
        if isinstance(a, str) and a.startswith("'"):
            out.append(('s', a[1:]))
        else:
            out.append(('n', ev_sym(a)))
    return out


def close(a, b):
    return abs(a - b) <= TOL * max(1.0, abs(a), abs(b))


def canon_msgs(msgs):
    """Stable sort by time, node ids renamed by first appearance."""
    msgs = sorted(msgs, key=lambda m: round(m[0], 9))
    ids = {}
    out = []
    for m in msgs:
        m = list(m)
        pos = 3 if m[1] == '/s_new' else 2          # position of the node id
        if len(m) > pos and m[pos][0] == 'n':
            nid = m[pos][1]
            ids.setdefault(nid, 1000 + len(ids))
            m[pos] = ('n', float(ids[nid]))
        out.append(m)
    return out


def same_msgs(a, b):
    if len(a) != len(b):
        return False
    # within equal times the order may differ legitimately: compare as sorted groups
    def key(m):
        return (round(m[0], 6), m[1], tuple((x[0], round(x[1], 6) if x[0] == 'n' else x[1]) for x in m[2:]))
    a, b = sorted(a, key=key), sorted(b, key=key)
    for x, y in zip(a, b):
        if x[1] != y[1] or len(x) != len(y) or not close(x[0], y[0]):
            return False
        for p, q in zip(x[2:], y[2:]):
            if p[0] != q[0]:
                return False
            if p[0] == 'n' and not close(p[1], q[1]):
                return False
            if p[0] == 's' and p[1] != q[1]:
                return False
    return True


# ---------------- independent oracle: the documented meaning ----------------
class Raise(Exception):
    pass


def o_val(v):
    """(value, is_rest)"""
    v = norm_v(v)
    if v == 'none':
        return None, False
    k = v[0]
    if k in ('n', 'ni'):
        return F(v[1]), False
    if k in ('r', 'ri'):
        return F(v[1]), True
    if k == 's':
        return v[1], False
    if k == 'b':
        return bool(v[1]), False
    if k == 'sc':
        return ('scale', list(v[1:]), 12), False
    if k == 'sct':
        return ('scale', list(v[2:]), int(v[1])), False
    raise ValueError(v)


def o_num(e, k, dflt):
    if k in e:
        x = e[k]
        if isinstance(x, bool):
            return F(int(x))
        if not isinstance(x, F):
            raise Raise(k)
        return x
    return F(dflt)


def o_scale(e):
    """(degrees, steps per octave of the tuning)"""
    if 'scale' in e:
        x = e['scale']
        if not (isinstance(x, tuple) and x[0] == 'scale'):
            raise Raise('scale')
        return x[1], x[2]
    return SCALES[0], 12


def o_steps_to_midinote(steps, e, spo):
    """A pitch in steps of a tuning with `spo` equal steps per octave: one step is 12/spo semitones;
    gtranspose and root are steps too; octave 5 starts at midinote 60."""
    steps = steps + o_num(e, 'gtranspose', 0) + o_num(e, 'root', 0)
    return steps * F(12, spo) + (o_num(e, 'octave', 5) - 5) * 12 + 60


def o_midinote_from_degree(e):
    sc, spo = o_scale(e)
    d = o_num(e, 'degree', 0) + o_num(e, 'mtranspose', 0)
    key = spo * math.floor(d / len(sc)) + sc[math.trunc(d) % len(sc)]
    return o_steps_to_midinote(F(key), e, spo)


def o_midinote_from_note(e):
    _, spo = o_scale(e)
    return o_steps_to_midinote(o_num(e, 'note', 0), e, spo)


def midicps(m):
    return 440.0 * 2.0 ** ((float(m) - 69.0) / 12.0)


def o_freq(e):
    """freq: explicit > midinote/note (+ctranspose) > degree > default (middle C)."""
    if 'freq' in e:
        return float(o_num(e, 'freq', 0))
    if 'midinote' in e or 'note' in e:
        if 'midinote' in e:
            m = o_num(e, 'midinote', 60)
        else:
            m = o_midinote_from_note(e)
        return midicps(m + o_num(e, 'ctranspose', 0))
    if 'degree' in e:
        return midicps(o_midinote_from_degree(e))
    return midicps(60)


def o_amp(e):
    if 'amp' in e:
        return float(o_num(e, 'amp', 0))
    if 'db' in e:
        return 10.0 ** (float(o_num(e, 'db', 0)) / 20.0)
    if 'velocity' in e:
        return float(o_num(e, 'velocity', 0)) / 127.0
    return 0.1


def o_delta(e):
    if 'delta' in e:
        x = e['delta']
        return x if isinstance(x, F) else None
    return o_num(e, 'dur', 1) * o_num(e, 'stretch', 1)


def o_sustain(e):
    if 'sustain' in e:
        return o_num(e, 'sustain', 0)
    return o_num(e, 'dur', 1) * o_num(e, 'legato', F(4, 5)) * o_num(e, 'stretch', 1)


ACTIONS = {'addToHead': 0, 'addToTail': 1, 'addBefore': 2, 'addAfter': 3, 'addReplace': 4,
           'h': 0, 't': 1, 'b': 2, 'a': 3, 'r': 4}     # numbers of the server command reference


def o_note(e, rests, t, lat, defs):
    """Expected commands of one played note event: (s_new tuple, gate-off time or None)."""
    freq = o_freq(e) * float(o_num(e, 'harmonic', 1)) + float(o_num(e, 'detune', 0))
    inst = e.get('instrument', 'default')
    if not isinstance(inst, str):
        raise Raise('instrument')
    desc = next((d for d in defs if d['name'] == inst), None)
    params = []
    if desc is None:
        has_gate = e['has_gate'] if isinstance(e.get('has_gate'), bool) else True
        params = [('s', 'freq'), ('n', freq), ('s', 'amp'), ('n', o_amp(e)),
                  ('s', 'pan'), ('n', float(o_num(e, 'pan', 0))), ('s', 'out'), ('n', float(o_num(e, 'out', 0)))]
    else:
        has_gate = 'gate' in desc['controls']
        for c in desc['controls']:
            if c == 'gate' and has_gate and not desc.get('keep_gate'):
                continue
            if c == 'freq':
                params += [('s', c), ('n', freq)]
            elif c in e:
                x = e[c]
                if isinstance(x, bool):
                    params += [('s', c), ('n', float(x))]
                elif isinstance(x, F):
                    params += [('s', c), ('n', float(x))]
                elif isinstance(x, str):
                    params += [('s', c), ('s', x)]
                else:
                    raise Raise(c)
    act = e.get('add_action', 'addToHead')
    if isinstance(act, str):
        if act not in ACTIONS:
            raise Raise('add_action')
        act = ACTIONS[act]
    group = o_num(e, 'group', 1)
    if 'send_gate' in e:
        sg = e['send_gate']
        send_gate = bool(sg) if not isinstance(sg, tuple) else bool(sg[1])
    else:
        send_gate = has_gate
    on = (float(t + lat), inst, float(act), float(group), params)
    off = float(t + lat + o_sustain(e)) if send_gate else None
    return on, off


def o_events_bind(b, base):
    b = [[k, norm_seq(s)] for k, s in b]
    n = None
    for k, s in b:
        vals = [x for x in s[1:] if x != 'seq']
        if s[0] == 'fin':
            n = len(vals) if n is None else min(n, len(vals))
        elif not vals:
            n = 0
    out = []
    if n is None:
        raise Raise('endless pattern')
    for i in range(n):
        e, rests = dict(base[0]), set(base[1])
        for k, s in b:
            vals = [x for x in s[1:] if x != 'seq']
            v, is_rest = o_val(vals[i % len(vals)])
            e[k] = v
            rests.discard(k)
            if is_rest:
                rests.add(k)
        out.append((e, rests))
    return out


_mono_key = [0]


def has_mono(t):
    return t[0] == 'monop' or any(has_mono(x) for x in t[1:] if isinstance(x, list) and x and isinstance(x[0], str)
                                  and x[0] in ('bind', 'par', 'dur', 'delta', 'chain', 'monop', 'seq', 'pn'))


def chain_over_mono(t):
    """Pchain(Pbind, Pmono) somewhere in the term (own oracle rule; the model does not cover it)."""
    if not isinstance(t, list) or not t or not isinstance(t[0], str):
        return False
    if t[0] == 'chain' and has_mono(t[2]):
        return True
    return t[0] in ('par', 'seq', 'pn', 'delta', 'dur') and any(chain_over_mono(x) for x in t[1:])


def monos_of(t):
    if not isinstance(t, list) or not t or not isinstance(t[0], str):
        return []
    if t[0] == 'monop':
        return [t]
    if t[0] in ('par', 'seq', 'pn', 'delta', 'dur', 'chain'):
        return [m for x in t[1:] for m in monos_of(x)]
    return []


def o_timeline(t, base):
    """Documented meaning of an event pattern: list of (start, event, rests[, mark]) + total length.
    mark = ('on' | 'set' | 'off', key, instrument) for the elements of a Pmono: its synth starts with its
    first event and is released when the Pmono itself ends (start + sum of its deltas)."""
    k = t[0]
    if k == 'monop':
        evs = o_events_bind(t[2], base)
        _mono_key[0] += 1
        key = _mono_key[0]
        tl, now = [], F(0)
        for i, (e, rests) in enumerate(evs):
            if rests:
                raise Raise('rests in Pmono: outside the oracle')
            d = o_delta(e)
            if d is None:
                raise Raise('delta')
            tl.append((now, e, rests, ('on' if i == 0 else 'set', key, t[1])))
            now += d
        if evs:
            tl.append((now, {}, set(), ('off', key, t[1])))
        return tl, now
    if k == 'seq':
        tl, now = [], F(0)
        for child in t[1:]:
            c, ct = o_timeline(child, base)
            tl += [(x[0] + now,) + tuple(x[1:]) for x in c]
            now += ct
        return tl, now
    if k == 'pn':
        tl, now = [], F(0)
        for _ in range(int(t[1])):
            c, ct = o_timeline(t[2], base)
            tl += [(x[0] + now,) + tuple(x[1:]) for x in c]
            now += ct
        return tl, now
    if k in ('chain', 'dur') and has_mono(t):
        raise Raise('Pmono under Pchain / Pdur: outside the oracle')
    if k == 'bind':
        evs = o_events_bind(t[1], base)
        tl, now = [], F(0)
        for e, rests in evs:
            d = o_delta(e)
            if d is None:
                raise Raise('delta')
            tl.append((now, e, rests))
            now += d
        return tl, now
    if k == 'chain':
        t = [t[0], [[kk, norm_seq(sq)] for kk, sq in t[1]], t[2]]
        inner, total = o_timeline(t[2], base)
        n = None
        for kk, s in t[1]:
            vals = [x for x in s[1:] if x != 'seq']
            if s[0] == 'fin':
                n = len(vals) if n is None else min(n, len(vals))
        if n is not None and n < len(inner):
            raise Raise('chain shorter than source: outside the oracle')
        out = []
        for i, (st, e, rests) in enumerate(inner):
            e2, r2 = dict(e), set(rests)
            for kk, s in t[1]:
                vals = [x for x in s[1:] if x != 'seq']
                v, is_rest = o_val(vals[i % len(vals)])
                e2[kk] = v
                r2.discard(kk)
                if is_rest:
                    r2.add(kk)
            out.append((st, e2, r2))
        # deltas of the chained events may differ from the source's: outside the oracle
        for (st, e, _), (st2, e2, _) in zip(inner, out):
            if o_delta(e) != o_delta(e2):
                raise Raise('chain changes timing: outside the oracle')
        return out, total
    if k == 'par':
        # each child keeps its own timeline; all start together; ends with the last child
        tl, total = [], F(0)
        for child in t[1:]:
            c, ct = o_timeline(child, base)
            tl += c
            total = max(total, ct)
        tl.sort(key=lambda x: x[0])
        return tl, total
    if k == 'dur':
        d, tol = F(t[1]), F(t[2])
        inner, total = o_timeline(t[3], base)

        def ru(x):
            return x if tol == 0 else math.ceil(x / tol) * tol
        # the stream's first element is always passed on (clipped); afterwards an event is reached
        # only if the time elapsed before it is still below d
        first_is_note = bool(inner) and inner[0][0] == 0
        out = []
        for i, item in enumerate(inner):
            if ru(item[0]) >= d and not (i == 0 and first_is_note):
                break
            out.append(item)
        cut = any(ru(x[0]) >= d for x in inner[1:]) or ru(total) >= d
        return out, (d if cut else total)
    if k == 'delta':
        sh = F(t[1])
        inner, total = o_timeline(t[2], base)
        if sh > 0:
            return [(x[0] + sh,) + tuple(x[1:]) for x in inner], total + sh
        return inner, total
    raise ValueError(t)


def oracle_mono(case):
    """Pmono by its documented meaning: ONE synth for the whole pattern (articulate = false) — started
    by the first event, updated by the later ones, released at the end; with articulate = true the synth
    is kept only while an event's sustain reaches the next event. Returns (commands, end time)."""
    lat, defs, prog = F(case['lat']), case['defs'], case['prog']
    t0, (_, inst, artic, b) = F(prog[1]), prog[2]
    rows = o_events_bind(b, ({}, set()))
    msgs, t = [], t0
    ids = iter(range(1000, 100000))
    held = None                      # (id, names, has_gate)

    def start(e):
        e = dict(e, instrument=inst)
        on, off = o_note(e, set(), t, lat, defs)
        desc = next((d for d in defs if d['name'] == inst), None)
        has_gate = ('gate' in desc['controls']) if desc else (e['has_gate'] if isinstance(e.get('has_gate'), bool) else True)
        return e, on, off, has_gate

    def set_args(e, names):
        out = []
        freq = o_freq(e) * float(o_num(e, 'harmonic', 1)) + float(o_num(e, 'detune', 0))
        for nm in names:
            if nm == 'freq':
                out += [('s', nm), ('n', freq)]
            elif nm in e:
                x = e[nm]
                if isinstance(x, bool) or isinstance(x, F):
                    out += [('s', nm), ('n', float(x))]
                elif isinstance(x, str):
                    out += [('s', nm), ('s', x)]
                else:
                    raise Raise(nm)
            elif nm == 'amp':
                out += [('s', nm), ('n', o_amp(e))]
            elif nm in ('pan', 'out'):
                out += [('s', nm), ('n', 0.0)]
            else:
                raise Raise(nm)
        return out

    def release(when, h):
        if h[2]:
            msgs.append([float(when + lat), '/n_set', ('n', float(h[0])), ('s', 'gate'), ('n', 0.0)])
        else:
            msgs.append([float(when + lat), '/n_free', ('n', float(h[0]))])

    for e, rests in rows:
        if rests:
            raise Raise('rests in Pmono: outside the oracle')
        d = o_delta(e)
        if d is None:
            raise Raise('delta')
        if held is None:
            e1, on, off, has_gate = start(e)
            names = [p[1] for p in on[4][::2]]
            if not artic or o_sustain(e1) >= d:
                nid = next(ids)
                msgs.append([on[0], '/s_new', ('s', on[1]), ('n', float(nid)), ('n', on[2]), ('n', on[3])] + on[4])
                held = (nid, names, has_gate)
            else:                                   # an ordinary note of its own
                nid = next(ids)
                msgs.append([on[0], '/s_new', ('s', on[1]), ('n', float(nid)), ('n', on[2]), ('n', on[3])] + on[4])
                if off is not None:
                    msgs.append([off, '/n_set', ('n', float(nid)), ('s', 'gate'), ('n', 0.0)])
        else:
            if artic and o_sustain(e) < d:
                release(t + o_sustain(e), held)
                msgs.append([float(t + lat), '/n_set', ('n', float(held[0]))] + set_args(e, held[1]))
                held = None
            else:
                msgs.append([float(t + lat), '/n_set', ('n', float(held[0]))] + set_args(e, held[1]))
        t += d
    if held is not None:
        release(t, held)
    return msgs, t


def histories(msgs):
    """Commands grouped by the node they address: {node id: [(time, cmd, args without the id)]}."""
    h = {}
    for m in msgs:
        pos = 3 if m[1] == '/s_new' else 2
        nid = m[pos][1]
        h.setdefault(nid, []).append((m[0], m[1], tuple(m[2:pos]) + tuple(m[pos + 1:])))
    return [sorted(v, key=lambda x: (round(x[0], 6), x[1] != '/s_new')) for v in h.values()]


def same_histories(a, b):
    def key(h):
        return tuple((round(x[0], 6), x[1], tuple((p[0], round(p[1], 6) if p[0] == 'n' else p[1]) for p in x[2])) for x in h)
    a, b = sorted(a, key=key), sorted(b, key=key)
    if len(a) != len(b):
        return False
    for ha, hb in zip(a, b):
        if len(ha) != len(hb):
            return False
        for x, y in zip(ha, hb):
            if x[1] != y[1] or len(x[2]) != len(y[2]) or not close(x[0], y[0]):
                return False
            for p, q in zip(x[2], y[2]):
                if p[0] != q[0] or (p[0] == 'n' and not close(p[1], q[1])) or (p[0] == 's' and p[1] != q[1]):
                    return False
    return True


def oracle_pattern_msgs(case):
    """Expected commands of a composition that contains Pmonos, with symbolic node ids."""
    lat, defs, prog = F(case['lat']), case['defs'], case['prog']
    t0 = F(prog[1])
    tl, total = o_timeline(prog[2], ({}, set()))
    tl = sorted(tl, key=lambda x: x[0])
    msgs, nid, held = [], [0], {}

    def fresh():
        nid[0] += 1
        return float(nid[0])
    for item in tl:
        st, e, rests = item[0], item[1], item[2]
        mark = item[3] if len(item) > 3 else None
        t = t0 + st
        if mark is None:
            if rests or e.get('type') == 'rest':
                continue
            on, off = o_note(e, rests, t, lat, defs)
            i = fresh()
            msgs.append([on[0], '/s_new', ('s', on[1]), ('n', i), ('n', on[2]), ('n', on[3])] + on[4])
            if off is not None:
                msgs.append([off, '/n_set', ('n', i), ('s', 'gate'), ('n', 0.0)])
        elif mark[0] == 'on':
            e1 = dict(e, instrument=mark[2])
            on, _ = o_note(e1, set(), t, lat, defs)
            desc = next((d for d in defs if d['name'] == mark[2]), None)
            has_gate = ('gate' in desc['controls']) if desc else (e1['has_gate'] if isinstance(e1.get('has_gate'), bool) else True)
            i = fresh()
            msgs.append([on[0], '/s_new', ('s', on[1]), ('n', i), ('n', on[2]), ('n', on[3])] + on[4])
            held[mark[1]] = (i, [p[1] for p in on[4][::2]], has_gate)
        elif mark[0] == 'set':
            h = held[mark[1]]
            args, freq = [], o_freq(e) * float(o_num(e, 'harmonic', 1)) + float(o_num(e, 'detune', 0))
            for nm in h[1]:
                if nm == 'freq':
                    args += [('s', nm), ('n', freq)]
                elif nm in e:
                    x = e[nm]
                    if isinstance(x, (bool, F)):
                        args += [('s', nm), ('n', float(x))]
                    elif isinstance(x, str):
                        args += [('s', nm), ('s', x)]
                    else:
                        raise Raise(nm)
                elif nm == 'amp':
                    args += [('s', nm), ('n', o_amp(e))]
                elif nm in ('pan', 'out'):
                    args += [('s', nm), ('n', 0.0)]
                else:
                    raise Raise(nm)
            msgs.append([float(t + lat), '/n_set', ('n', h[0])] + args)
        else:                                           # the Pmono ends here: its synth is released now
            h = held.pop(mark[1])
            if h[2]:
                msgs.append([float(t + lat), '/n_set', ('n', h[0]), ('s', 'gate'), ('n', 0.0)])
            else:
                msgs.append([float(t + lat), '/n_free', ('n', h[0])])
    return msgs, t0 + total


def oracle_notes(case):
    lat, defs, prog = F(case['lat']), case['defs'], case['prog']
    t0 = F(prog[1])
    notes = []
    if prog[0] == 'event':
        e, rests = {}, set()
        for k, v in prog[2]:
            x, r = o_val(v)
            e[k] = x
            if r:
                rests.add(k)
        notes.append(o_note(e, rests, t0, lat, defs))
        return notes, t0
    if prog[0] == 'redef':
        # the instrument is defined again (same name, other controls) between two plays: the
        # parameters of each /s_new are the controls of the description current at ITS play
        e, rests = {}, set()
        for k, v in prog[2]:
            x, r = o_val(v)
            e[k] = x
            if r:
                rests.add(k)
        notes.append(o_note(e, rests, t0, lat, defs))
        defs2 = [prog[4] if d['name'] == prog[4]['name'] else d for d in defs]
        notes.append(o_note(e, rests, t0 + F(prog[3]), lat, defs2))
        return notes, t0 + F(prog[3])
    if prog[0] == 'replay':
        # every play of the object (or of a copy) is a note of its own, at its own time
        e, rests = {}, set()
        for k, v in prog[2]:
            x, r = o_val(v)
            e[k] = x
            if r:
                rests.add(k)
        t = t0
        notes.append(o_note(e, rests, t, lat, defs))
        for pl in prog[3]:
            t += F(pl[0])
            if len(pl) > 2:                       # a key changed between the plays: the next play sends the new value
                x, r = o_val(pl[2][1])
                e[pl[2][0]] = x
                rests.discard(pl[2][0])
                if r:
                    rests.add(pl[2][0])
            notes.append(o_note(e, rests, t, lat, defs))
        return notes, t
    if prog[0] == 'restart':
        # first pass: what starts before the stop; second pass: everything again from the beginning
        tl, total = o_timeline(prog[2], ({}, set()))
        a, b = F(prog[3]), F(prog[4])
        for st, e, rests in [x[:3] for x in tl]:
            if rests or e.get('type') == 'rest':
                continue
            if st == a:
                raise Raise('an event exactly at the stop time: order of wake-ups, outside the oracle')
            if st < a:
                notes.append(o_note(e, rests, t0 + st, lat, defs))
        for st, e, rests in [x[:3] for x in tl]:
            if rests or e.get('type') == 'rest':
                continue
            notes.append(o_note(e, rests, t0 + a + b + st, lat, defs))
        return notes, t0 + a + b + total
    tl, total = o_timeline(prog[2], ({}, set()))
    for st, e, rests in [x[:3] for x in tl]:
        if rests or e.get('type') == 'rest':
            continue
        notes.append(o_note(e, rests, t0 + st, lat, defs))
    return notes, t0 + total


def notes_of_msgs(msgs):
    """Pair /s_new with its gate-off: (on tuple, off time)."""
    on, off = {}, {}
    other = []
    for m in msgs:
        if m[1] == '/s_new':
            on[m[3][1]] = (m[0], m[2][1], m[4][1], m[5][1], list(m[6:]))
        elif m[1] == '/n_set' and len(m) == 5 and m[3] == ('s', 'gate') and m[4][0] == 'n' and m[4][1] == 0.0:
            off.setdefault(m[2][1], []).append(m[0])
        else:
            other.append(m)
    return on, off, other


class Gen:
    def __init__(self, rng):
        self.r = rng

    def dy(self, lo, hi, den=(1, 2, 4, 8)):
        d = self.r.choice(den)
        return f'{self.r.randint(lo * d, hi * d)}/{d}'

    def numv(self, q, allow_int=True):
        fr = F(q)
        if allow_int and fr.denominator == 1 and self.r.random() < 0.6:
            return ['ni', str(fr.numerator)]
        return ['n', q]

    def key_val(self, k):
        r = self.r
        if k == 'freq':
            return self.numv(self.dy(100, 900, (1, 2)))
        if k == 'midinote':
            return self.numv(self.dy(36, 96, (1, 2, 4)))
        if k == 'note':
            return self.numv(self.dy(-12, 24, (1, 2)))
        if k == 'degree':
            return self.numv(self.dy(-9, 16, (1, 1, 1, 2)))
        if k in ('mtranspose',):
            return self.numv(str(r.randint(-4, 4)))
        if k in ('gtranspose', 'ctranspose', 'root'):
            return self.numv(self.dy(-3, 3, (1, 2, 4)))
        if k == 'octave':
            return self.numv(self.dy(2, 7, (1, 1, 2)))
        if k == 'harmonic':
            return self.numv(self.dy(1, 4, (1, 2)))
        if k == 'detune':
            return self.numv(self.dy(-8, 8, (1, 4)))
        if k == 'amp':
            return self.numv(self.dy(0, 1, (4, 8, 16)))
        if k == 'db':
            return self.numv(self.dy(-40, 0, (1, 2)))
        if k == 'velocity':
            return self.numv(str(r.randint(0, 127)))
        if k in ('dur', 'delta'):
            return self.numv(self.dy(0, 2, (2, 4, 8)) if r.random() < 0.9 else '0')
        if k == 'stretch':
            return self.numv(r.choice(['1/2', '1', '2', '3/2']))
        if k == 'legato':
            return self.numv(r.choice(['1/2', '1', '3/4', '5/4', '1/8']))
        if k == 'sustain':
            return self.numv(self.dy(0, 3, (2, 4)))
        if k == 'node_id':
            return self.numv(str(r.choice([1000, 1001, 1234, 7])))
        if k == 'group':
            return self.numv(str(r.choice([0, 1, 2, 1001])))
        if k == 'add_action':
            return ['s', r.choice(['addToHead', 'addToTail', 'addBefore', 'addAfter', 'addReplace', 'h', 't', 'b', 'a', 'r', 'b', 'a'])] if r.random() < 0.8 \
                else self.numv(str(r.randint(0, 4)))
        if k in ('out', 'pan', 'foo', 'bar', 'gate'):
            return self.numv(self.dy(-1, 4, (1, 2, 4)))
        if k == 'scale':
            if r.random() < 0.5:
                return ['sc'] + r.choice(SCALES)
            spo = r.choice([5, 7, 19, 24, 31, 12])
            n = r.randint(1, min(spo, 8))
            return ['sct', spo] + sorted(r.sample(range(spo), n))
        if k == 'send_gate':
            return r.choice([['b', 1], ['b', 0], 'none'])
        if k == 'has_gate':
            return ['b', r.randint(0, 1)]
        raise ValueError(k)

    def arith(self, k, v):
        """Sometimes the value is the result of arithmetic with a Rest on either side (or both)."""
        r = self.r
        if k not in ('dur', 'degree', 'midinote', 'freq') or v[0] not in ('n', 'ni', 'r', 'ri') or r.random() > 0.12:
            return v
        if k == 'dur':
            op, other = r.choice([('mul', '1/2'), ('mul', '2'), ('add', '1/4'), ('div', '2')])
        elif k == 'freq':
            op, other = r.choice([('mul', '2'), ('div', '2'), ('add', '55')])
        else:
            op, other = r.choice([('add', '12'), ('sub', '7'), ('add', '-5')])
        a = [r.choice(['r', 'n', 'r']), v[1]]
        b = [r.choice(['n', 'n', 'r']), other]
        if op == 'div' or r.random() < 0.5:
            return ['ra', op, a, b]            # value (op) number
        return ['ra', op, b, a]                # number (op) value: the reflected operator

    def keys(self):
        r = self.r
        ks = []
        x = r.random()
        if x < 0.85:
            ks += r.sample(PITCH, r.choice([1, 1, 1, 2, 2, 3]))
        ks += [k for k in MODS if r.random() < 0.3]
        ks += r.sample(['amp', 'db', 'velocity'], r.choice([0, 1, 1, 2]))
        ks += [k for k in ('dur', 'stretch', 'legato', 'sustain', 'delta') if r.random() < 0.35]
        ks += [k for k in ('group', 'add_action', 'out', 'pan', 'foo', 'bar', 'gate', 'send_gate', 'has_gate')
               if r.random() < 0.2]
        if r.random() < 0.3:
            ks.append('scale')
        if r.random() < 0.06:
            ks.append('node_id')          # an explicit node_id is not honoured: play always takes a fresh one
        if 'scale' in ks and r.random() < 0.6:
            ks += [k for k in ('root', 'gtranspose') if k not in ks]
            if not any(k in ks for k in ('freq', 'midinote')) and 'degree' not in ks and 'note' not in ks:
                ks.append(r.choice(['degree', 'note']))
        r.shuffle(ks)
        return ks

    def defs(self, idx):
        r = self.r
        out = []
        for j in range(r.choice([1, 1, 2])):
            ctl = r.sample(CTL_POOL, r.randint(0, 7))
            if r.random() < 0.6 and 'gate' not in ctl:
                ctl.insert(r.randrange(len(ctl) + 1), 'gate')
            d = {'name': f'c{idx}i{j}', 'controls': ctl}
            if 'gate' in ctl and r.random() < 0.15:
                d['keep_gate'] = True
            out.append(d)
        return out

    def instrument(self, defs):
        r = self.r
        x = r.random()
        if x < 0.7 and defs:
            return ['s', r.choice(defs)['name']]
        if x < 0.85:
            return ['s', 'nodesc']
        return None

    def event(self, defs):
        e = [[k, self.key_val(k)] for k in dict.fromkeys(self.keys())]
        inst = self.instrument(defs)
        if inst:
            e.append(['instrument', inst])
        if self.r.random() < 0.04:      # malformed: a string where a number is needed
            k = self.r.choice(['octave', 'legato', 'detune'])
            e = [kv for kv in e if kv[0] != k] + [[k, ['s', 'x']]]
        return e

    def seq(self, k, n, rest_ok=True):
        r = self.r
        vals = []
        for _ in range(n):
            v = self.key_val(k)
            if rest_ok and k != 'delta' and v[0] in ('n', 'ni') and r.random() < 0.12:
                v = ['r' if v[0] == 'n' else 'ri', v[1]]
            if rest_ok:
                v = self.arith(k, v)
            vals.append(v)
        return vals

    def bind(self, defs, timing=True):
        r = self.r
        n = r.randint(1, 6)
        b = []
        ks = self.keys()
        if timing and 'dur' not in ks and r.random() < 0.7:
            ks.append('dur')
        ks = [k for k in ks if k != 'delta' or r.random() < 0.3]
        ks = list(dict.fromkeys(ks))
        have_fin = False
        for k in ks:
            x = r.random()
            if k in ('scale', 'send_gate', 'has_gate', 'add_action', 'group') or x < 0.35:
                b.append([k, ['cyc', self.key_val(k)]])
            elif x < 0.8:
                sq = self.seq(k, n + r.choice([0, 0, 1, 2]))
                if k in ('dur', 'degree', 'midinote', 'freq') and r.random() < 0.15 and all(v[0] != 'ra' for v in sq):
                    # k (op) Pseq / Pseq (op) k, element-wise through the operator pattern
                    op, other = {'dur': ('mul', ['n', '1/2']), 'freq': ('mul', ['ni', '2'])}.get(k, ('add', ['ni', '12']))
                    b.append([k, ['finop', op, r.choice(['L', 'R']), other] + sq])
                else:
                    b.append([k, ['fin'] + sq])
                have_fin = True
            else:
                b.append([k, ['cyc'] + self.seq(k, r.randint(2, 3)) + ['seq']])
        if not have_fin:
            b = [kv for kv in b if kv[0] != 'pan']
            b.append(['pan', ['fin'] + self.seq('pan', n, False)])
        inst = self.instrument(defs)
        if inst:
            b.append(['instrument', ['cyc', inst]])
        r.shuffle(b)
        if r.random() < 0.25:
            # two adjacent keys given as one tuple key with two-item value lists
            ok = [i for i in range(len(b) - 1)
                  if b[i][1][0] == b[i + 1][1][0] and b[i][1][0] in ('fin', 'cyc')
                  and len(b[i][1]) > 1 and len(b[i + 1][1]) > 1]
            if ok:
                return ['bind', b, {'tuple': r.choice(ok)}]
        return ['bind', b]

    def mono(self, defs):
        """Pmono(instrument, pairs, articulate): no rests, no harmonic / detune (play() folds them into the
        stored freq), legato / sustain around the slur boundary sustain == delta."""
        r = self.r
        n = r.randint(1, 6)
        ks = [k for k in dict.fromkeys(self.keys()) if k not in ('harmonic', 'detune', 'delta', 'sustain', 'legato',
                                                                'stretch', 'dur', 'send_gate', 'node_id')]
        b = []
        for k in ks:
            if k in ('scale', 'has_gate', 'add_action', 'group') or r.random() < 0.4:
                b.append([k, ['cyc', self.key_val(k)]])
            else:
                b.append([k, ['fin'] + self.seq(k, n + r.choice([0, 1, 2]), False)])
        durs = [r.choice(['1/2', '1', '1/4', '3/2']) for _ in range(n)]
        b.append(['dur', ['fin'] + [['n', x] for x in durs]])
        x = r.random()
        if x < 0.45:
            b.append(['legato', ['fin'] + [['n', r.choice(['1', '1', '1/2', '5/4', '3/4'])] for _ in range(n)]])
        elif x < 0.75:
            b.append(['sustain', ['fin'] + [['n', d if r.random() < 0.5 else r.choice(['1/4', '1', '2'])] for d in durs]])
        if r.random() < 0.2:
            b.append(['stretch', ['cyc', ['n', r.choice(['1/2', '2'])]]])
        r.shuffle(b)
        inst = r.choice(defs)['name'] if defs and r.random() < 0.8 else 'nodesc'
        return ['mono', inst, r.random() < 0.6, b]

    def pat(self, defs, d=2, mono_ok=True):
        r = self.r
        x = r.random()
        if mono_ok and r.random() < 0.22:
            m = self.mono(defs)
            return ['monop', m[1], m[3]]
        if d == 0 or x < 0.3:
            return self.bind(defs)
        if mono_ok and x < 0.42:
            return ['seq'] + [self.pat(defs, d - 1) for _ in range(r.randint(2, 3))]
        if mono_ok and x < 0.5:
            return ['pn', r.randint(1, 3), self.pat(defs, d - 1)]
        if x < 0.65:
            return ['par'] + [self.pat(defs, d - 1, mono_ok) for _ in range(r.randint(1, 3))]
        if x < 0.8:
            return ['dur', self.dy(0, 4, (1, 2, 4, 8)), r.choice(['1/1000', '1/1000', '0', '1/8', '1/1024']), self.pat(defs, d - 1, False)]
        if x < 0.9:
            return ['delta', self.dy(0, 2, (1, 2, 4)), self.pat(defs, d - 1, mono_ok)]
        # Pbind(pitch/amp keys) <> p : no timing keys, as long as the source
        inner = self.pat(defs, d - 1, False)
        b = [[k, ['cyc', self.key_val(k)]] for k in self.r.sample(['amp', 'pan', 'foo', 'detune', 'ctranspose'], 2)]
        if r.random() < 0.5:
            # Pchain(a).chain(b); the left side repeats value keys of the right side (the left one wins)
            if inner[0] == 'bind':
                both = [kv[0] for kv in inner[1] if kv[0] in ('amp', 'pan', 'foo', 'detune', 'ctranspose', 'legato', 'db', 'octave', 'mtranspose')]
                for k in both[:2]:
                    if k not in [x[0] for x in b]:
                        b.append([k, ['cyc', self.key_val(k)]])
            return ['chain', b, inner, 'method']
        return ['chain', b, inner]


class Check(common.Check):
    PROP = 'C14'
    LEAN_TARGETS = ['Sc3Verif.C14.Props']
    LEAN_DIRS = ['Sc3Verif/C14']
    THEOREMS = ['Sc3Verif.C14.' + t for t in (
        'note_play_bundles', 'note_play_raises_sends_nothing', 'msg_params_names', 'rest_sends_nothing',
        'explicit_freq_wins', 'explicit_midinote_wins', 'explicit_amp_wins', 'explicit_delta_wins',
        'explicit_sustain_wins', 'amp_db_over_velocity', 'amp_from_velocity', 'midinote_note_over_degree',
        'midinote_degree_over_freq', 'freq_from_degree', 'freq_default', 'chain_degree_to_midinote',
        'chain_degree_to_freq', 'chain_degree_to_midinote_steps', 'chain_note_to_midinote_steps',
        'player_plays_timetable', 'player_time_prefix_sums',
        'ppar_preserves_child_timelines', 'pdur_total', 'pdur_passes_prefix', 'player_ids_fresh',
        'replay_ids_fresh', 'restart_replays_from_start', 'mono_held_single_node', 'mono_one_synth', 'playAllM_plain', 'seq_timetable')]
    N_QUICK = 2000
    N_THOROUGH = 40000
    ASSUMPTIONS = [
        'NRT mode, tempo 1, one player per case; logical time and bundle stamping (time + latency) are '
        'taken from the score main.process() renders (C05/C07 cover them)',
        'numbers are exact rationals in the model; real floats are compared with relative tolerance 1e-9 '
        '(legato 0.8 and the transcendental leaves midicps / cpsmidi / dbamp are not exact in binary64)',
        'scales over equal tunings Tuning.et(n) (octave ratio 2) only; other ratios need log2 of the ratio',
        'Pmono only at top level, without rests and without harmonic / detune keys',
        'event values: numbers, Rest(number), strings, Scale, bool, None; tuple-valued (arrayed) keys, '
        'function-valued keys, MIDI events, variants, strum/lag/timing_offset are not modelled',
        'Pbind value streams are finite lists or cycles (C13 covers the value patterns themselves); every '
        'Pbind has at least one finite key; Pchain only with a Pbind of constants on the left',
        'a Rest is never given for the key delta itself (Ppar / Pdur overwrite delta with a number)',
        'node ids are compared up to renaming by first appearance; commands with equal times as a multiset',
    ]

    def rule(self):
        return ('1-2 SynthDefs with 0-8 generated controls (names from the event key space: freq amp gate pan '
                'out foo bar detune sustain dur legato db; gate present in 60 %, keep_gate 15 %) added to '
                'SynthDescLib; latency in {0, 1/8, 1/4, 1/2}; start time dyadic. 50 % single events with a '
                'random subset of 30 keys (pitch chain freq/midinote/note/degree + 7 modifiers + scale, '
                'amp/db/velocity, dur/stretch/legato/sustain/delta, group/add_action/out/pan/gate/send_gate/'
                'has_gate, custom controls; instrument = a generated def, an unknown name or the default), 4 % '
                'with a string where a number is needed, 6 % with an explicit node_id; 45 % patterns: Pbind (1-6 events, keys as finite '
                'lists / cycles / constants, 12 % Rest values), Ppar (1-3 children, nested), Pdur (dyadic '
                'duration, tolerance default/0/dyadic), Pdelta, Pbind<>p, depth <= 3; 13 % top-level Pmono '
                '(60 % articulate, legato / sustain around sustain == delta); half of the scales over '
                'Tuning.et(n), n in {5,7,19,24,31}, with root / gtranspose. Played from a routine in '
                'NRT; the /s_new, /n_set, /n_free entries of the score and the time of the last wake-up are '
                'compared with the Lean driver and with an independent oracle (each child keeps its own '
                'timeline; notes = union of timelines; Pdur cuts the timeline). Non-trivial: >= 2 commands')

    def gen_case(self, rng, idx):
        g = Gen(rng)
        defs = g.defs(idx)
        lat = rng.choice(['0', '1/8', '1/4', '1/2'])
        t0 = g.dy(0, 3, (1, 2, 4))
        x = rng.random()
        if x < 0.4:
            prog = ['event', t0, g.event(defs)]
            if rng.random() < 0.3:
                # play(dict, **kw): some keys are given both in the dict (a decoy value) and as keywords
                ks = [kv[0] for kv in prog[2]]
                prog.append(rng.sample(ks, min(len(ks), rng.randint(1, 3))))
        elif x < 0.55:
            # one event object played 2-4 times (itself / a copy of the played object); without
            # harmonic / detune, which play() folds into the stored freq
            ev = [kv for kv in g.event(defs) if kv[0] not in ('harmonic', 'detune') and kv[1][0] != 's' or kv[0] in ('instrument', 'add_action')]
            plays = [[g.dy(0, 2, (1, 2, 4)), rng.choice(['same', 'same', 'copy'])] for _ in range(rng.randint(1, 3))]
            if rng.random() < 0.5:
                # a plain control value of the object is changed between two plays
                for pl in plays:
                    if rng.random() < 0.6:
                        k = rng.choice(['pan', 'foo', 'bar', 'amp'])
                        pl.append([k, g.key_val(k)])
            prog = ['replay', t0, ev, plays]
        elif x < 0.64:
            # a composite pattern stopped mid-way and played again with reset=True (no Pmono; the stop time
            # is off the grid of event times)
            p = g.pat(defs, 2, False)
            while p[0] == 'bind' and rng.random() < 0.7:
                p = g.pat(defs, 2, False)
            prog = ['restart', t0, p, f'{rng.randint(0, 96) * 2 + 1}/64', g.dy(0, 2, (1, 2, 4))]
        elif x < 0.68:
            # the instrument is re-defined (same name, other controls) between two plays of equal events
            d0 = rng.choice(defs)
            ev = [kv for kv in g.event(defs) if kv[0] != 'instrument'] + [['instrument', ['s', d0['name']]]]
            ctl = rng.sample(CTL_POOL, rng.randint(0, 7))
            if rng.random() < 0.6 and 'gate' not in ctl:
                ctl.insert(rng.randrange(len(ctl) + 1), 'gate')
            d1 = {'name': d0['name'], 'controls': ctl}
            prog = ['redef', t0, ev, g.dy(0, 2, (1, 2, 4)), d1]
        elif x < 0.72:
            # Pchain(Pbind(constants), Pmono), alone or as Ppar voices: still one synth per Pmono
            def cm():
                m = g.mono(defs)
                b = [[k, ['cyc', g.key_val(k)]] for k in rng.sample(['amp', 'pan', 'foo', 'ctranspose'], 2)]
                return ['chain', b, ['monop', m[1], m[3]]]
            prog = ['pat', t0, cm() if rng.random() < 0.6 else ['par', cm(), cm()]]
        elif x < 0.76:
            prog = ['pat', t0, g.mono(defs)]
        elif x < 0.82:
            # Pseq([Pdur(d, p, tol, quant=q), next]): a source that ends before d is padded with silence up to
            # the next multiple of q (written here as the Pdelta in front of what follows)
            p, nxt = g.bind(defs), g.bind(defs)
            q = rng.choice(['1', '1/2', '2', '3/4', '1/4'])
            prog = None
            try:
                tl, total = o_timeline(p, ({}, set()))
                d = total + F(rng.choice(['1/8', '1', '5/2'])) if rng.random() < 0.75 else F(g.dy(0, 4, (1, 2, 4)))
                out, tot = o_timeline(['dur', str(d), '1/1000', p], ({}, set()))
                ended = tot == total and total + F(1, 1000) < d
                pad = math.ceil(total / F(q)) * F(q) - total
                first = ['dur', str(d), '1/1000', p, q]
                if ended and pad > 0:
                    prog = ['pat', t0, ['seq', first, ['delta', str(pad), nxt, 'pad']]]
                elif not ended and total - F(1, 100) > d:
                    prog = ['pat', t0, ['seq', first, nxt]]
            except Raise:
                pass
            if prog is None:
                prog = ['pat', t0, g.pat(defs)]
        else:
            prog = ['pat', t0, g.pat(defs)]
        case = {'lat': lat, 'defs': defs, 'prog': prog}
        if prog[0] in ('event', 'replay', 'redef') and rng.random() < 0.2:
            # played on a second server (client id 2) without an explicit group: that server's default group
            prog[2] = [kv for kv in prog[2] if kv[0] != 'group']
            if prog[0] == 'event' and len(prog) > 3:
                prog[3] = [k for k in prog[3] if k != 'group']
            case['server2'] = True
        return case

    def gen(self, rng, n):
        base = rng.randrange(10 ** 6)
        return [self.gen_case(rng, base + i) for i in range(n)]

    def impl(self, cases):
        res, err = common.run_impl('c14', 'run', {'cases': cases})
        if res is None:
            self.notes.append(err)
        return res

    def model(self, cases):
        lines = []
        for c in cases:
            lines.append('reset')
            descs = ' '.join(f'(desc {d["name"]} {int(bool(d.get("keep_gate")))} ({" ".join(d["controls"])}))'
                             for d in c['defs'])
            lines.append(f'world ({c["lat"]} {descs})')
            p = c['prog']
            if p[0] == 'event':
                lines.append(f'event {p[1]} {sx_ev(p[2])}')
            elif p[0] == 'pat' and p[2][0] == 'mono':
                m = p[2]
                lines.append(f'mono {p[1]} {m[1]} {int(bool(m[2]))} {sx_binds(m[3])}')
            elif p[0] == 'restart':
                lines.append(f'restart {p[1]} {p[3]} {p[4]} {sx_pat(p[2])}')
            elif p[0] == 'replay':
                if any(len(pl) > 2 for pl in p[3]):
                    # keys change between the plays: one play of the current event per time
                    ev, t = [list(kv) for kv in p[2]], F(p[1])
                    lines.append(f'event {t} {sx_ev(ev)}')
                    for pl in p[3]:
                        t += F(pl[0])
                        if len(pl) > 2:
                            ev = [kv for kv in ev if kv[0] != pl[2][0]] + [list(pl[2])]
                        lines.append(f'event {t} {sx_ev(ev)}')
                else:
                    lines.append(f'replay {p[1]} {sx_ev(p[2])} ({" ".join(pl[0] for pl in p[3])})')
            elif p[0] == 'redef':
                d = p[4]
                lines.append(f'event {p[1]} {sx_ev(p[2])}')
                lines.append(f'redef (desc {d["name"]} {int(bool(d.get("keep_gate")))} ({" ".join(d["controls"])}))')
                lines.append(f'event {F(p[1]) + F(p[3])} {sx_ev(p[2])}')
            else:
                lines.append(f'pat {p[1]} {sx_pat(p[2])}')
        out, err = common.run_driver('Sc3Verif/C14/Driver.lean', lines)
        if out is None:
            raise RuntimeError('driver failed: ' + err)
        res, cur = [], None
        for l in out:
            if l == 'reset':
                cur = []; res.append(cur)
            else:
                cur.append(l)
        final = []
        for r in res:
            if len(r) < 2 or r[0] != 'ok' or not r[-1].startswith('END'):
                final.append({'msgs': None, 'raw': r})
                continue
            end = r[-1].split()
            body, died = [], False
            for x in r[1:-1]:
                if x.startswith('END '):          # several plays in one case (redef): a raising play ends the routine
                    if x.split()[2] == '1':
                        died, end = True, x.split()
                        break
                elif x != 'ok':
                    body.append(x)
            final.append({'msgs': [parse_model_line(x) for x in body], 'died': died or end[2] == '1',
                          'end': float(F(end[1]))})
        return final

    @staticmethod
    def impl_msgs(out):
        msgs = []
        for m in out['msgs']:
            mm = [float(m[0]), m[1]]
            for a in m[2:]:
                mm.append(('n', float(a[1])) if a[0] == 'n' else (a[0], a[1]))
            msgs.append(mm)
        return msgs

    def compare(self, case, impl_out, model_out):
        if case['prog'][0] == 'pat' and chain_over_mono(case['prog'][2]):
            return None                   # oracle-only rule (see oracle)
        if model_out['msgs'] is None:
            return {'model': model_out}
        a = canon_msgs(self.impl_msgs(impl_out))
        b = canon_msgs(model_out['msgs'])
        died_impl = impl_out['errors'] > 0 or bool(impl_out['build_error'])
        end_ok = True
        if not died_impl and impl_out.get('end') is not None:
            # the last wake-up of the player is at the time its timetable ends, unless a later
            # gate-off... (gate-offs are bundles, not wake-ups): compare directly
            end_ok = close(float(impl_out['end']), model_out['end'])
        same = same_histories(histories(self.impl_msgs(impl_out)), histories(model_out['msgs'])) \
            if (case['prog'][0] == 'pat' and has_mono(case['prog'][2])) else same_msgs(a, b)
        if not same or died_impl != model_out['died'] or not end_ok:
            return {'impl': a, 'model': b, 'impl_end': impl_out.get('end'), 'model_end': model_out['end'],
                    'impl_errors': impl_out['errors'],
                    'impl_build_error': impl_out['build_error'], 'model_died': model_out['died']}
        return None

    def oracle(self, case, out):
        if case['prog'][0] == 'pat' and case['prog'][2][0] == 'mono':
            try:
                exp, end = oracle_mono(case)
            except Raise:
                return None
            if out['errors'] != 0 or out['build_error']:
                return {'what': f'playing a Pmono raised ({out.get("error_text")})', 'signature': 'play-raises:mono'}
            got = canon_msgs(self.impl_msgs(out))
            if not same_msgs(got, canon_msgs(exp)):
                return {'what': f'Pmono sent {got}', 'signature': 'mono-commands', 'expected': repr(canon_msgs(exp))[:1500]}
            if out.get('end') is not None and not close(float(out['end']), float(end)):
                return {'what': f'the pattern ends at {out["end"]}, its timeline ends at {float(end)}',
                        'signature': 'end-time:mono'}
            return None
        if case['prog'][0] == 'pat' and chain_over_mono(case['prog'][2]):
            # Pchain(Pbind, Pmono): the chained keys do not change what a Pmono is: ONE synth, then /n_set
            try:
                rows = [o_events_bind(m[2], ({}, set())) for m in monos_of(case['prog'][2])]
            except Raise:
                return None
            if out['errors'] != 0 or out['build_error'] or any(rs for evs in rows for _, rs in evs):
                return None
            raw = self.impl_msgs(out)
            n_new = sum(1 for m in raw if m[1] == '/s_new')
            want = sum(1 for evs in rows if evs)
            if n_new != want:
                return {'what': f'{n_new} synths were created for {want} Pmono under Pchain',
                        'signature': 'mono-under-chain-synths'}
            for h in histories(raw):
                if h[0][1] != '/s_new':
                    return {'what': f'commands {h[:2]} address a node that was never created',
                            'signature': 'mono-under-chain-history'}
            return None
        if case['prog'][0] == 'pat' and has_mono(case['prog'][2]):
            try:
                exp, end = oracle_pattern_msgs(case)
            except Raise:
                return None
            if out['errors'] != 0 or out['build_error']:
                return {'what': f'playing raised ({out.get("error_text")})', 'signature': 'play-raises:mono-composition'}
            raw = self.impl_msgs(out)
            new_ids = [m[3][1] for m in raw if m[1] == '/s_new']
            if len(set(new_ids)) != len(new_ids):
                return {'what': f'node ids are not fresh: {new_ids}', 'signature': 'node-id-reused:' + self.top(case)}
            if not same_histories(histories(raw), histories(exp)):
                return {'what': 'per node, the commands sent are ' + repr(sorted(histories(raw)))[:900],
                        'signature': 'node-history:' + self.top(case), 'expected': repr(sorted(histories(exp)))[:1500]}
            if out.get('end') is not None and not close(float(out['end']), float(end)):
                return {'what': f'the pattern ends at {out["end"]}, its timeline ends at {float(end)}',
                        'signature': 'end-time:' + self.top(case)}
            return None
        try:
            notes, end = oracle_notes(case)
        except Raise:
            return None                   # the documented meaning does not cover the case
        if out['errors'] != 0 or out['build_error']:
            import re
            txt = out.get('error_text', '').split('|')[-1].strip()
            m = re.match(r'(\w+): .* @ (\S+)$', txt)
            where = f'{m.group(1)}@{m.group(2)}' if m else (out['build_error'] or ['?'])[0]
            return {'what': f'playing raised ({txt or out["build_error"]}); {len(notes)} notes were due',
                    'signature': 'play-raises:' + where}
        raw = self.impl_msgs(out)
        new_ids = [m[3][1] for m in raw if m[1] == '/s_new']
        if len(set(new_ids)) != len(new_ids):
            dup = sorted(i for i in set(new_ids) if new_ids.count(i) > 1)
            return {'what': f'node ids are not fresh: {[(m[0], m[3][1]) for m in raw if m[1] == "/s_new"]} '
                            f'(id {dup[0]} creates more than one synth)', 'signature': 'node-id-reused:' + self.top(case)}
        for m in raw:
            if m[1] == '/n_set' and m[2][1] not in new_ids:
                return {'what': f'gate-off {m} addresses a node no /s_new of the run created',
                        'signature': 'gate-off-wrong-node:' + self.top(case)}
        on, off, other = notes_of_msgs(canon_msgs(raw))
        got = sorted(((v, sorted(off.get(k, []))) for k, v in on.items()), key=lambda x: (round(x[0][0], 6), str(x)))
        exp = sorted(((n[0], [n[1]] if n[1] is not None else []) for n in notes), key=lambda x: (round(x[0][0], 6), str(x)))
        if other:
            return {'what': f'unexpected command {other[0]}', 'signature': 'stray-command:' + self.top(case)}
        if len(got) != len(exp):
            return {'what': f'{len(got)} synths were created, {len(exp)} notes are due',
                    'signature': 'note-count:' + self.top(case), 'expected': repr(exp)[:600]}
        used = [False] * len(exp)
        for g in got:
            hit = None
            for j, e in enumerate(exp):
                if not used[j] and self.note_eq(g, e):
                    hit = j
                    break
            if hit is None:
                return {'what': f'synth {g} is not one of the due notes', 'signature': 'note-mismatch:' + self.top(case),
                        'expected': repr(exp)[:800]}
            used[hit] = True
        if out.get('end') is not None and not close(float(out['end']), float(end)):
            return {'what': f'the pattern ends at {out["end"]}, its timeline ends at {float(end)}',
                    'signature': 'end-time:' + self.top(case)}
        return None

    @staticmethod
    def note_eq(g, e):
        (gon, goff), (eon, eoff) = g, e
        if not close(gon[0], eon[0]) or gon[1] != eon[1] or not close(gon[2], eon[2]) or not close(gon[3], eon[3]):
            return False
        if len(gon[4]) != len(eon[4]) or len(goff) != len(eoff):
            return False
        for p, q in zip(gon[4], eon[4]):
            if p[0] != q[0] or (p[0] == 'n' and not close(p[1], q[1])) or (p[0] == 's' and p[1] != q[1]):
                return False
        return all(close(x, y) for x, y in zip(goff, eoff))

    @staticmethod
    def top(case):
        p = case['prog']
        return p[0] if p[0] in ('event', 'replay', 'restart', 'redef') else p[2][0]

    def shrink(self, case, fails):
        def cands(prog):
            if prog[0] == 'event':
                for i in range(len(prog[2])):
                    ev = prog[2][:i] + prog[2][i + 1:]
                    yield ['event', prog[1], ev] + ([[k for k in prog[3] if k != prog[2][i][0]]] if len(prog) > 3 else [])
                return
            if prog[0] == 'redef':
                for i in range(len(prog[2])):
                    if prog[2][i][0] != 'instrument':
                        yield prog[:2] + [prog[2][:i] + prog[2][i + 1:]] + prog[3:]
                return
            if prog[0] == 'replay':
                for i in range(len(prog[3])):
                    if len(prog[3]) > 1:
                        yield prog[:3] + [prog[3][:i] + prog[3][i + 1:]]
                for i in range(len(prog[2])):
                    yield prog[:2] + [prog[2][:i] + prog[2][i + 1:]] + [prog[3]]
                return
            def pc(t):
                k = t[0]
                if k == 'bind':
                    b = t[1]
                    for i in range(len(b)):
                        yield ['bind', b[:i] + b[i + 1:]]
                    for i, (key, sq) in enumerate(b):
                        if sq[0] == 'finop':
                            continue
                        vals = [x for x in sq[1:] if x != 'seq']
                        if len(vals) > 1:
                            yield ['bind', b[:i] + [[key, [sq[0], vals[0]]]] + b[i + 1:]]
                            yield ['bind', b[:i] + [[key, [sq[0]] + vals[1:] + (['seq'] if sq[-1] == 'seq' else [])]] + b[i + 1:]]
                elif k == 'mono':
                    for c in pc(['bind', t[3]]):
                        yield t[:3] + [c[1]]
                elif k == 'monop':
                    for c in pc(['bind', t[2]]):
                        yield t[:2] + [c[1]]
                elif k == 'pn':
                    yield t[2]
                    if int(t[1]) > 1:
                        yield ['pn', int(t[1]) - 1, t[2]]
                    for c in pc(t[2]):
                        yield t[:2] + [c]
                elif k in ('par', 'seq') and k == 'seq':
                    for c in t[1:]:
                        yield c
                    for i in range(1, len(t)):
                        if len(t) > 2:
                            yield t[:i] + t[i + 1:]
                        for c in pc(t[i]):
                            yield t[:i] + [c] + t[i + 1:]
                elif k == 'par':
                    for c in t[1:]:
                        yield c
                    for i in range(1, len(t)):
                        if len(t) > 2:
                            yield t[:i] + t[i + 1:]
                        for c in pc(t[i]):
                            yield t[:i] + [c] + t[i + 1:]
                elif k == 'dur':
                    yield t[3]
                    for c in pc(t[3]):
                        yield t[:3] + [c]
                elif k == 'delta':
                    yield t[2]
                    for c in pc(t[2]):
                        yield t[:2] + [c]
                elif k == 'chain':
                    yield t[2]
                    for c in pc(t[2]):
                        yield t[:2] + [c]
            for c in pc(prog[2]):
                yield [prog[0], prog[1], c] + prog[3:]
        cur, steps = case, 0
        improved = True
        while improved and steps < 150:
            improved = False
            for c in cands(cur['prog']):
                steps += 1
                cand = dict(cur, prog=c)
                if fails(cand):
                    cur, improved = cand, True
                    break
                if steps >= 150:
                    break
        return cur

    def nontrivial(self, case, out):
        return len(out['msgs']) >= 2

    def histogram(self, cases, outs):
        h = {'event': 0, 'pat': {}, 'msgs': 0, 'errors': 0, 'keys': {}}
        def walk(t):
            h['pat'][t[0]] = h['pat'].get(t[0], 0) + 1
            if t[0] == 'mono':
                h['pat']['mono-articulate'] = h['pat'].get('mono-articulate', 0) + bool(t[2])
                return
            for x in t[1:]:
                if isinstance(x, list) and x and isinstance(x[0], str) and x[0] in ('bind', 'par', 'dur', 'delta', 'chain', 'monop', 'seq', 'pn'):
                    walk(x)
        for c, o in zip(cases, outs):
            p = c['prog']
            if p[0] == 'restart':
                h['restart'] = h.get('restart', 0) + 1
                walk(p[2])
            elif p[0] == 'replay':
                h['replay'] = h.get('replay', 0) + 1
            elif p[0] == 'redef':
                h['redef'] = h.get('redef', 0) + 1
            elif p[0] == 'event':
                h['event'] += 1
                for k, _ in p[2]:
                    h['keys'][k] = h['keys'].get(k, 0) + 1
            else:
                walk(p[2])
            h['msgs'] += len(o['msgs'])
            h['errors'] += o['errors'] > 0
        return h
