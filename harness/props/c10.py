"""C10 — Real-time and non-real-time modes run the same program identically."""
from fractions import Fraction as F

from harness import common
from harness.props import c05
from harness.props.c05 import fr, parse_trace, DELTAS, TEMPI
from harness.impl.c05 import FORM_NAMES, RGEN_READS, PATTERN_FORMS


def pick_form(rng):
    # the three shared random list patterns get a fifth of all draws (a second use of the same object matters)
    return rng.choice(PATTERN_FORMS) if rng.random() < 0.2 else rng.randrange(len(FORM_NAMES))



def norm_events(trace, start):
    """Events with SystemClock/AppClock beats made relative to the start (tempo clocks start at beat 0)."""
    evs, end, pend = parse_trace(trace)
    out, clk_of = [], {}
    for p in evs:
        p = list(p)
        try:
            if p[0] == 'R':
                clk_of[p[1]] = p[3]
                if p[3] in ('sys', 'app'):
                    p[4] = fr(F(p[4]) - start)
            elif p[0] == 'L' and clk_of.get(p[1]) in ('sys', 'app'):
                p[2] = fr(F(p[2]) - start)
        except ValueError:
            pass
        out.append(':'.join(p))
    return out, end, pend


def clocks_used(case):
    return {case['root']} | {a[2] for s in case['rts'] for a in s if a[0] in ('spawn', 'defer')}


def expected_gens(case):
    """For every draw of every routine, from the script alone: (identity, seed) of the generator OBJECT it
    must read.  identity = 'M' (the main thread's) or (routine, index of the `seed` action that created it);
    a routine reads its own latest generator if a `seed` action precedes the draw in its script, else the
    generator its creator had at the spawn / first pull.  Equal seeds in two places are two objects."""
    parent = {}
    for p, s in enumerate(case['rts']):
        for k, a in enumerate(s):
            if a[0] in ('spawn', 'pull'):
                parent.setdefault(a[1], (p, k))

    def gen_at(r, pos, own=True):
        g = None
        for k, a in enumerate(case['rts'][r][:pos]):
            if a[0] == 'seed':
                g = ((r, k), str(a[1]), own)
        if g is not None:
            return g
        if r == 0 or r not in parent:
            return ('M', 'M', False)
        return gen_at(*parent[r], own=False)       # inherited at creation: the creator's object of THAT time
    exp = {}
    for r, s in enumerate(case['rts']):
        exp[r] = [gen_at(r, k) for k, a in enumerate(s) if a[0] == 'draw']
    return exp


class Check(c05.Check):
    PROP = 'C10'
    LEAN_TARGETS = ['Sc3Verif.C10.Props']
    LEAN_DIRS = ['Sc3Verif/C10', 'Sc3Verif/C05']
    THEOREMS = ['Sc3Verif.C10.' + t for t in (
        'rt_nrt_same_trace', 'rt_nrt_same_events', 'step_ordered', 'single_clock_move_ordered',
        'rt_nrt_same_trace_single_clock', 'rt_nrt_same_trace_system_clock',
        'multi_clock_needs_ordered_schedule', 'rgen_isolation', 'rgen_inherited_at_creation',
        'rgen_creation_is_once', 'deterministic_given_seeds', 'chooseRt_eq_chooseNrt',
        'rand_state_reads_own_generator', 'rand_state_restore_rewinds')]
    N_QUICK = 150
    N_THOROUGH = 3000
    ASSUMPTIONS = c05.Check.ASSUMPTIONS + [
        'Mersenne Twister not modelled: a draw is (generator object, index); the run prints the seed of the object',
        'with several clock threads the RT order across threads is the environment\'s choice: equality with '
        'NRT is proved for schedules that serve the threads in due order, and for single-clock programs '
        'unconditionally (multi_clock_needs_ordered_schedule shows the hypothesis is necessary)',
    ]

    def rule(self):
        return ('C05 programs plus pause/resume/stop of other routines (and of itself: refused), Condition wait/'
                'signal, seeds (incl. 0 and equal seeds in several routines) and draws via every builtins random form and via Pshuffle/Prand/Pxrand pattern OBJECTS shared by all routines and plays of a program (20% of draws; values equal those of a fresh pattern object from the same generator state), nested sub-streams, '
                'bodies that raise, bundle sends carrying the last drawn value, '
                'yield inf; 60% single-clock (SystemClock or one TempoClock incl. tempo changes) run in RT under '
                'arbitrary scripted lateness and required to equal the NRT trace exactly; multi-clock programs are '
                'compared per routine; Pseed streams pulled between the own draws of a routine and forks (k-th value = k-th number of the seed, no program generator read or replaced); note events of an instrument with gate and 7 other controls (NRT); every program runs in two fresh NRT processes with different PYTHONHASHSEED (byte-identical score). '
                'Non-trivial: >=2 routines and at least one of pause/resume/stop/wait/signal/tempo/draw executed in '
                'a program with a positive delta; distinct by full case')

    def regen(self):
        """Translator-style tie: every function of builtins.py that reads the thread's random generator
        (directly, or by calling one that does) must have a draw form, with as many generator reads as the
        form table was written for."""
        import ast
        f = common.REPO / 'sc3' / 'base' / 'builtins.py'
        try:
            src = f.read_text()
            tree = ast.parse(src)
        except Exception as e:
            return f'cannot parse {f}: {e}'
        funcs = {n.name: n for n in tree.body if isinstance(n, ast.FunctionDef)}
        reads = {name: sum(1 for x in ast.walk(n) if isinstance(x, ast.Attribute) and x.attr in ('_rgen', '_m_rgen'))
                 for name, n in funcs.items()}
        reads = {k: v for k, v in reads.items() if v}
        calls = {name: {x.func.id for x in ast.walk(n) if isinstance(x, ast.Call) and isinstance(x.func, ast.Name)}
                 for name, n in funcs.items()}
        closure, grew = set(reads), True
        while grew:
            grew = False
            for name, c in calls.items():
                if name not in closure and c & closure:
                    closure.add(name)
                    grew = True
        have = {n.split(':')[0] for n in FORM_NAMES}
        missing = sorted(closure - have)
        if missing:
            return f'builtins.py random functions without a draw form in harness/impl/c05.py: {missing}'
        if reads != RGEN_READS:
            diff = {k: (reads.get(k), RGEN_READS.get(k)) for k in set(reads) | set(RGEN_READS)
                    if reads.get(k) != RGEN_READS.get(k)}
            return f'generator reads per function changed (source, form table): {diff}'
        return None

    def gen_one(self, rng):
        single = rng.random() < 0.6
        nt = rng.choice([0, 1, 1, 2])
        tempi = [rng.choice(TEMPI) for _ in range(nt)]
        clocks = ['sys'] + [f't{i}' for i in range(nt)]
        if single:
            one = rng.choice(clocks)
            clocks = [one]
        root = rng.choice(clocks)
        n = rng.choice([2, 2, 3, 3, 4, 5])
        depth, parent = {0: 0}, {}
        for i in range(1, n):
            p = rng.choice([q for q in range(i) if depth[q] < 3])
            parent[i], depth[i] = p, depth[p] + 1
        interfere = single or rng.random() < 0.0
        nconds = rng.choice([0, 1, 1, 2]) if interfere else 0
        seeds = iter([rng.choice([0, 0, 0, 1, 1, 2, 3, 5, 7, 11, 13, 42]) for _ in range(24)])
        rts = []
        for i in range(n):
            ny = rng.choice([1, 2, 3, 3, 4, 5, 6, 8])
            acts = [['log']] if rng.random() < 0.6 else []
            for _ in range(ny):
                acts.append(['y', rng.choice(DELTAS)])
                w = rng.random()
                if w < 0.04:
                    # one more value of this routine's Pseed stream, between its own draws and forks
                    acts.append(['pseed'])
                elif w < 0.08:
                    # a note event of an instrument with a gate and several controls (NRT score only)
                    acts.append(['note', rng.randrange(12)])
                elif w < 0.35:
                    acts.append(['log'])
                elif w < 0.5:
                    acts.append(['draw', pick_form(rng)])
                elif w < 0.6:
                    acts.append(['send', rng.randrange(100)])
                elif interfere and w < 0.8:
                    t = rng.randrange(n) if rng.random() < 0.9 else i
                    acts.append([rng.choice(['pause', 'resume', 'resume', 'stop', 'pause']), t])
                elif interfere and nconds and w < 0.9:
                    acts.append([rng.choice(['wait', 'sig', 'sig']), rng.randrange(nconds)])
            if rng.random() < 0.35:
                acts.insert(rng.randrange(len(acts) + 1), ['seed', next(seeds)])
            if rng.random() < 0.12:
                acts.insert(rng.randrange(len(acts) + 1),
                            rng.choice([['hang'], ['yinf'], ['yv', 'T'], ['yv', 'T'], ['yv', 'F'], ['yv', 'N'],
                                        ['yv', 'S'], ['yv', 'O']]))
            if i > 0 and rng.random() < 0.08:
                acts.insert(rng.randrange(len(acts) + 1), ['raise'])
            rts.append(acts)
        if interfere and n >= 2 and rng.random() < 0.6:
            # pause / short wait / resume of one routine by another (D12 shape), possibly twice
            for _ in range(rng.randint(1, 2)):
                t = rng.randrange(1, n)
                ctl = parent[t] if rng.random() < 0.7 else rng.choice([q for q in range(n) if q != t])
                k = rng.randrange(len(rts[ctl]) + 1)
                rts[ctl][k:k] = [['pause', t], ['y', rng.choice(['0', '1/8', '1/4', '1/2'])], ['resume', t]]
        if rng.random() < 0.5:
            # bundles sent ahead with a long latency (odd ids), then earlier-stamped ones (even ids)
            r = rng.randrange(n)
            k = rng.randrange(len(rts[r]) + 1)
            odd = [['send', 2 * rng.randrange(50) + 1] for _ in range(rng.randint(2, 3))]
            rts[r][k:k] = odd + [['y', rng.choice(['1/4', '1/2'])], ['send', 2 * rng.randrange(50)],
                                 ['send', 2 * rng.randrange(50) + 1]]
        if interfere and nconds and n >= 2 and rng.random() < 0.6:
            # a waiter and a later signaller on the same condition
            a, b = rng.sample(range(n), 2)
            c = rng.randrange(nconds)
            rts[a].insert(rng.randrange(min(len(rts[a]), 3) + 1), ['wait', c])
            k = rng.randrange(len(rts[b]) + 1)
            rts[b][k:k] = [['y', rng.choice(['1/8', '1/2', '1', '3/2'])], ['sig', c]]
        for i in range(1, n):
            p = parent[i]
            rts[p].insert(rng.randrange(min(len(rts[p]), 4) + 1), ['spawn', i, rng.choice(clocks)])
        if rng.random() < 0.5:
            # sub-streams: routines only ever pulled with next() from inside one other routine's body;
            # seeded themselves or not, while the puller (seeded or not) draws too
            for _ in range(rng.randint(1, 2)):
                puller = rng.randrange(n)
                sub = len(rts)
                body = ([['seed', next(seeds)]] if rng.random() < 0.7 else [])
                for _ in range(rng.randint(1, 4)):
                    body += [['draw', pick_form(rng)] for _ in range(rng.randint(1, 2))] + [['y', '0']]
                if rng.random() < 0.3:
                    body.insert(rng.randrange(1, len(body) + 1), ['seed', next(seeds)])
                rts.append(body)
                for _ in range(rng.randint(1, 4)):
                    k = rng.randrange(len(rts[puller]) + 1)
                    rts[puller][k:k] = ([['draw', pick_form(rng)] for _ in range(rng.randint(0, 2))]
                                        + [['pull', sub]])
        if rng.random() < 0.3:
            # rand_state: saved (from inside the routine or from another routine = outside) and assigned back later;
            # the draws that followed the save must be handed out again
            t = rng.randrange(n)
            ctl = t if rng.random() < 0.35 else rng.randrange(n)
            if not any(a[0] == 'draw' for a in rts[t]):
                rts[t] += [['draw', pick_form(rng)], ['y', '1/4'], ['draw', pick_form(rng)]]
            k1 = rng.randrange(len(rts[ctl]) + 1)
            rts[ctl].insert(k1, ['save', 0, t])
            k2 = rng.randrange(k1 + 1, len(rts[ctl]) + 1)
            rts[ctl].insert(k2, ['restore', 0, t])
            if ctl == t:
                rts[t].insert(rng.randrange(k1 + 1, k2 + 1), ['draw', pick_form(rng)])
                rts[t].append(['draw', pick_form(rng)])
        if single and rng.random() < 0.3:
            # defer(func, d, clock) = clock.sched(d, func) from a routine playing on that clock
            r = rng.randrange(n)
            rts.append([['log']])
            rts[r].insert(rng.randrange(len(rts[r]) + 1), ['defer', len(rts) - 1, clocks[0], rng.choice(['0', '1/4', '1'])])
        tclk = [int(c[1:]) for c in clocks if c[0] == 't']
        if tclk and (single or rng.random() < 0.3):
            who = 0 if not single else rng.randrange(n)
            for _ in range(rng.randint(1, 2)):
                kind = rng.choice(['tempo', 'tempo', 'etempo', 'beats']) if single else 'tempo'
                val = rng.choice(TEMPI) if kind != 'beats' else rng.choice(['1/2', '1', '2', '3', '5'])
                rts[who].insert(rng.randrange(len(rts[who]) + 1), [kind, rng.choice(tclk), val])
        if single and rng.random() < 0.3:
            # scheduling in the past: a negative delta (performed overdue, reading its own past time)
            r = rng.randrange(n)
            ys = [k for k, a in enumerate(rts[r]) if a[0] == 'y']
            if ys:
                rts[r][rng.choice(ys)] = ['y', rng.choice(['-1/8', '-1/4', '-1/2', '-1'])]
        overdue = any(a[0] == 'beats' or (a[0] == 'y' and a[1].startswith('-')) for s in rts for a in s)
        if overdue:
            # tasks performed overdue read a PAST logical time: `etempo` (anchored at the elapsed = physical time in
            # RT) is then legitimately different in the two modes, and NRT cannot stamp bundles before time 0
            rts = [[(['tempo'] + a[1:]) if a[0] == 'etempo' else a for a in s if a[0] not in ('send', 'note')] for s in rts]
        has_tempo = any(a[0] in ('tempo', 'etempo', 'beats') for s in rts for a in s)
        has_etempo = any(a[0] == 'etempo' for s in rts for a in s)
        if (has_tempo and not single) or has_etempo:
            # etempo anchors at the physical time: equal to the logical time only without lateness
            late = {'mode': 'zero', 'vals': []}
        else:
            mode = rng.choice(['zero', 'common', 'perthread', 'random', 'random'])
            if rng.random() < 0.5:
                vals = [fr(F(rng.randint(0, 51), 1024)) for _ in range(rng.randint(1, 6))]
            else:
                vals = [rng.choice(['1/2', '1', '3', '1/4', '0', '1/1024']) for _ in range(rng.randint(1, 5))]
            late = {'mode': mode, 'vals': vals}
        return {'tempi': tempi, 'root': root, 'rts': rts, 'late': late, 'klass': 'S' if single else 'M',
                'tail': rng.choice(['0', '0', '1/2', '2']),
                # (a restored rand_state followed by a second play is outside the bookkeeping of the runner)
                'rerun': rng.random() < 0.35 and not any(a[0] == 'restore' for s in rts for a in s)}

    # two fresh processes differ in Python's per-process string hash seed, as two runs of a script do
    nrt_env = {'PYTHONHASHSEED': '1'}

    def impl(self, cases):
        outs = super().impl(cases)
        if outs is None:
            return None
        nrt2, err = common.run_impl('c10', 'run_nrt', {'cases': cases}, extra_env={'PYTHONHASHSEED': '2'})
        if nrt2 is None:
            self.notes.append('nrt2: ' + err)
            return None
        for o, o2 in zip(outs, nrt2):
            o['nrt2'] = {'raw_sha1': o2['raw_sha1'], 'trace': o2['trace'], 'draw_values': o2['draw_values'],
                         'rerun': self.rerun_key(o2)}
        return outs

    @staticmethod
    def rerun_key(o):
        r = o.get('rerun')
        return None if not r else [r['raw_sha1'], r['trace'], r['draw_values']]

    # ---- oracle -----------------------------------------------------------------------------------
    def oracle(self, case, out):
        nrt, rt = out['nrt'], out['rt']
        if rt is not None and rt.get('skipped'):
            rt = None
        if rt is not None and (rt.get('error') or '').startswith('livelock'):
            self._livelock = getattr(self, '_livelock', set()) | {common.canon(case)}
            return {'what': 'RT: ' + rt['error'], 'signature': 'c10:rt-livelock'}
        if nrt.get('rerun') and nrt['rerun'].get('error'):
            return {'what': f'NRT second play after main.reset(): the library failed or hung: '
                            f'{nrt["rerun"]["error"]}', 'signature': 'c10:error:nrt'}
        if nrt.get('error'):
            if 'infinity' in nrt['error'] and any(a[0] == 'yinf' for s in case['rts'] for a in s):
                return {'what': 'NRT: a routine yielding inf is re-queued at time inf (real time never wakes it '
                                f'again) and main.process() fails: {nrt["error"]}', 'signature': 'c10:inf'}
            return {'what': f'NRT run failed: {nrt["error"]}', 'signature': 'c10:error:nrt'}
        if 'inf' in nrt['trace']:
            return {'what': 'NRT: a routine that yielded inf was woken again at logical time inf (real time never '
                            'wakes it)', 'signature': 'c10:inf'}
        for mode, o in (('nrt', nrt), ('rt', rt), ('nrt replay', nrt.get('rerun')), ('rt replay', (rt or {}).get('rerun'))):
            if o is not None and o.get('draw_diag'):
                return {'what': f'{mode}: random-generator isolation broken (a draw must read exactly the calling '
                                f'routine\'s generator; rand_state is the state of the routine\'s own generator; a value '
                                f'is a function of seed and history): {o["draw_diag"][0]} (M = the main thread\'s '
                                f'generator)', 'signature': 'c10:rgen:wrong-generator'}
        # determinism: two fresh NRT processes
        if (out['nrt2']['raw_sha1'] != nrt['raw_sha1'] or out['nrt2']['trace'] != nrt['trace']
                or out['nrt2']['draw_values'] != nrt['draw_values'] or out['nrt2']['rerun'] != self.rerun_key(nrt)):
            return {'what': 'two fresh NRT runs of the same seeded program differ (score bytes or logged values)',
                    'signature': 'c10:nondeterministic'}
        if nrt['task_times'] and nrt['elapsed'] != nrt['task_times'][-1]:
            return {'what': f'NRT: after main.process(tailtime={case.get("tail", "0")}) the logical time is '
                            f'{nrt["elapsed"]} s; the last performed task ran at {nrt["task_times"][-1]} s',
                    'signature': 'c10:nrt-elapsed'}
        single = len(clocks_used(case)) == 1
        exp_gen = expected_gens(case)
        for mode, o, start in (('nrt', nrt, F(0)), ('rt', rt, F(rt['start']) if rt else None)):
            if o is None:
                continue
            plays = [(1, parse_trace(o['trace'])[0])]
            if o.get('rerun'):
                plays.append((2, parse_trace(o['rerun']['trace'])[0]))
            seen, loose = {}, False
            if any(a[0] == 'restore' for sc in case['rts'] for a in sc):
                plays = []       # a restored rand_state moves a generator on purpose: model comparison + value law
            for play, evs in plays:
              per_r = {}
              for p in evs:
                if p[0] == 'D':
                    r, g, i = int(p[1]), p[2], p[3]
                    if g == '?':
                        return {'what': f'{mode}: routine {r} drew a value that is in none of the seeded streams',
                                'signature': 'c10:rgen:stream'}
                    i = int(i)
                    k = per_r.get(r, 0)
                    per_r[r] = k + 1
                    if k >= len(exp_gen[r]):
                        continue
                    ident, seed, own = exp_gen[r][k]
                    # a routine object played again keeps the generator OBJECT it holds: a generator inherited at
                    # creation is still the first play's object; its own `seed` action makes a new one each play
                    ident = (ident, play if own else 1)
                    if play == 2 and not own and any(a[0] == 'seed' for a in case['rts'][r]):
                        # before its own `seed` action the object still holds whatever it held at the end of the
                        # first play (depends on how far that got): judged by the model comparison only
                        loose = True
                        continue
                    if play == 2:
                        mode = mode.split(' ')[0] + ' (second play of the same routine objects)'
                    if seed != g:
                        return {'what': f'{mode}: draw #{k} of routine {r} came from a generator seeded {g}; its own '
                                        f'seed / the generator inherited at creation is seeded {seed} '
                                        f'(M = the main thread\'s generator)', 'signature': 'c10:rgen:inherit'}
                    if not loose and i != seen.get(ident, 0):
                        return {'what': f'{mode}: draw #{k} of routine {r} got stream index {i} of its generator '
                                        f'(seed {seed}, created at {ident}); {seen.get(ident, 0)} was due — the '
                                        f'generator is shared with, or was advanced by, someone it must not be',
                                'signature': 'c10:rgen:stream'}
                    seen[ident] = i + 1
        interferes = any(x[0] in ('pause', 'resume', 'stop', 'wait', 'sig') for s in case['rts'] for x in s)
        if nrt.get('rerun') and not interferes:
            # (with pause / resume / stop the second play legitimately differs: the targets exist already)
            nd1 = [e for e in norm_events(nrt['trace'], F(0))[0] if e[0] != 'D']
            nd2 = [e for e in norm_events(nrt['rerun']['trace'], F(0))[0] if e[0] != 'D']
            if nd1 != nd2:
                k = next((i for i, (x, y) in enumerate(zip(nd1, nd2)) if x != y), min(len(nd1), len(nd2)))
                return {'what': f'NRT: the same routine objects reset and played again after main.reset() do not '
                                f'repeat the first play: event #{k} was {nd1[k] if k < len(nd1) else "(end)"}, now '
                                f'{nd2[k] if k < len(nd2) else "(end)"}', 'signature': 'c10:replay'}
        if rt is None:
            return None
        if rt.get('error'):
            return {'what': f'RT run failed: {rt["error"]}', 'signature': 'c10:error:rt'}
        if single and nrt.get('rerun') and rt.get('rerun') and not rt['rerun'].get('error'):
            a2, _, _ = norm_events(nrt['rerun']['trace'], F(0))
            b2, _, _ = norm_events(rt['rerun']['trace'], F(rt['rerun']['start']))
            # a paused-then-resumed reset routine goes to its default clock: the replay may use two clock threads
            one_thread = len({e.split(':')[3] for e in a2 + b2 if e[0] == 'R'}) <= 1
            if one_thread and (a2 != b2 or nrt['rerun']['draw_values'] != rt['rerun']['draw_values']):
                k = next((i for i, (x, y) in enumerate(zip(a2, b2)) if x != y), min(len(a2), len(b2)))
                return {'what': f'second play of the same routine objects: RT and NRT differ at event #{k}: NRT '
                                f'{a2[k] if k < len(a2) else "(end / values)"} vs RT '
                                f'{b2[k] if k < len(b2) else "(end / values)"}', 'signature': 'c10:rt-nrt:replay'}
        a, aend, apend = norm_events(nrt['trace'], F(0))
        b, bend, bpend = norm_events(rt['trace'], F(rt['start']))
        if single:
            if a != b:
                k = next((i for i, (x, y) in enumerate(zip(a, b)) if x != y), min(len(a), len(b)))
                return {'what': f'single-clock program: RT and NRT traces differ at event #{k}: NRT '
                                f'{a[k] if k < len(a) else "(end)"} vs RT {b[k] if k < len(b) else "(end)"} '
                                f'(lateness {case["late"]})', 'signature': 'c10:rt-nrt'}
            def stamp(b):
                return F(b[0]) + (F(1, 4) if b[1] % 2 == 0 else F(5, 4))
            rt_sorted = sorted(rt['bundles'], key=stamp)        # stable: ties keep the send order
            if nrt['draw_values'] != rt['draw_values']:
                return {'what': f'single-clock program: drawn values differ between NRT {nrt["draw_values"][:6]} and '
                                f'RT {rt["draw_values"][:6]}', 'signature': 'c10:rt-nrt:values'}
            if nrt['bundles'] != rt_sorted:
                return {'what': f'single-clock program: (time, bundle) sequences differ: NRT score '
                                f'{nrt["bundles"][:8]} vs RT datagrams ordered by timetag then send order '
                                f'{rt_sorted[:8]}', 'signature': 'c10:rt-nrt:bundles'}
        else:
            plain = not any(x[0] in ('pause', 'resume', 'stop', 'wait', 'sig', 'tempo', 'etempo', 'beats')
                            for s in case['rts'] for x in s)
            if plain:
                def proj(evs):
                    d = {}
                    for e in evs:
                        p = e.split(':')
                        if p[0] in 'RLB':
                            d.setdefault(p[1], []).append(e)
                    return d
                pa, pb = proj(a), proj(b)
                if pa != pb:
                    r = next(k for k in sorted(set(pa) | set(pb)) if pa.get(k) != pb.get(k))
                    return {'what': f'routine {r}: events differ between NRT {pa.get(r)} and RT {pb.get(r)}',
                            'signature': 'c10:rt-nrt'}
                if sorted(map(tuple, nrt['bundles'])) != sorted(map(tuple, rt['bundles'])):
                    return {'what': 'multi-clock program: the sets of (logical time, bundle) differ between modes',
                            'signature': 'c10:rt-nrt:bundles'}
        return None

    def nontrivial(self, case, out):
        kinds = {a[0] for s in case['rts'] for a in s}
        pos = any(a[0] == 'y' and F(a[1]) > 0 for s in case['rts'] for a in s)
        return len(case['rts']) >= 2 and pos and bool(kinds & {'pause', 'resume', 'stop', 'wait', 'sig', 'tempo', 'draw'})

    def histogram(self, cases, outs):
        h = super().histogram(cases, outs)
        for c, o in zip(cases, outs):
            evs, _, _ = parse_trace(o['nrt']['trace'])
            for p in evs:
                if p[0] in 'DXB':
                    h['ev:' + p[0]] = h.get('ev:' + p[0], 0) + 1
            h['single-clock' if len(clocks_used(c)) == 1 else 'multi-clock'] = \
                h.get('single-clock' if len(clocks_used(c)) == 1 else 'multi-clock', 0) + 1
        return dict(sorted(h.items()))
