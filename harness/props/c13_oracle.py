"""C13 property oracle: the documented meaning of each pattern class as a lazy Python sequence.

Independent of the Lean model: sequences are ordinary Python iterators built with itertools,
numbers are Python ints / exact Fractions (standing for floats) / bools, so int-float promotion,
`%`, comparisons and TypeError/ZeroDivisionError come from Python itself.
`E(t)` = what embedding the term yields, `S(t)` = what a stream made from it yields.
"""
import itertools as it
from fractions import Fraction
import math


class Diverge(Exception):
    pass


class OutOfDomain(Exception):
    """The term leaves the domain on which the meaning is documented (e.g. negative modulus)."""


class Ctx:
    def __init__(self, budget):
        self.budget = budget
        self.inexact = False

    def tick(self):
        self.budget -= 1
        if self.budget < 0:
            raise Diverge()


def val(t):
    k = t[0]
    if k == 'i':
        return int(t[1])
    if k == 'f':
        return Fraction(t[1])
    if k == 'b':
        return bool(t[1])
    if k == 'l':
        return [val(x) for x in t[1:]]
    if k == 't':
        return tuple(val(x) for x in t[1:])
    raise ValueError(t)


def fmt(v):
    if type(v) is bool:
        return 'bT' if v else 'bF'
    if type(v) is int:
        return f'i{v}'
    if type(v) is Fraction:
        return f'f{v.numerator}/{v.denominator}'
    if type(v) is list:
        return '[' + ','.join(fmt(x) for x in v) + ']'
    if type(v) is tuple:
        return '(' + ','.join(fmt(x) for x in v) + ')'
    return f'?{type(v).__name__}'


def exact(v):
    """Is every float (Fraction) in v exactly a binary64 of modest size?"""
    if type(v) is Fraction:
        d = v.denominator
        return d & (d - 1) == 0 and abs(v.numerator) < 2 ** 50 and d <= 2 ** 40
    if type(v) is int and type(v) is not bool:
        return abs(v) < 2 ** 200
    if type(v) in (list, tuple):
        return all(exact(x) for x in v)
    return True


def isnum(x):
    return type(x) in (int, Fraction, bool)


def need_num(*xs):
    for x in xs:
        if not isnum(x):
            raise TypeError('number expected')


def seqs(a, b):
    return type(a) in (list, tuple) and type(b) in (list, tuple)


def b_add(a, b): return a + b          # numbers, list + list, tuple + tuple; else TypeError
def b_sub(a, b): need_num(a, b); return a - b
def b_mul(a, b): return a * b          # numbers, sequence * int; else TypeError
def b_div(a, b):
    need_num(a, b)
    if b == 0:
        raise ZeroDivisionError()
    return Fraction(a) / Fraction(b)
def b_pymod(a, b): need_num(a, b); return a % b
def b_mod(a, b):
    """SuperCollider modulo (`pattern % x`): result in [0, b) for b > 0, 0 for b == 0; an operand
    already in range is returned as it is."""
    need_num(a, b)
    if b == 0:
        return 0
    if b < 0:
        raise OutOfDomain()
    if 0 <= a < b:
        return a
    return a - b * math.floor(Fraction(a) / Fraction(b))
def b_lt(a, b):
    if seqs(a, b):
        raise OutOfDomain()
    need_num(a, b); return a < b
def b_le(a, b):
    if seqs(a, b):
        raise OutOfDomain()
    need_num(a, b); return a <= b
def b_gt(a, b):
    if seqs(a, b):
        raise OutOfDomain()
    need_num(a, b); return a > b
def b_ge(a, b):
    if seqs(a, b):
        raise OutOfDomain()
    need_num(a, b); return a >= b
def b_min(a, b):
    if seqs(a, b):
        raise OutOfDomain()
    need_num(a, b); return min(a, b)
def b_max(a, b):
    if seqs(a, b):
        raise OutOfDomain()
    need_num(a, b); return max(a, b)


BIN = {'add': b_add, 'sub': b_sub, 'mul': b_mul, 'div': b_div, 'mod': b_mod, 'pymod': b_pymod, 'lt': b_lt,
       'le': b_le, 'gt': b_gt, 'ge': b_ge, 'min': b_min, 'max': b_max}


def u_neg(a): need_num(a); return -a
def u_abs(a): need_num(a); return abs(a)
def u_pos(a): need_num(a); return +a


UN = {'neg': u_neg, 'abs': u_abs, 'pos': u_pos}


def as_int(x):
    """int(x) of the code."""
    need_num(x)
    return math.trunc(x)


def n_clip(x, lo, hi):
    """Documented: x limited to [lo, hi], bounds converted to the type of x."""
    need_num(x, lo, hi)
    if type(x) is bool:
        raise OutOfDomain()
    if type(x) is int:
        lo, hi = as_int(lo), as_int(hi)
    else:
        lo, hi = Fraction(lo), Fraction(hi)
    return max(min(x, hi), lo)


def n_wrap(x, lo, hi):
    """Documented: ints wrap into lo..hi inclusive, floats into [lo, hi)."""
    need_num(x, lo, hi)
    if type(x) is bool:
        raise OutOfDomain()
    if type(lo) is bool or type(hi) is bool:
        raise OutOfDomain()
    if type(x) is int and type(lo) is int and type(hi) is int:
        if hi < lo:
            raise OutOfDomain()
        return (x - lo) % (hi - lo + 1) + lo
    if hi < lo:
        raise OutOfDomain()
    if lo <= x < hi:
        return x
    if hi == lo:
        return lo
    r = hi - lo
    return x - r * math.floor((x - lo) / r)


NAR = {'clip': n_clip, 'wrap': n_wrap}


def fn(f):
    if f == 'id':
        return lambda x: x
    k = f[0]
    if k == 'un':
        g, o = fn(f[2]), UN[f[1]]
        return lambda x: o(g(x))
    if k == 'binR':
        g, o, c = fn(f[2]), BIN[f[1]], val(f[3])
        return lambda x: o(g(x), c)
    if k == 'binL':
        g, o, c = fn(f[3]), BIN[f[1]], val(f[2])
        return lambda x: o(c, g(x))
    if k == 'isInt':
        g = fn(f[1])
        return lambda x: type(g(x)) is int
    raise ValueError(f)


def reps(r):
    return it.count() if r == 'inf' else range(int(r))


def index(x):
    if type(x) not in (int, bool):
        raise TypeError('index')
    return int(x)


def rot(lst, off):
    return lst[off:] + lst[:off]


def flatten(v, levels):
    """Remove `levels` levels of nesting from the list v (0: the list itself is one item)."""
    if levels <= 0:
        return [v]
    out = []
    for x in v:
        if type(x) is list and levels > 1:
            out.extend(flatten(x, levels - 1))
        else:
            out.append(x)
    return out


def roundup(x, q):
    """Smallest multiple of q that is >= x (q = 0: x itself)."""
    return x if q == 0 else math.ceil(Fraction(x) / q) * q


class Den:
    def __init__(self, ctx):
        self.ctx = ctx

    def ticked(self, seq):
        for v in seq:
            self.ctx.tick()
            if not exact(v):
                self.ctx.inexact = True
            yield v

    def S(self, t):
        if t[0] == 'const':
            return self.ticked(it.repeat(val(t[1])))
        return self.E(t)

    def E(self, t):
        return self.ticked(getattr(self, 'd_' + t[0])(*t[1:]))

    # ---- list patterns ----
    def d_const(self, v):
        return iter([val(v)])

    def d_seq(self, lst, r, off):
        items = rot(lst, off)
        return it.chain.from_iterable(self.E(x) for _ in self.tk(reps(r)) for x in items)

    def tk(self, seq):
        for x in seq:
            self.ctx.tick()
            yield x

    def d_ser(self, lst, r, off):
        return it.chain.from_iterable(self.E(lst[(i + off) % len(lst)]) for i in self.tk(reps(r)))

    def d_pn(self, p, r):
        return it.chain.from_iterable(self.E(p) for _ in self.tk(reps(r)))

    def d_place(self, items, r, off):
        def pick(item, j):
            if isinstance(item, dict):
                sub = item['sub']
                return sub[j % len(sub)]
            return item
        items = rot(items, off)
        return it.chain.from_iterable(self.E(pick(x, j)) for j in self.tk(reps(r)) for x in items)

    def d_tuple(self, lst, r):
        return it.chain.from_iterable(
            map(tuple, zip(*[self.S(x) for x in lst])) for _ in self.tk(reps(r)))

    def d_switch(self, lst, w):
        return it.chain.from_iterable(self.E(lst[index(i) % len(lst)]) for i in self.S(w))

    def d_switch1(self, lst, w):
        streams = [self.S(x) for x in lst]
        for i in self.S(w):
            try:
                v = next(streams[index(i) % len(lst)])
            except StopIteration:
                return
            yield v

    def d_slide(self, lst, length, step, start, wrap, r):
        pos, size = start, len(lst)
        lens, steps = self.S(length), self.S(step)
        for _ in self.tk(reps(r)):
            try:
                n = next(lens)
            except StopIteration:
                return
            for j in range(index(n)):
                if wrap:
                    yield from self.E(lst[(pos + j) % size])
                elif pos + j < size:
                    yield from self.E(lst[pos + j])      # Python index: negative counts from the end
                else:
                    return
            try:
                st = next(steps)
            except StopIteration:
                return
            if type(st) is Fraction:
                raise OutOfDomain()     # a float step makes `pos` a float: documented for int steps only
            pos += index(st)

    # ---- value patterns ----
    def scan(self, op, start, step, length):
        cur = val(start)
        for _, s in zip(self.tk(reps(length)), self.S(step)):     # at most `length` values
            nxt = op(cur, s)
            yield cur
            cur = nxt

    def d_series(self, start, step, length):
        return self.scan(b_add, start, step, length)

    def d_geom(self, start, grow, length):
        return self.scan(b_mul, start, grow, length)

    # ---- filter patterns ----
    def d_stutter(self, p, n):
        def count(c):
            if type(c) not in (int, bool):
                raise TypeError('count')
            return abs(int(c))
        return it.chain.from_iterable(it.repeat(v, count(c)) for v, c in zip(self.S(p), self.S(n)))

    def d_clump(self, p, n):
        src = self.S(p)
        for c in self.S(n):
            group = list(it.islice(src, max(as_int(c), 0)))
            if len(group) < max(as_int(c), 0):
                if group:
                    yield group
                return
            yield group

    def d_flatten(self, p, n):
        def one(levels, v):
            if type(v) is list:
                need_num(levels)
                # non-integral levels behave like their ceiling
                return flatten(v, math.ceil(levels))
            return [v]
        return it.chain.from_iterable(one(l, v) for l, v in zip(self.S(n), self.S(p)))

    def d_diff(self, p):
        def pairs():
            a, b = it.tee(self.S(p))
            next(b, None)
            for x, y in zip(a, b):
                yield b_sub(y, x)
        return pairs()

    def d_pconst(self, p, total, tol):
        total = val(total)
        tol = Fraction(1, 1000) if tol == 'default' else Fraction(tol)
        acc = 0
        for v in self.S(p):
            nxt = b_add(acc, v)
            reached = roundup(nxt, tol)
            if reached >= total:
                yield b_sub(total, acc)
                return
            acc = nxt
            yield v
        yield b_sub(total, acc)

    def d_drop(self, p, n):
        return it.islice(self.S(p), n, None)

    def d_len(self, p, n):
        return it.islice(self.S(p), n)

    def d_collect(self, f, p):
        return map(fn(f), self.S(p))

    def d_select(self, f, p):
        g = fn(f)
        return (v for v in self.S(p) if g(v) is True)

    def d_reject(self, f, p):
        g = fn(f)
        return (v for v in self.S(p) if g(v) is False)

    def d_pif(self, c, a, b):
        ta, tb = self.S(a), self.S(b)
        for t in self.S(c):
            try:
                v = next(ta if t else tb)
            except StopIteration:
                return
            yield v

    def d_wrap(self, p, lo, hi):
        return (n_wrap(v, l, h) for l, h, v in zip(self.S(lo), self.S(hi), self.S(p)))

    def d_unop(self, o, a):
        return map(UN[o], self.S(a))

    def d_binop(self, o, a, b, style=None):
        def f(x, y):
            # an int beyond 2**53 meeting a float is rounded by the real arithmetic
            flat = flatten([x, y], 8)
            if any(type(v) is Fraction for v in flat) and any(type(v) is int and abs(v) >= 2 ** 53 for v in flat):
                self.ctx.inexact = True
            return BIN[o](x, y)
        return map(f, self.S(a), self.S(b))

    def d_narop(self, o, a, lo, hi):
        return map(NAR[o], self.S(a), self.S(lo), self.S(hi))


def observe(term, n, budget=20000):
    """First n observations of stm.stream(term): list of formatted values, then 'STOP'/'ERR'
    entries; returns (list, flags) with flags in {'diverge', 'inexact'}."""
    ctx = Ctx(budget)
    out, flags = [], set()
    try:
        seq = Den(ctx).S(term)
        for _ in range(n):
            try:
                out.append(fmt(next(seq)))
            except StopIteration:
                out.append('STOP')
                break
            except Diverge:
                raise
            except OutOfDomain:
                flags.add('domain')
                break
            except RecursionError:
                flags.add('diverge')
                break
            except Exception:
                out.append('ERR')
                break
    except Diverge:
        flags.add('diverge')
    if ctx.inexact:
        flags.add('inexact')
    return out, flags
