"""C01 — SynthDef compilation preserves the meaning of the graph function.
(C02 and C20 reuse the generator and the runners of this module.)"""
import json
from harness import common
from harness.props import c01_regen
from harness.c01_pool import unit_inputs, DEMAND_CLASSES, POOL, PURE_HINT, RATE_CONSTRAINED, UNOPS_OPAQUE, BINOPS_ARITH, BINOPS_OPAQUE, CHAIN_CLASSES

CONSTS = [(0, 1), (1, 1), (-1, 1), (2, 1), (-2, 1), (1, 2), (1, 4), (3, 1), (440, 1), (-1, 2), (5, 1), (3, 4)]


def arg_str(a):
    if a[0] == 'n':
        return f'n:{a[1]}' if a[2] == 1 else f'n:{a[1]}/{a[2]}'
    if a[0] == 'r':
        return f'r:{a[1]}:{a[2]}'
    return 'bad'


class GraphGen:
    """typed random DAGs of constructor events (see `rule`)."""

    def __init__(self, rng, allow_bad=True, allow_invalid=True, max_events=40, bad_rate=0.004):
        self.rng, self.allow_bad, self.allow_invalid, self.max_events = rng, allow_bad, allow_invalid, max_events
        self.bad_rate = bad_rate

    def const(self):
        r = self.rng
        c = r.choice(CONSTS) if r.random() < 0.85 else (r.randrange(-64, 65), r.choice([1, 2, 4, 8]))
        return ['n', c[0], c[1]]

    def program(self, idx):
        r = self.rng
        params = []
        if r.random() < 0.35:
            for k in range(r.randint(1, 3)):
                c = r.choice(CONSTS)
                params.append([r.choice(['freq', 'amp', 'gate', 'pan', 'x', 'y']) + str(k), [c[0], c[1]]])
        events, vals = [], []          # vals: (event index, channel)
        known = {'ar': [], 'kr': []}   # atom outputs whose rate is known from the constructor
        NAUDIO = {'Pan2': 1, 'Balance2': 2}
        base = 1 if params else 0
        if params:
            vals += [(0, k) for k in range(len(params))]
        n = r.choice([r.randint(1, 6), r.randint(4, 16), r.randint(10, self.max_events)])
        surely_valid = True

        def pick(pconst=0.3):
            if vals and r.random() > pconst:
                # bias to recent values and to heavy sharing
                v = vals[-1 - min(int(r.expovariate(0.5)), len(vals) - 1)] if r.random() < 0.6 else r.choice(vals)
                return ['r', v[0], v[1]]
            return self.const()

        for _ in range(n):
            i = base + len(events)
            x = r.random()
            if x < 0.04 and known['ar']:
                # an FFT chain: local buffer (or a numbered buffer), FFT, spectral units, IFFT
                def push(ev, nres=1):
                    events.append(ev)
                    return ['r', base + len(events) - 1, 0]
                if r.random() < 0.7:
                    buf = push({'t': 'localbuf', 'frames': ['n', r.choice([512, 1024, 2048]), 1], 'channels': ['n', 1, 1]})
                else:
                    buf = ['n', r.randrange(0, 16), 1]
                sig = r.choice(known['ar'])
                chain = push({'t': 'atom', 'cls': 'FFT', 'ctor': 'kr',
                              'ins': [buf, ['r', sig[0], sig[1]], ['n', 1, 2], ['n', 0, 1], ['n', 1, 1], ['n', 0, 1]]})
                chains = [chain]
                for _k in range(r.randint(0, 3)):
                    cls = r.choice(['PV_MagAbove', 'PV_BrickWall'])
                    # usually the latest link, sometimes an earlier one (a chain consumed twice)
                    src = chain if r.random() < 0.75 else r.choice(chains)
                    chain = push({'t': 'atom', 'cls': cls, 'ctor': 'new', 'ins': [src, pick(0.6)]})
                    chains.append(chain)
                if r.random() < 0.3 and r.random() < 0.5:
                    chain = push({'t': 'atom', 'cls': 'PV_MagMul', 'ctor': 'new', 'ins': [chain, chain]})
                y = push({'t': 'atom', 'cls': 'IFFT', 'ctor': 'ar', 'ins': [chain, ['n', 0, 1], ['n', 0, 1]]})
                vals.append((y[1], 0)); known['ar'].append((y[1], 0))
            elif x < 0.07:
                # a demand-rate block: sources, arithmetic that stays at demand rate (constants and
                # other demand values only), pulled by a Duty unit whose output joins the signal pool
                def push(ev):
                    events.append(ev); return ['r', base + len(events) - 1, 0]
                dv = []
                for _k in range(r.randint(1, 2)):
                    cls = r.choice(['Dwhite', 'Dseries'])
                    dv.append(push({'t': 'atom', 'cls': cls, 'ctor': 'dr', 'ins': [self.const(), self.const(), ['n', r.choice([1, 4, 8]), 1]]}))

                def dpick():
                    return r.choice(dv) if r.random() < 0.7 else self.const()
                for _k in range(r.randint(0, 4)):
                    kind = r.choice(['add', 'add', 'sub', 'mul', 'neg', 'madd'])
                    if kind == 'neg':
                        dv.append(push({'t': 'unop', 'sel': 'neg', 'a': r.choice(dv)}))
                    elif kind == 'madd':
                        dv.append(push({'t': 'madd', 'a': r.choice(dv), 'm': dpick(), 'c': dpick()}))
                    else:
                        a_, b_ = (r.choice(dv), dpick()) if r.random() < 0.7 else (dpick(), r.choice(dv))
                        dv.append(push({'t': 'binop', 'sel': kind, 'a': a_, 'b': b_}))
                ctor = r.choice(['ar', 'kr'])
                dins = [dpick() if r.random() < 0.5 else ['n', 1, 4], ['n', 0, 1], r.choice(dv), ['n', 0, 1]]
                for _k in (1, 3):
                    if self.allow_bad and r.random() < 3 * self.bad_rate:
                        dins[_k] = ['bad', r.choice(['none', 'nan', 'str'])]; surely_valid = False
                y = push({'t': 'atom', 'cls': 'Duty', 'ctor': ctor, 'ins': dins})
                vals.append((y[1], 0)); known[ctor].append((y[1], 0))
            elif x < 0.28 or not vals:
                cls = r.choice([c for c in POOL if c not in CHAIN_CLASSES and c not in DEMAND_CLASSES])
                mod, ctors, nargs, nres = POOL[cls]
                ins = []
                ctor = r.choice(ctors)
                for _k in range(nargs):
                    want = None
                    if ctor == 'ar' and _k < NAUDIO.get(cls, 0):
                        want = 'ar'
                    elif cls == 'LinExp' and _k == 0:
                        want = ctor
                    if self.allow_bad and r.random() < self.bad_rate:
                        ins.append(['bad', r.choice(['none', 'nan', 'str'])]); surely_valid = False
                    elif want and known[want] and r.random() < 0.93:
                        v = r.choice(known[want]); ins.append(['r', v[0], v[1]])
                    elif want and not known[want] and r.random() < 0.9:
                        # no signal of the required rate yet: make one
                        events.append({'t': 'atom', 'cls': 'WhiteNoise', 'ctor': want, 'ins': []})
                        known[want].append((i, 0)); vals.append((i, 0))
                        ins.append(['r', i, 0]); i += 1
                    else:
                        ins.append(pick(0.6))
                        if want:
                            surely_valid = False
                events.append({'t': 'atom', 'cls': cls, 'ctor': ctor, 'ins': ins})
                vals += [(i, k) for k in range(nres)]
                if ctor in known:
                    known[ctor] += [(i, k) for k in range(nres)]
            elif x < 0.40:
                # directed chains that the optimiser rewrites: sums of fresh single-use terms,
                # product then sum, negation then sum/difference
                kind = r.choice(['sum', 'sum', 'muladd', 'addneg', 'subneg', 'sumsum', 'mulmul', 'sumN', 'sumN'])
                a, b, c, d_ = pick(0.15), pick(0.15), pick(0.15), pick(0.15)
                def push(ev):
                    events.append(ev); vals.append((base + len(events) - 1, 0)); return ['r', base + len(events) - 1, 0]
                if kind == 'sum':
                    t1 = push({'t': 'binop', 'sel': 'add', 'a': a, 'b': b})
                    t2 = push({'t': 'binop', 'sel': 'add', 'a': t1, 'b': c} if r.random() < 0.6 else {'t': 'binop', 'sel': 'add', 'a': c, 'b': t1})
                    if r.random() < 0.6:
                        push({'t': 'binop', 'sel': 'add', 'a': t2, 'b': d_} if r.random() < 0.6 else {'t': 'binop', 'sel': 'add', 'a': d_, 'b': t2})
                elif kind == 'sumsum':
                    t1 = push({'t': 'binop', 'sel': 'add', 'a': a, 'b': b})
                    push({'t': 'binop', 'sel': 'add', 'a': t1, 'b': t1})
                elif kind == 'mulmul':
                    # a product whose only consumer is one addition using it for both operands
                    t1 = push({'t': 'binop', 'sel': 'mul', 'a': a, 'b': b})
                    push({'t': 'binop', 'sel': 'add', 'a': t1, 'b': t1})
                elif kind == 'sumN':
                    # Sum3.new / Sum4.new called directly (as Mix does), literal zeros in any position
                    k = r.choice([3, 4])
                    args = [a, b, c, d_][:k]
                    for z in range(k):
                        if r.random() < 0.3:
                            args[z] = ['n', 0, 1]
                    push({'t': 'sum' + str(k), 'args': args})
                elif kind == 'muladd':
                    t1 = push({'t': 'binop', 'sel': 'mul', 'a': a, 'b': b})
                    push({'t': 'binop', 'sel': 'add', 'a': t1, 'b': c} if r.random() < 0.5 else {'t': 'binop', 'sel': 'add', 'a': c, 'b': t1})
                elif kind == 'addneg':
                    t1 = push({'t': 'unop', 'sel': 'neg', 'a': a})
                    push({'t': 'binop', 'sel': 'add', 'a': b, 'b': t1} if r.random() < 0.5 else {'t': 'binop', 'sel': 'add', 'a': t1, 'b': b})
                else:
                    t1 = push({'t': 'unop', 'sel': 'neg', 'a': a})
                    push({'t': 'binop', 'sel': 'sub', 'a': b, 'b': t1} if r.random() < 0.8 else {'t': 'binop', 'sel': 'sub', 'a': t1, 'b': t1})
            elif x < 0.66:
                sel = r.choice(['add'] * 8 + ['sub'] * 4 + ['mul'] * 5 + ['truediv'] + BINOPS_OPAQUE)
                a = pick(0.2)
                b = a if r.random() < 0.12 else pick(0.3)
                if sel == 'truediv' and b[0] == 'n' and b[1] == 0:
                    b = ['n', 2, 1]
                if sel in ('truediv', 'mod', 'floordiv', 'pow'):
                    surely_valid = surely_valid and not (b[0] == 'r')      # a computed 0 divisor is possible
                events.append({'t': 'binop', 'sel': sel, 'a': a, 'b': b})
                vals.append((i, 0))
            elif x < 0.76:
                sel = 'neg' if r.random() < 0.75 else r.choice(UNOPS_OPAQUE)
                events.append({'t': 'unop', 'sel': sel, 'a': pick(0.05)})
                vals.append((i, 0))
            elif x < 0.86:
                events.append({'t': 'madd', 'a': pick(0.05), 'm': pick(0.5), 'c': pick(0.5)})
                vals.append((i, 0))
            elif x < 0.875:
                # a caller-owned, literal-only channel list (silent channels / fixed levels) that is
                # handed, as the same object, to every build of the program
                mode = r.choice(['ar', 'ar', 'kr'])
                nch = r.choice([1, 2, 2, 3])
                chans = [['n', 0, 1] if (mode == 'ar' or r.random() < 0.5) else self.const() for _ in range(nch)]
                events.append({'t': 'out', 'cls': r.choice(['Out', 'ReplaceOut']), 'mode': mode,
                               'bus': ['n', r.randrange(0, 8), 1], 'chans': chans, 'shared': True})
            else:
                mode = 'auto'
                if self.allow_invalid and r.random() < 0.08:
                    mode = r.choice(['ar', 'kr']); surely_valid = surely_valid and mode == 'kr'
                nch = r.choice([1, 1, 1, 2, 3])
                chans = [pick(0.1)]
                if nch > 1:
                    # further channels: literal zeros (-> silence) or signals of a known rate
                    first_known = next((k for k in known if tuple(chans[0][1:]) in known[k]), None) if chans[0][0] == 'r' else None
                    for _c in range(nch - 1):
                        if r.random() < 0.25:
                            chans.append(['n', 0, 1])
                        elif first_known and known[first_known] and r.random() < 0.85:
                            v = r.choice(known[first_known]); chans.append(['r', v[0], v[1]])
                        else:
                            chans.append(pick(0.1)); surely_valid = False
                events.append({'t': 'out', 'cls': r.choice(['Out', 'Out', 'ReplaceOut']), 'mode': mode,
                               'bus': self.const() if r.random() < 0.8 else pick(0.2),
                               'chans': chans})
        # 1-3 outputs over late values
        for _ in range(r.choice([1, 1, 2, 3])):
            if vals:
                v = vals[-1 - min(int(r.expovariate(0.7)), len(vals) - 1)]
                events.append({'t': 'out', 'cls': 'Out', 'mode': 'auto', 'bus': ['n', r.randrange(0, 8), 1],
                               'chans': [['r', v[0], v[1]]]})
        return {'name': f'g{idx}', 'params': params, 'events': events, 'surely_valid': surely_valid}


def model_lines(prog, flags):
    """program -> driver lines; atom flags come from the real classes (impl run)."""
    lines = [f'prog {prog["name"]}']
    params = prog.get('params', [])
    base = 1 if params else 0
    if params:
        lines.append('control kr ' + ' '.join(arg_str(['n', d[0], d[1]])[2:] for _, d in params))
        for k, (n, _) in enumerate(params):
            lines.append(f'pname {n} {k}')
    for j, e in enumerate(prog['events']):
        i = base + j
        t = e['t']
        if t == 'atom':
            f = (flags or {}).get(str(i)) or (flags or {}).get(i)
            if f is None:
                # constructor never ran (an earlier event raised): the model stops at the same error,
                # any consistent flags do
                mod, ctors, nargs, nres = POOL[e['cls']]
                f = {'cls': e['cls'], 'rate': 'ir' if e['ctor'] == 'new' else e['ctor'],
                     'dce': int(e['cls'] in PURE_HINT), 'multi': int(nres > 1 or e['cls'] == 'DC'),
                     'nout': nres or 1, 'isugen': int(nres > 0), 'wf': int(nres == 0), 'check': 'valid',
                     'ret': int(nres > 0)}
            lines.append(' '.join(['atom', f['cls'], f['rate'], str(f['dce']), str(f['multi']), str(f['nout']),
                                   str(f['isugen']), str(f['wf']), str(f.get('ret', 1)), f['check']]
                                  + [arg_str(a) for a in unit_inputs(e['cls'], e['ins'])]))
        elif t == 'localbuf':
            lines.append(f'localbuf {arg_str(e["frames"])} {arg_str(e["channels"])}')
        elif t == 'unop':
            lines.append(f'unop {e["sel"]} {arg_str(e["a"])}')
        elif t == 'binop':
            lines.append(f'binop {e["sel"]} {arg_str(e["a"])} {arg_str(e["b"])}')
        elif t == 'madd':
            lines.append(f'madd {arg_str(e["a"])} {arg_str(e["m"])} {arg_str(e["c"])}')
        elif t in ('sum3', 'sum4'):
            lines.append(t + ' ' + ' '.join(arg_str(a) for a in e['args']))
        elif t == 'out':
            lines.append(' '.join(['out', e['cls'], e['mode'], arg_str(e['bus'])] + [arg_str(a) for a in e['chans']]))
    lines.append('end')
    return lines


def run_model(progs, impl_outs):
    """two output lines per program: the model's compilation (with the validator's verdict on
    the model's own output, V=1/0) and the validator's verdict on the REAL bytes."""
    lines = []
    for p, o in zip(progs, impl_outs):
        lines += model_lines(p, (o or {}).get('flags'))
        if o and o.get('hex') and not o.get('skip'):
            lines.append(f'validate {o["hex"]} {o.get("origins", "")}')
        else:
            lines.append('validate -')
    out, err = common.run_driver('Sc3Verif/C01/Driver.lean', lines)
    if out is None:
        raise RuntimeError('driver failed: ' + err)
    if len(out) != 2 * len(progs):
        raise RuntimeError(f'driver returned {len(out)} lines for {len(progs)} programs')
    res = []
    for i, o in enumerate(impl_outs):
        m, v = out[2 * i], out[2 * i + 1]
        selfv = None
        if m.startswith('OK') and ' V=' in m:
            m, selfv = m.rsplit(' V=', 1)
        if o is not None:
            o['validator_real'] = v
            o['validator_model'] = selfv
        res.append(m)
    return res


# what each Python operator form on unit generators x, y MEANS: (unit class, server operator, inputs)
_B, _U = 'BinaryOpUGen', 'UnaryOpUGen'
PYOP_REF = {
    'neg': (_U, 'neg', ['x']), 'abs': (_U, 'abs', ['x']), 'invert': (_U, 'bitNot', ['x']),
    'round1': (_B, 'round', ['x', '1']), 'round_q': (_B, 'round', ['x', '1/2']),
    'floor': (_U, 'floor', ['x']), 'ceil': (_U, 'ceil', ['x']), 'trunc': (_B, 'trunc', ['x', '1']),
    'add': (_B, '+', ['x', 'y']), 'sub': (_B, '-', ['x', 'y']), 'mul': (_B, '*', ['x', 'y']),
    'truediv': (_B, '/', ['x', 'y']), 'floordiv': (_B, 'div', ['x', 'y']), 'mod': (_B, 'mod', ['x', 'y']),
    'pow': (_B, 'pow', ['x', 'y']), 'lshift': (_B, 'leftShift', ['x', 'y']), 'rshift': (_B, 'rightShift', ['x', 'y']),
    'and': (_B, 'bitAnd', ['x', 'y']), 'or': (_B, 'bitOr', ['x', 'y']), 'xor': (_B, 'bitXor', ['x', 'y']),
    'lt': (_B, '<', ['x', 'y']), 'le': (_B, '<=', ['x', 'y']), 'gt': (_B, '>', ['x', 'y']), 'ge': (_B, '>=', ['x', 'y']),
    'eq': (_B, '==', ['x', 'y']), 'ne': (_B, '!=', ['x', 'y']),
    'radd': (_B, '+', ['3', 'x']), 'rsub': (_B, '-', ['3', 'x']), 'rmul': (_B, '*', ['3', 'x']),
    'rtruediv': (_B, '/', ['3', 'x']), 'rfloordiv': (_B, 'div', ['3', 'x']), 'rmod': (_B, 'mod', ['3', 'x']),
    'rpow': (_B, 'pow', ['3', 'x']), 'rlshift': (_B, 'leftShift', ['3', 'x']), 'rrshift': (_B, 'rightShift', ['3', 'x']),
    'rand': (_B, 'bitAnd', ['3', 'x']), 'ror': (_B, 'bitOr', ['3', 'x']), 'rxor': (_B, 'bitXor', ['3', 'x']),
    # 3 < x is x > 3 (Python reflects comparisons), commutative forms may also keep the written order
    'rlt': (_B, '>', ['x', '3']), 'rle': (_B, '>=', ['x', '3']), 'rgt': (_B, '<', ['x', '3']), 'rge': (_B, '<=', ['x', '3']),
}
PYOP_ALT = {'rlt': (_B, '<', ['3', 'x']), 'rle': (_B, '<=', ['3', 'x']), 'rgt': (_B, '>', ['3', 'x']), 'rge': (_B, '>=', ['3', 'x']),
            'radd': (_B, '+', ['x', '3']), 'rmul': (_B, '*', ['x', '3'])}


class Check(common.Check):
    PROP = 'C01'
    LEAN_TARGETS = ['Sc3Verif.C01.Props']
    LEAN_DIRS = ['Sc3Verif/C01']
    THEOREMS = ['Sc3Verif.C01.' + t for t in (
        'opcode_table', 'every_alias_same_index', 'class_flags_table', 'binopPlan_sound', 'mulAddPlan_sound',
        'sum3Plan_sound', 'sum4Plan_sound', 'sum_inputs_permuted', 'determineRate_is_max',
        'listRate_is_max', 'validate_sound', 'poly_isZero_sound')]
    N_QUICK = 500
    N_THOROUGH = 12000
    ASSUMPTIONS = [
        'Python numbers idealised as rationals; generator uses values exact in binary32',
        'unit-generator classes are opaque atoms characterised by flags read from the real classes '
        '(purity, multi-out, width-first, input check kind)',
        'scsynth interprets opcodes as in tools/opcodes_ref.py / Spec.lean (transcribed from Opcodes.h)']

    def regen(self):
        return c01_regen.regen()

    def rule(self):
        return ('typed random DAGs of 1-40 constructor events (atoms from an 18-class pool incl. pure, impure, '
                'multi-out, width-first; +,-,*,/ and opaque operators; neg; madd; Out/ReplaceOut ar/kr), 0-3 '
                'control parameters, constants from {0,+-1,+-2,1/2,...}, heavy sharing (same value twice in one '
                'operator 12%), dead sub-graphs, 1-3 final outputs. Non-trivial: program compiled and the '
                'optimiser or a constructor shortcut changed the graph (emitted definition contains Sum3/Sum4/'
                'MulAdd or fewer units than events). Distinct by program text.')

    def gen(self, rng, n):
        g = GraphGen(rng)
        return [g.program(i) for i in range(n)]

    def extra_static(self):
        """each operator carries the server opcode of that operator: probe every operator of the
        reference table through the real constructors"""
        if self.PROP != 'C01':
            return []
        from tools import opcodes_ref
        res, err = common.run_impl('c01', 'opcode_probe', {'mode': 'nrt'}, timeout=600)
        if res is None:
            self.notes.append('opcode probe failed: ' + err[-300:])
            return []
        out = (self.class_table_static() + self.pyop_static() + self.rate_sweep_static() + self.mix_static()
               + self.method_static())
        self._opcode_probe = len(res)
        for arity, name, got in res:
            want = (opcodes_ref.UNARY if arity == 'unary' else opcodes_ref.BINARY).index(name)
            if got != want:
                out.append({'what': f'{arity} operator {name!r} is emitted with special index {got}, the server opcode is {want}',
                            'signature': f'c01:opcode:{arity}:{name}', 'case': {'operator': name, 'arity': arity}})
        return out

    def rate_sweep_static(self):
        """every other unit runs at the rate it was created with: for every unit class that can be
        constructed without arguments (or with one signal), the unit in the emitted definition carries the
        rate of the constructor used (.ar audio, .kr control, .ir scalar, .dr demand)"""
        sw, err = common.run_impl('c01', 'class_sweep', {'mode': 'nrt'}, timeout=900)
        if sw is None:
            self.notes.append('class sweep failed: ' + err[-300:])
            return []
        self._rate_sweep = len(sw)
        out = []
        # every well-formed graph function compiles: the constructor forms (default arguments, or one signal)
        # that compile on the reference tree still compile
        import json as _json
        order = {'none': 0, 'sig': 1, 'buf': 2, 'chain': 3}
        ref = {(a, b): c for a, b, c in _json.loads((common.VERIF / 'harness/c01_sweep_ref.json').read_text())}
        now = {(r[0], r[1]): r[2] for r in sw}
        for (name, ctor), kind in sorted(ref.items()):
            got = now.get((name, ctor))
            if got is None or order.get(got, 9) > order.get(kind, 9):
                form = {'none': 'with its default arguments', 'sig': 'with one signal of its own rate',
                        'buf': 'with a local buffer', 'chain': 'with an FFT chain'}[kind]
                out.append({'what': f'{name}.{ctor}(…) {form} no longer compiles',
                            'signature': f'c01:valid-rejected:{name}', 'case': {'class': name, 'ctor': ctor, 'args': kind}})
        for name, ctor, argkind, status, want, rates in sw:
            if status == 'ok' and want is not None and rates and any(r != want for r in rates):
                out.append({'what': f'{name}.{ctor}(...) is emitted with rate {rates}, created at rate {want}',
                            'signature': f'c01:created-rate:{name}', 'case': {'class': name, 'ctor': ctor}})
        return out

    def method_static(self):
        """each operator carries the server opcode of that operator, also when requested through the
        method of that name on a unit generator or the function of that name in sc3.base.builtins"""
        res, err = common.run_impl('c01', 'method_probe', {'mode': 'nrt'}, timeout=600)
        if res is None:
            self.notes.append('operator method probe failed: ' + err[-300:])
            return []
        self._method_probe = len(res)
        out = []
        for arity, name, cand, entry, st, ops, idx in res:
            cls = _U if arity == 'unary' else _B
            form = f'x.{cand}(…)' if entry == 'method' else f'builtins.{cand}(x…)'
            if st == 'EXC':
                out.append({'what': f'{form} on a unit generator is refused ({ops}); it names the server operator {name!r} (index {idx})',
                            'signature': f'c01:operator-entry-refused:{cand}:{entry}', 'case': {'operator': name, 'entry': entry, 'name': cand}})
            elif ops != [[cls, idx]]:
                out.append({'what': f'{form} on a unit generator is emitted as {ops}; it names the server operator {name!r} = [{cls}, {idx}]',
                            'signature': f'c01:operator-entry:{cand}:{entry}', 'case': {'operator': name, 'entry': entry, 'name': cand}})
        return out

    def mix_static(self):
        """fused sum units built by the mixing pseudo unit: Mix.new of 1..40 sources is the sum of all of
        them, each source once; infinite constants are legitimate operands"""
        res, err = common.run_impl('c01', 'mix_probe', {'mode': 'nrt'}, timeout=600)
        if res is None:
            self.notes.append('mix probe failed: ' + err[-300:])
            return []
        self._mix_probe = len(res)
        return [{'what': (f'Mix.new of {n} sources: {st}' if isinstance(n, int) else f'infinite constant operand ({n}): {st}'),
                 'signature': f'c01:mix:{n}', 'case': {'mix': n}} for n, st in res if st != 'ok']

    def pyop_static(self):
        """Python's operator protocol (unary, binary, reflected, builtins round/abs/floor/ceil/trunc) on unit
        generators: the emitted operator unit carries the server opcode of the operator the expression means,
        wired to the operands in the written order"""
        from tools import opcodes_ref
        res, err = common.run_impl('c01', 'pyop_probe', {'mode': 'nrt'}, timeout=600)
        if res is None:
            self.notes.append('operator protocol probe failed: ' + err[-300:])
            return []
        self._pyop_probe = len(res)
        out = []
        for form, cls, sp, ins in res:
            if form == 'pos':
                ok = cls == 'EXC' or (cls == 'NONE' and ins == ['x'])     # unary plus: identity, or refused
                got = (cls, sp, ins)
            else:
                name = None
                if cls == _U and isinstance(sp, int) and 0 <= sp < len(opcodes_ref.UNARY): name = opcodes_ref.UNARY[sp]
                if cls == _B and isinstance(sp, int) and 0 <= sp < len(opcodes_ref.BINARY): name = opcodes_ref.BINARY[sp]
                got = (cls, name if name is not None else sp, ins)
                ok = got == PYOP_REF[form] or (form in PYOP_ALT and got == PYOP_ALT[form])
            if not ok:
                out.append({'what': f'Python operator form {form!r} on unit generators is emitted as {got}; it means {PYOP_REF.get(form)}',
                            'signature': f'c01:pyop:{form}', 'case': {'form': form}})
        return out

    def class_table_static(self):
        """only side-effect-free units may be dropped / units with ordering side effects come first:
        the class table of the code against the reference; for every class that differs, a directed
        definition with one such unit is built and the emitted bytes are inspected."""
        res, err = common.run_impl('c01', 'class_probe', {'mode': 'nrt'}, timeout=600)
        if res is None:
            self.notes.append('class probe failed: ' + err[-300:])
            return []
        ref = c01_regen.class_ref()
        self._class_probe = len(res)
        diff = {k: [res[k][0] if k in res else 9, res[k][1] if k in res else 9] for k in ref
                if k not in res or res[k][:2] != ref[k]}
        if not diff:
            return []
        self.notes.append(f'class table differs from the reference for {sorted(diff)}')
        wit, err = common.run_impl('c01', 'class_witness', {'mode': 'nrt', 'classes': diff, 'ref': {k: ref[k] for k in diff}}, timeout=900)
        out = []
        for k, w in (wit or {}).items():
            if w.get('violation'):
                out.append({'what': w['violation'], 'signature': f'c01:class-flag:{k}', 'case': w.get('case')})
        return out

    def impl(self, cases):
        res, err = common.run_impl('c01', 'run', {'cases': cases, 'mode': 'nrt'}, timeout=3000)
        if res is None:
            self.notes.append(err)
        self._impl_outs = res
        return res

    def model(self, cases):
        return run_model(cases, self._impl_outs)

    def compare(self, case, io, mo):
        if io.get('skip'):
            return None
        canon = io['canon']
        if canon.startswith('ERR'):
            want = mo if mo.startswith('ERR') else mo[:40]
            return None if canon == mo else {'impl': canon, 'model': want, 'detail': io.get('detail')}
        if canon != mo:
            return {'impl': canon[:600], 'model': mo[:600]}
        if io.get('validator_model') == '0':
            return {'model_output_rejected_by_validator': mo[:300]}
        return None

    def oracle(self, case, io):
        if io.get('sem') and not io['sem'].get('signature', '').startswith('c02:'):
            return io['sem']
        # the verified validator (Lean, theorem validate_sound) rejects the REAL emitted definition
        if io.get('validator_real', '').startswith('INVALID') and io['canon'].startswith('OK') and not io.get('skip'):
            return {'what': 'the verified translation validator rejects the emitted definition: '
                            + io['validator_real'], 'signature': 'c01:validator'}
        if io['canon'].startswith('ERR') and case.get('surely_valid') and not io.get('skip'):
            return {'what': f'well-formed graph function did not compile: {io["canon"]} {io.get("detail", "")}',
                    'signature': 'c01:valid-rejected:' + io['canon'][4:]}
        return None

    def nontrivial(self, case, io):
        if not io['canon'].startswith('OK'):
            return False
        cl = io.get('classes', [])
        return any(c in cl for c in ('Sum3', 'Sum4', 'MulAdd')) or io.get('nunits', 0) < len(case['events'])

    def histogram(self, cases, outs):
        h = {}
        for c, o in zip(cases, outs):
            k = 'ok' if o['canon'].startswith('OK') else o['canon']
            h[k] = h.get(k, 0) + 1
            if o.get('skip'):
                h['skip:' + o['skip']] = h.get('skip:' + o['skip'], 0) + 1
            for cl in o.get('classes', []):
                if cl in ('Sum3', 'Sum4', 'MulAdd', 'UnaryOpUGen', 'BinaryOpUGen', 'DC', 'Control'):
                    h['has:' + cl] = h.get('has:' + cl, 0) + 1
        h['events_total'] = sum(len(c['events']) for c in cases)
        h['real_output_certified_by_validator'] = sum(1 for o in outs if o.get('validator_real') == 'VALID')
        h['model_output_certified_by_validator'] = sum(1 for o in outs if o.get('validator_model') == '1')
        h['validator_skipped_polynomials_too_large'] = sum(1 for o in outs if str(o.get('validator_real', '')).startswith('SKIP'))
        # sizes of the static probes of this run (operators, class table, operator protocol forms, class sweeps ...)
        for k in ('_opcode_probe', '_class_probe', '_pyop_probe', '_rate_sweep', '_desc_probe', '_class_sweep',
                  '_srfirst_probe', '_invalid_sweep', '_mix_probe', '_method_probe'):
            if hasattr(self, k):
                h['static' + k] = getattr(self, k)
        h['demand_blocks'] = sum(1 for c in cases if any(e.get('cls') == 'Duty' for e in c['events']))
        h['direct_sum_events'] = sum(1 for c in cases for e in c['events'] if e['t'] in ('sum3', 'sum4'))
        return h

    def shrink(self, case, fails):
        evs = case['events']

        def sub(keep):
            # drop events, remapping references; references to dropped events become constants
            base = 1 if case.get('params') else 0
            kept = [i for i in range(len(evs)) if i in keep]
            remap = {base + old: base + new for new, old in enumerate(kept)}

            def ra(a):
                if a[0] == 'r' and a[1] >= base:
                    return ['r', remap[a[1]], a[2]] if a[1] in remap else ['n', 3, 1]
                return a
            out = []
            for i in kept:
                e = json.loads(json.dumps(evs[i]))
                for k in ('a', 'b', 'm', 'c', 'bus'):
                    if k in e:
                        e[k] = ra(e[k])
                for k in ('ins', 'chans', 'args'):
                    if k in e:
                        e[k] = [ra(a) for a in e[k]]
                out.append(e)
            return dict(case, events=out)

        idx = common.shrink_list(list(range(len(evs))), lambda keep: fails(sub(set(keep))))
        return sub(set(idx))
