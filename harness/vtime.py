"""
harness/vtime.py — deterministic virtual-time driver for the REAL clock threads of sc3 (RT mode).

What it does
------------
`boot()` (or `install()` + `sc3.init('rt')`) replaces, *from outside* and before the library is
initialised,

  * `sc3.base.clock.threading`      by a shim whose `Condition`, `Thread` and `RLock` are virtual
                                     (everything else is delegated to the real `threading`),
  * `RtMain._main_lock`             by a virtual re-entrant lock (`VRLock`),
  * `RtMain.elapsed_time`           by `lambda: vt.now` (virtual physical time, a float),

so that the *unmodified* `SystemClock._run`, `AppClock._run`, `TempoClock._run`, `sched`, `clear`,
`stop` … run on real OS threads, but **exactly one of them runs at a time** (baton passing), time
only moves when the harness says so, and the harness (the *driver* = the thread that called
`install`) chooses who wakes, when, and how late.  A thread can only be switched out at a *park
point*: `Condition.wait`, `Thread.join`, a contended `VRLock.acquire`, thread start, thread exit,
and — only if asked for with `vt.preempt` — right after the final release / first acquire of a
`VRLock` (this makes windows such as "between `with lock:` blocks" reachable).

Python's `Condition`/`RLock` semantics are *assumed* (wait releases atomically and re-acquires,
notify(n) wakes the n longest waiters, a woken waiter returns True, a timed-out one False).

API (stable; used read-only by other checks)
--------------------------------------------
    from harness import vtime
    vt = vtime.boot(start=100.0, epoch=1_700_000_000.0)   # install + sc3.init('rt','ERROR') + settle
    # or: vt = vtime.install(start=...); sc3.init('rt', 'ERROR'); vt.settle()

    vt.now                      virtual physical time (float).  main.elapsed_time() returns it.
    vt.advance(dt) / vt.advance_to(t)     move time forward; nobody runs.
    vt.settle(pick=None)        run every thread that can run without time passing (new threads,
                                notified waiters, finished joins, freed locks, preempted threads),
                                one slice at a time, until all are parked.  `pick(list_of_recs)`
                                may choose which runnable thread goes next (default: the one that
                                became runnable first).  Returns the number of slices run.
    vt.step(rec_or_label)       run ONE slice of that thread if it can run now (see runnable); -> bool.
    vt.runnable()               recs that `settle` could run now.
    vt.sleepers()               recs parked in a *timed* wait and not notified (see rec.deadline).
    vt.waiting()                recs parked in any `Condition.wait`.
    vt.next_deadline()          earliest deadline among sleepers, or None.
    vt.wake(rec_or_label, reason='timeout'|'spurious')
                                resume ONE parked waiter now and run it until it parks again.
                                'timeout' requires `vt.now >= rec.deadline` (never early);
                                'spurious' makes `wait` return without notification or timeout.
    vt.run_until(t, late=0, pick=None)
                                standard policy: settle; repeatedly wake the sleeper whose
                                (deadline + lateness) is smallest and <= t at that instant, settle;
                                finally advance to t.  `late` is a number or `late(rec) -> seconds>=0`
                                (evaluated once per wait).
    vt.drain(limit, late=0)     run_until(limit) but stop as soon as nothing is runnable or sleeping;
                                returns True if the system went idle.
    vt.spawn(fn, name)          start an extra virtual thread running `fn()` (e.g. "the OSC thread");
                                it runs at the next settle.
    vt.pause()                  called BY a virtual thread (e.g. from inside a task): park right here,
                                keeping every lock it holds, until the driver steps it again (state
                                'preempt'); makes "a routine is in the middle of a long step" scriptable.
    vt.thread(label)            rec by label.  rec.label / .state / .deadline / .timeout / .cond /
                                .notified / .exc (exception that killed the thread) / .done
    vt.label(obj, name)         give a Condition / lock a stable name for the log.
    vt.log                      list of events (tuples), `vt.clear_log()`:
                                  ('start', thread)              ('exit', thread) ('died', thread, exc)
                                  ('wait', thread, cond, timeout, now)
                                  ('notify', by, cond, (woken...), now)
                                  ('wake', thread, reason, now)  reason: notify|timeout|spurious|start|
                                                                          lock|join|preempt
                                  ('preempt', thread, event, lock)
    vt.preempt                  None or `f(thread_label, event, lock_label) -> bool`, event in
                                {'release', 'acquire'}: park the (virtual) thread at that point.
    vt.set_epoch(unix_secs)     deterministic `_init_time` / OSC time offset.
    vt.shutdown()               stop the clock threads (also done atexit by sc3 itself).

The driver thread may itself call blocking operations on virtual objects (`join`, contended
acquire, `wait`): it then runs the other threads until the operation can complete; if nothing can
run it advances time to the next deadline (`vt.auto_late` lateness) or raises `Deadlock`.

Thread labels: the thread name with ` id: <address>` replaced by `#k` (k-th thread with that base
name), e.g. 'SystemClock', 'AppClock', 'TempoClock#0', 'TempoClock.stop_thread#0'.
"""
import re
import threading as _th
import time as _time

__all__ = ['boot', 'install', 'Kernel', 'VTimeError', 'Deadlock', 'VRLock', 'VCondition']


class VTimeError(RuntimeError):
    pass


class Deadlock(VTimeError):
    pass


class _Rec:
    """Book-keeping for one virtual thread (or the driver)."""

    def __init__(self, label, thread=None):
        self.label = label
        self.thread = thread
        self.sem = _th.Semaphore(0)
        self.state = 'new'        # new|running|wait|lock|join|preempt|done|driver
        self.cond = None          # VCondition being waited on
        self.timeout = None
        self.deadline = None
        self.wake_at = None       # chosen by run_until (deadline + lateness)
        self.notified = False
        self.reason = None
        self.lock = None
        self.join_target = None
        self.ready_seq = 0
        self.exc = None
        self.slices = 0

    @property
    def done(self):
        return self.state == 'done'

    def __repr__(self):
        return f'<vthread {self.label} {self.state}>'


class VRLock:
    """Re-entrant lock whose contention is resolved by the kernel (a virtual thread that finds it
    taken parks; the driver runs the others).  Threads unknown to the kernel ("foreign": the OSC
    receive thread, logging) use the underlying real RLock directly."""

    def __init__(self, kernel, name=None):
        self._k = kernel
        self._real = _th.RLock()
        self._owner = None
        self._count = 0
        kernel._name(self, name, 'lock')

    def _who(self):
        me = self._k._me()
        return me if me is not None else ('foreign', _th.get_ident())

    def acquire(self, blocking=True, timeout=-1, _hook=True):
        k = self._k
        me = k._me()
        if me is None:
            ok = self._real.acquire(blocking, timeout)
            if ok:
                self._owner = ('foreign', _th.get_ident())
                self._count += 1
            return ok
        while True:
            if self._real.acquire(False):
                first = self._count == 0
                self._owner = me
                self._count += 1
                if first and _hook:
                    k._preempt_point(me, 'acquire', self)
                return True
            if not blocking:
                return False
            k._block_on_lock(me, self)

    def release(self, _hook=True):
        me = self._who()
        if self._owner != me or self._count == 0:
            raise RuntimeError('cannot release un-acquired lock')
        self._count -= 1
        last = self._count == 0
        if last:
            self._owner = None
        self._real.release()
        if last and _hook and not isinstance(me, tuple):
            self._k._preempt_point(me, 'release', self)

    __enter__ = acquire

    def __exit__(self, *a):
        self.release()

    def locked(self):
        return self._count > 0

    def _is_owned(self):
        return self._count > 0 and self._owner == self._who()

    def _release_save(self):
        n = self._count
        for _ in range(n):
            self.release(_hook=False)
        return n

    def _acquire_restore(self, n):
        for _ in range(n):
            self.acquire(_hook=False)


class VCondition:
    def __init__(self, kernel, lock=None, name=None):
        self._k = kernel
        if lock is None:
            lock = VRLock(kernel)
        elif not isinstance(lock, VRLock):
            raise VTimeError('VCondition needs a VRLock (install vtime before sc3.init)')
        self._lock = lock
        self._waiters = []
        self.acquire = lock.acquire
        self.release = lock.release
        kernel._name(self, name, 'cond')

    def __enter__(self):
        return self._lock.__enter__()

    def __exit__(self, *a):
        return self._lock.__exit__(*a)

    def wait(self, timeout=None):
        k = self._k
        if not self._lock._is_owned():
            raise RuntimeError('cannot wait on un-acquired lock')
        me = k._me()
        if me is None:
            raise VTimeError('a thread unknown to vtime waits on a virtual Condition')
        if timeout is not None and not (timeout <= _th.TIMEOUT_MAX):
            raise OverflowError('timeout value is too large')     # as the real Condition.wait does
        me.cond, me.timeout = self, timeout
        me.deadline = None if timeout is None else k.now + max(timeout, 0)
        me.wake_at = None
        me.notified = False
        me.reason = None
        with k._mx:
            self._waiters.append(me)
        saved = self._lock._release_save()
        k._log('wait', me.label, k.name_of(self), timeout, k.now)
        if me is k.driver:
            k._driver_block(lambda: me.notified, waiter=me)
            me.reason = 'notify' if me.notified else 'timeout'
        else:
            k._park(me, 'wait')
        with k._mx:
            if me in self._waiters:
                self._waiters.remove(me)
        me.cond = me.deadline = me.timeout = None
        self._lock._acquire_restore(saved)
        return me.reason != 'timeout'

    def wait_for(self, predicate, timeout=None):
        end = None if timeout is None else self._k.now + timeout
        res = predicate()
        while not res:
            if end is not None:
                left = end - self._k.now
                if left <= 0:
                    break
                self.wait(left)
            else:
                self.wait()
            res = predicate()
        return res

    def notify(self, n=1):
        k = self._k
        if not self._lock._is_owned():
            raise RuntimeError('cannot notify on un-acquired lock')
        woken = []
        with k._mx:
            while self._waiters and len(woken) < n:
                r = self._waiters.pop(0)
                r.notified = True
                k._seq += 1
                r.ready_seq = k._seq
                woken.append(r.label)
        me = k._me()
        k._log('notify', me.label if me else 'foreign', k.name_of(self), tuple(woken), k.now)

    def notify_all(self):
        self.notify(1 << 30)


class Kernel:
    def __init__(self, start=0.0):
        self.now = start
        self.log = []
        self.preempt = None
        self.auto_late = 0.0
        self.recs = []
        self._by_ident = {}
        self._names = {}
        self._counts = {}
        self._seq = 0
        self._mx = _th.Lock()
        self._driver_sem = _th.Semaphore(0)
        self.driver = _Rec('main')
        self.driver.state = 'driver'
        self._by_ident[_th.get_ident()] = self.driver
        self.current = self.driver
        self._installed = None

    # ---- naming / logging --------------------------------------------------------------
    def _name(self, obj, name, kind):
        if name is None:
            i = self._counts.get(kind, 0)
            self._counts[kind] = i + 1
            name = f'{kind}{i}'
        self._names[id(obj)] = name

    def label(self, obj, name):
        self._names[id(obj)] = name
        return obj

    def name_of(self, obj):
        return self._names.get(id(obj), '?')

    def _log(self, *ev):
        self.log.append(ev)

    def clear_log(self):
        del self.log[:]

    def _thread_label(self, name):
        m = re.match(r'^(.*?) id: \d+$', name)
        if m:
            base = m.group(1)
            i = self._counts.get('T:' + base, 0)
            self._counts['T:' + base] = i + 1
            return f'{base}#{i}'
        if any(r.label == name for r in self.recs):
            i = self._counts.get('T:' + name, 1)
            self._counts['T:' + name] = i + 1
            return f'{name}#{i}'
        return name

    # ---- identity ----------------------------------------------------------------------
    def _me(self):
        return self._by_ident.get(_th.get_ident())

    def thread(self, label):
        if isinstance(label, _Rec):
            return label
        for r in self.recs:
            if r.label == label:
                return r
        raise KeyError(label)

    # ---- baton passing -----------------------------------------------------------------
    def _park(self, me, state):
        """Called by a virtual thread: hand the baton to the driver, sleep until resumed."""
        me.state = state
        self._driver_sem.release()
        me.sem.acquire()

    def _resume(self, r, reason):
        if self._me() is not self.driver:
            raise VTimeError('only the driver thread may schedule virtual threads')
        r.reason = reason
        r.state = 'running'
        r.slices += 1
        self.current = r
        self._log('wake', r.label, reason, self.now)
        r.sem.release()
        self._driver_sem.acquire()
        self.current = self.driver

    def _preempt_point(self, me, event, lock):
        if self.preempt is None or me is self.driver or me.state != 'running':
            return
        if self.preempt(me.label, event, self.name_of(lock)):
            self._log('preempt', me.label, event, self.name_of(lock))
            self._seq += 1
            me.ready_seq = self._seq
            self._park(me, 'preempt')

    def pause(self):
        me = self._me()
        if me is None or me is self.driver:
            raise VTimeError('pause() is for virtual threads')
        self._log('preempt', me.label, 'pause', '')
        self._seq += 1
        me.ready_seq = self._seq
        self._park(me, 'preempt')

    def _block_on_lock(self, me, lock):
        owner = lock._owner
        if isinstance(owner, tuple) or owner is None:      # foreign thread: really wait a little
            _time.sleep(0.0005)
            return
        if me is self.driver:
            self._driver_block(lambda: lock._count == 0)
        else:
            me.lock = lock
            self._seq += 1
            me.ready_seq = self._seq
            self._park(me, 'lock')
            me.lock = None

    def _can_run(self, r):
        s = r.state
        if s in ('new', 'preempt'):
            return True
        if s == 'wait':
            return r.notified
        if s == 'lock':
            return r.lock._count == 0
        if s == 'join':
            return r.join_target.state == 'done'
        return False

    def runnable(self):
        return sorted((r for r in self.recs if self._can_run(r)), key=lambda r: r.ready_seq)

    def waiting(self):
        return [r for r in self.recs if r.state == 'wait']

    def sleepers(self):
        return [r for r in self.recs if r.state == 'wait' and not r.notified and r.deadline is not None]

    def next_deadline(self):
        d = [r.deadline for r in self.sleepers()]
        return min(d) if d else None

    def _run_one(self, pick=None):
        rs = self.runnable()
        if not rs:
            return False
        r = pick(rs) if pick else rs[0]
        reason = {'new': 'start', 'preempt': 'preempt', 'wait': 'notify', 'lock': 'lock',
                  'join': 'join'}[r.state]
        self._resume(r, reason)
        return True

    def step(self, r):
        r = self.thread(r)
        if not self._can_run(r):
            return False
        return self._run_one(lambda rs: r)

    def settle(self, pick=None, max_slices=1000000):
        n = 0
        while self._run_one(pick):
            n += 1
            if n >= max_slices:
                raise VTimeError('settle: too many slices (livelock?)')
        return n

    def _driver_block(self, pred, waiter=None):
        """The driver itself must block until pred(): run the others meanwhile."""
        while not pred():
            if self._run_one():
                continue
            if waiter is not None and waiter.deadline is not None:
                others = [r.deadline for r in self.sleepers() if r is not waiter]
                if not others or min(others) >= waiter.deadline:
                    self.now = max(self.now, waiter.deadline)
                    return
            sl = [r for r in self.sleepers() if r is not waiter]
            if not sl:
                raise Deadlock('driver blocked and no thread can run: ' +
                               ', '.join(map(repr, self.recs)))
            r = min(sl, key=lambda r: (r.deadline, r.ready_seq))
            self.now = max(self.now, r.deadline + self.auto_late)
            self.wake(r, 'timeout', _settle=False)

    # ---- time --------------------------------------------------------------------------
    def advance_to(self, t):
        if t < self.now:
            raise VTimeError(f'time cannot go backwards ({t} < {self.now})')
        self.now = t

    def advance(self, dt):
        self.advance_to(self.now + dt)

    def wake(self, r, reason='timeout', _settle=False):
        r = self.thread(r)
        if r.state != 'wait':
            raise VTimeError(f'{r!r} is not in a wait')
        if reason == 'timeout':
            if r.deadline is None:
                raise VTimeError(f'{r!r} waits without a timeout')
            if self.now < r.deadline:
                raise VTimeError(f'{r!r}: timeout wake-up before its deadline')
        elif reason != 'spurious':
            raise VTimeError('reason must be timeout or spurious')
        if r.notified:
            reason = 'notify'
        with self._mx:
            if r.cond is not None and r in r.cond._waiters:
                r.cond._waiters.remove(r)
        self._resume(r, reason)
        if _settle:
            self.settle()

    def run_until(self, t, late=0, pick=None):
        while True:
            self.settle(pick)
            best = None
            for r in self.sleepers():
                if r.wake_at is None:
                    l = late(r) if callable(late) else late
                    r.wake_at = r.deadline + l
                if r.wake_at <= t and (best is None or (r.wake_at, r.ready_seq) < (best.wake_at, best.ready_seq)):
                    best = r
            if best is None:
                break
            self.now = max(self.now, best.wake_at)
            self.wake(best, 'timeout')
        if t > self.now:
            self.now = t

    def drain(self, limit, late=0, pick=None):
        """run_until(limit) but stop as soon as nothing is runnable or sleeping; True if idle."""
        while True:
            self.settle(pick)
            best = None
            for r in self.sleepers():
                if r.wake_at is None:
                    l = late(r) if callable(late) else late
                    r.wake_at = r.deadline + l
                if best is None or r.wake_at < best:
                    best = r.wake_at
            if best is None:
                return True
            if best > limit:
                return False
            self.run_until(max(best, self.now), late, pick)

    # ---- threads -----------------------------------------------------------------------
    def spawn(self, fn, name='extra'):
        t = self.Thread(target=fn, name=name, daemon=True)
        t.start()
        return t._rec

    def _make_thread_class(k):
        class VThread(_th.Thread):
            _rec = None

            def start(self):
                rec = _Rec(k._thread_label(self.name), self)
                k._seq += 1
                rec.ready_seq = k._seq
                self._rec = rec
                k.recs.append(rec)
                k._log('start', rec.label)
                _th.Thread.start(self)

            def run(self):
                rec = self._rec
                k._by_ident[_th.get_ident()] = rec
                rec.sem.acquire()                       # first baton
                try:
                    _th.Thread.run(self)
                    k._log('exit', rec.label)
                except BaseException as e:              # the thread dies; remembered, not re-raised
                    rec.exc = e
                    k._log('died', rec.label, type(e).__name__)
                finally:
                    rec.state = 'done'
                    k._by_ident.pop(_th.get_ident(), None)
                    k._driver_sem.release()

            def is_alive(self):
                return self._rec is not None and self._rec.state != 'done'

            def join(self, timeout=None):
                rec = self._rec
                if rec is None:
                    raise RuntimeError('cannot join thread before it is started')
                me = k._me()
                if me is rec:
                    raise RuntimeError('cannot join current thread')
                if me is None:
                    while rec.state != 'done':
                        _time.sleep(0.001)
                elif me is k.driver:
                    if timeout is None:
                        k._driver_block(lambda: rec.state == 'done')
                    else:
                        k.settle()
                elif rec.state != 'done':
                    me.join_target = rec
                    k._seq += 1
                    me.ready_seq = k._seq
                    k._park(me, 'join')
                    me.join_target = None
        return VThread

    # ---- installation ------------------------------------------------------------------
    def _install(self):
        import sc3
        if sc3._libsc3_initialized:
            raise VTimeError('vtime must be installed before sc3.init()')
        import sc3.base.main as m
        import sc3.base.clock as c
        k = self
        self.Thread = self._make_thread_class()

        class Shim:
            Thread = k.Thread

            @staticmethod
            def Condition(lock=None):
                return VCondition(k, lock)

            @staticmethod
            def RLock():
                return VRLock(k)

            def __getattr__(self, name):
                return getattr(_th, name)

        self._installed = (m, c, c.threading, m.RtMain._main_lock, m.RtMain.__dict__.get('elapsed_time'))
        c.threading = Shim()
        m.RtMain._main_lock = VRLock(self, 'main_lock')
        m.RtMain.elapsed_time = classmethod(lambda cls: k.now)
        return self

    def uninstall(self):
        if self._installed:
            m, c, thr, lock, et = self._installed
            c.threading = thr
            m.RtMain._main_lock = lock
            m.RtMain.elapsed_time = et
            self._installed = None

    def set_epoch(self, unix_secs):
        import sc3.base.main as m
        from sc3.base.clock import SystemClock
        m.RtMain._init_time = unix_secs
        SystemClock._sched_init()

    def name_clocks(self):
        from sc3.base.clock import SystemClock, AppClock
        self.label(SystemClock._sched_cond, 'sys')
        self.label(AppClock._tick_cond, 'app')
        self.label(AppClock._tick_cond._lock, 'app_lock')

    def shutdown(self):
        from sc3.base.clock import SystemClock, AppClock, TempoClock
        for c in list(TempoClock.all):
            if c._thread is not None and c._thread.is_alive():
                c._stop()
        SystemClock._sched_stop()
        AppClock._stop()


def install(start=0.0):
    """Patch sc3 (not yet initialised) and return the kernel.  Call from the thread that will drive."""
    return Kernel(start)._install()


def boot(start=0.0, epoch=None, verbosity='ERROR', clear=True):
    """install + sc3.init('rt') + let the clock threads reach their first wait."""
    import sc3
    vt = install(start)
    sc3.init('rt', verbosity)
    vt.settle()
    vt.name_clocks()
    if epoch is not None:
        vt.set_epoch(epoch)
    if clear:
        from sc3.base.clock import SystemClock, AppClock
        SystemClock.clear()
        AppClock.clear()
        vt.settle()
        vt.clear_log()
    return vt


def _selftest():
    import warnings
    warnings.filterwarnings('ignore')
    vt = boot(start=100.0, epoch=1700000000.0)
    from sc3.base.clock import SystemClock, AppClock, TempoClock
    from sc3.base import stream as stm
    out = []

    def mk(name, deltas, clock):
        def f():
            for d in deltas:
                out.append((name, clock.seconds, vt.now))
                yield d
            out.append((name, clock.seconds, vt.now))
        return stm.Routine(f)

    SystemClock.sched_abs(101.0, mk('a', [0.5, 0.5], SystemClock))
    vt.run_until(100.5, late=0.002)
    SystemClock.sched_abs(100.75, mk('b', [0.125] * 3, SystemClock))   # ahead of the sleeping head
    t = TempoClock(2.0)
    t.sched(1, mk('t', [1, 1], t))
    AppClock.sched(0.25, lambda: out.append(('app', None, vt.now)))
    vt.run_until(103.0, late=0.002)
    t.stop()
    vt.settle()
    for l in out:
        print(l)
    for e in vt.log:
        print(e)
    assert [x[1] for x in out if x[0] == 'b'] == [100.75, 100.875, 101.0, 101.125]
    assert [x[1] for x in out if x[0] == 'a'] == [101.0, 101.5, 102.0]
    assert [x[1] for x in out if x[0] == 't'] == [101.0, 101.5, 102.0]
    assert not t.running()
    vt.shutdown()
    print('vtime selftest ok')


if __name__ == '__main__':
    _selftest()
