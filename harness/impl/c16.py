"""C16 implementation side: drive the real sc3.synth._engine allocators and, for the partition
cases, a real NRT `Server` with `AudioBus`/`ControlBus`/`Buffer` constructors.

`bi.choice` (the random tie-break of `_find_available`) is replaced by an oracle: the
`k mod len`-th candidate in start-address order, `k` taken from the op line, so the Lean model
(which takes the same `k`) can be compared step by step.  Histories with `k = -1` keep the real
random choice (they are checked by the property oracle only)."""
import copy
import warnings

warnings.filterwarnings('ignore')

_STATE = {'k': None}


def _setup():
    import sc3
    sc3.init('nrt', 'ERROR')
    import sc3.synth._engine as eng
    real_choice = eng.bi.choice

    class BiProxy:
        """stands in for the `bi` module inside _engine only"""
        def __getattr__(self, name):
            return getattr(real_bi, name)

        @staticmethod
        def choice(lst):
            k = _STATE['k']
            if k is None or k < 0:
                return real_choice(lst)
            lst = sorted(lst, key=lambda b: b.start)
            return lst[k % len(lst)]

    real_bi = eng.bi
    eng.bi = BiProxy()
    return eng


def fmt_block(b):
    return f'{b.start}:{b.size}:{"u" if b.used else "f"}'


def dump(a):
    bs = [x for x in a._array if x is not None]
    fs = []
    for size, set_ in a._freed.items():
        fs.append(f'{size}:{{{",".join(str(s) for s in sorted(b.start for b in set_))}}}')
    return f'top={a.top} B=[{",".join(fmt_block(b) for b in bs)}] F=[{";".join(fs)}]'


def free_run_lengths(lo, hi, live, sizes):
    runs, cur = set(), lo
    for x in sorted(live):
        if x > cur:
            runs.add(x - cur)
        cur = max(cur, x + sizes[x])
    if hi > cur:
        runs.add(hi - cur)
    return sorted(runs)


def exc_name(e):
    if isinstance(e, IndexError):
        return 'IndexError'
    if isinstance(e, AttributeError):
        return 'AttributeError'
    return f'EXC:{type(e).__name__}'


def run_cba(eng, case):
    out = []
    try:
        a = eng.ContiguousBlockAllocator(case['size'], case['pos'], case['off'])
        out.append('new ok ' + dump(a))
    except IndexError:
        return ['new IndexError'] + ['no-allocator'] * len(case['ops'])
    live, dead, sizes = [], [], {}

    def do_free(x):
        label = f'free {x}'
        try:
            a.free(x)
        except Exception as e:
            return f'{label} -> {exc_name(e)}'
        if x is not None and x in live:
            live.remove(x)
            if x not in dead:
                dead.append(x)
        return f'{label} -> ok {dump(a)}'

    for line in case['ops']:
        w = line.split()
        if w[0] == 'alloc':
            n, k = int(w[1]), int(w[2])
            _STATE['k'] = k
            try:
                r = a.alloc(n)
            except Exception as e:
                out.append(f'alloc {n} -> {exc_name(e)}')
                continue
            if r is not None:
                live.append(r)
                sizes[r] = n
                if r in dead:
                    dead.remove(r)
            out.append(f'alloc {n} -> {r} {dump(a)}')
        elif w[0] == 'freelive':
            out.append(do_free(live[int(w[1]) % len(live)]) if live else 'skip')
        elif w[0] == 'freedead':
            out.append(do_free(dead[int(w[1]) % len(dead)]) if dead else 'skip')
        elif w[0] == 'freeaddr':
            out.append(do_free(int(w[1])))
        elif w[0] == 'freenone':
            out.append(do_free(None))
        elif w[0] == 'blocks':
            out.append('blocks [' + ','.join(fmt_block(b) for b in a.blocks()) + ']')
        elif w[0] == 'probeall':
            # for every distinct maximal free-run length m of the ledger: alloc(m) on a deep copy
            res = []
            for m in free_run_lengths(a.pos, a.addr_offset + a.size, live, sizes):
                _STATE['k'] = 0
                try:
                    r = copy.deepcopy(a).alloc(m)
                except Exception as e:
                    r = exc_name(e)
                res.append(f'{m}->{r}')
            out.append('probe ' + ' '.join(res))
        else:
            out.append('bad-op')
    return out


def run_nia(eng, case):
    try:
        n = eng.NodeIDAllocator(case['user'], case['init'])
    except Exception:
        return ['nia Exception'] + ['bad-op'] * len(case['counts'])
    out = ['nia ok']
    for c in case['counts']:
        out.append('ids ' + ','.join(str(n.alloc()) for _ in range(c)))
    return out


_SRV_N = [0]


def run_srv(eng, case):
    """Real Server partition arithmetic + real Bus/Buffer constructors (NRT)."""
    from sc3.synth.server import Server, ServerOptions
    from sc3.synth.bus import AudioBus, ControlBus, BusException
    from sc3.synth.buffer import Buffer
    from sc3.base.netaddr import NetAddr
    o = ServerOptions()
    o.max_logins = case['max_logins']
    o.audio_buses = case['audio_buses']
    o.control_buses = case['control_buses']
    o.buffers = case['buffers']
    o.input_channels = case['input_channels']
    o.output_channels = case['output_channels']
    o.reserved_audio_buses = case['reserved_audio_buses']
    o.reserved_control_buses = case['reserved_control_buses']
    o.reserved_buffers = case['reserved_buffers']
    o.initial_node_id = case['initial_node_id']
    _SRV_N[0] += 1
    out = []
    try:
        s = Server(f'c16_{_SRV_N[0]}', NetAddr('127.0.0.1', 57200), o)
        if case.get('login_max_logins') is not None:
            # the '/done /notify <id> <maxLogins>' reply of a server started by someone else
            s._status_watcher._handle_login_done(case['client_id'], case['login_max_logins'])
        else:
            s._set_client_id(case['client_id'])
    except Exception as e:
        return [f'server {exc_name(e)}']
    try:
        for name in ('_control_bus_allocator', '_audio_bus_allocator', '_buffer_allocator'):
            a = getattr(s, name)
            out.append(f'part {a.size} {a.pos - a.addr_offset} {a.addr_offset}')
        out.append(f'node {s._node_allocator.user} {s._node_allocator._init_temp}')
        objs = [[], [], []]          # control, audio, buffer: owners of live blocks, allocation order
        dead = [[], [], []]          # objects already freed once (double free must change nothing)
        for line in case['ops']:
            w = line.split()
            _STATE['k'] = int(w[2]) if len(w) > 2 else 0
            try:
                if w[0] == 'abus':
                    b = AudioBus(int(w[1]), s); objs[1].append(b); out.append(f'abus {b.index}')
                elif w[0] == 'cbus':
                    b = ControlBus(int(w[1]), s); objs[0].append(b); out.append(f'cbus {b.index}')
                elif w[0] == 'buf':
                    n = int(w[1])
                    if n == 1:
                        b = Buffer(16, 1, s); objs[2].append(b); out.append(f'buf {b.bufnum}')
                    else:
                        bs = Buffer.new_consecutive(n, 16, 1, s)
                        objs[2].extend(bs[:1])     # the first one owns the block in the allocator
                        out.append('buf ' + ','.join(str(x.bufnum) for x in bs))
                elif w[0] == 'bufnc':
                    b = Buffer(16, 1, s, cache=False); objs[2].append(b); out.append(f'bufnc {b.bufnum}')
                elif w[0] == 'node':
                    out.append(f'node {s._next_node_id()}')
                elif w[0] == 'free':
                    lst = objs[int(w[1])]
                    if lst:
                        b = lst.pop(int(w[2]) % len(lst))
                        kind = type(b).__name__
                        idx = b.bufnum if kind == 'Buffer' else b.index
                        try:
                            b.free()
                        except Exception as e:
                            out.append(f'free {kind} {idx} RAISED:{type(e).__name__}')
                            continue
                        dead[int(w[1])].append(b)
                        out.append(f'free {kind} {idx}')
                    else:
                        out.append('skip')
                elif w[0] == 'derive':
                    # a SECOND bus object on a live bus's index is created and dropped: the owner keeps its range
                    lst = objs[int(w[1])]
                    if lst and int(w[1]) < 2:
                        import gc
                        owner = lst[int(w[2]) % len(lst)]
                        d = owner.sub_bus(0, owner.channels) if int(w[2]) % 2 else type(owner)(owner.channels, s, owner.index)
                        del d
                        gc.collect()
                        out.append('derive ok')
                    else:
                        out.append('skip')
                elif w[0] == 'refuse':
                    # a constructor call that must be refused: afterwards every allocator is as it was
                    try:
                        if w[1] == 'sendlist':
                            Buffer.new_send_list([0.5, 'x', None], 1, s)
                        elif w[1] == 'loadlist':
                            Buffer.new_load_list([[0.5], 0.25], 1, s)
                        elif w[1] == 'noframes':
                            Buffer(None, 1, s)
                        elif w[1] == 'abus':
                            AudioBus('x', s)
                        else:
                            ControlBus(None, s)
                        res = 'returned'
                    except Exception:
                        res = 'raised'
                    used = [len(getattr(s, n).blocks()) for n in
                            ('_control_bus_allocator', '_audio_bus_allocator', '_buffer_allocator')]
                    out.append(f'refuse {res} #{used[0]},{used[1]},{used[2]}')
                elif w[0] == 'bfreeall':
                    Buffer.free_all(s)
                    objs[2] = []       # the objects are stale now (free_all does not reset them): not used again
                    out.append('bfreeall ok')
                elif w[0] == 'refree':
                    lst = dead[int(w[1])]
                    if lst:
                        lst[int(w[2]) % len(lst)].free()      # second free() of the same object
                        out.append('refree ok')
                    else:
                        out.append('skip')
                else:
                    out.append('bad-op')
            except BusException:
                out.append(f'{w[0]} None')
            except Exception as e:
                msg = str(e)
                if 'consecutive' in msg or 'No more buffer numbers' in msg:
                    out.append(f'{w[0]} None')
                else:
                    out.append(f'{w[0]} {exc_name(e)}')
    finally:
        try:
            Server.remove(s)
        except Exception:
            pass
    return out


def run(payload):
    eng = _setup()
    res = []
    for case in payload['cases']:
        kind = case.get('kind')
        if kind == 'cba':
            res.append(run_cba(eng, case))
        elif kind == 'nia':
            res.append(run_nia(eng, case))
        elif kind == 'srv':
            res.append(run_srv(eng, case))
        else:
            res.append(['bad-case'])
    return res
