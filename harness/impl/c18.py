"""C18 implementation side: drive the real responders / dispatchers / matcher / decoder / registries.

Case kinds (generator in harness/props/c18.py):
  match  {'k','p','a'}             _oscmatch.osc_rematch_pattern(p, a)
  dec    {'k','hex'}               OscPacket(bytes) under a watchdog (a hang is reported as HANG)
  hist   {'k','ops':[...]}         history of responder operations and incoming datagrams
  sysact {'k','ops':[...]}         SystemAction registry (a fresh subclass)
  srvact {'k','ops':[...]}         ServerAction registry (a fresh subclass)
  notif  {'k','ops':[...]}         NotificationCenter

No hooks in sc3: the library runs unmodified in an NRT process; from outside the harness replaces
`SystemClock.sched` (the scheduled dispatch functions are queued and run right after
`_handle_request` returns, each in its own try/except like `SystemClock._run` does),
`main.elapsed_time`, `main.open_udp_port` and uses subclasses of the two default dispatchers that
only record which dispatcher is running.
"""
import signal
import time as _t
from fractions import Fraction

from harness.impl import c06 as c06impl


class Hang(BaseException):
    pass


def _alarm(signum, frame):
    raise Hang()


def guarded(f, *a, secs=10.0):
    signal.signal(signal.SIGALRM, _alarm)
    signal.setitimer(signal.ITIMER_REAL, secs)
    try:
        return 'ok ' + str(f(*a))
    except Hang:
        return 'HANG'
    except Exception as e:
        return 'err ' + type(e).__name__
    finally:
        signal.setitimer(signal.ITIMER_REAL, 0)


_st = {}


def setup():
    if _st:
        return _st
    import warnings
    warnings.filterwarnings('ignore')
    import logging
    import sc3
    sc3.init('nrt', 'ERROR')
    logging.disable(logging.CRITICAL)
    from sc3.base.main import main
    from sc3.base import _osclib as oli
    from sc3.base import _oscinterface as osci
    from sc3.base import _oscmatch as om
    from sc3.base import responders as rp
    from sc3.base import systemactions as sac
    from sc3.base import model as mdl
    from sc3.base import clock as clk
    from sc3.base.netaddr import NetAddr

    queue = []
    clk.SystemClock.sched = classmethod(lambda cls, delta, item: queue.append(item))
    main.open_udp_port = lambda port: None
    cur = [None]

    class Iface(osci.OscInterface):
        def _send(self, msg, target):
            pass

    class TracedExact(rp.OscMessageDispatcher):
        def __call__(self, *a):
            cur[0] = 'E'
            _st['order'].append('E')
            return super().__call__(*a)

    class TracedPattern(rp.OscMessagePatternDispatcher):
        def __call__(self, *a):
            cur[0] = 'P'
            _st['order'].append('P')
            return super().__call__(*a)

    main._osc_interface = Iface(57120)     # the NRT interface ignores add_recv_func; use the base class
    _st.update(main=main, oli=oli, osci=osci, om=om, rp=rp, sac=sac, mdl=mdl, clk=clk, NetAddr=NetAddr,
               queue=queue, cur=cur, Iface=Iface, TracedExact=TracedExact, TracedPattern=TracedPattern,
               order=[])
    return _st


def ip_str(n):
    return '.'.join(str((n >> s) & 255) for s in (24, 16, 8, 0))


PREDS = [lambda x: True, lambda x: False,
         lambda x: isinstance(x, (int, float)) and not isinstance(x, bool) and x > 0,
         lambda x: isinstance(x, str)]


def tmpl_item(j):
    if j is None:
        return None
    if isinstance(j, dict) and 'p' in j:
        return PREDS[j['p']]
    if isinstance(j, dict) and 'f' in j:
        return float.fromhex(j['f'])
    if isinstance(j, dict) and 's' in j:
        return j['s']
    return j          # int / bool


def fmt_time(t):
    fr = Fraction(t)
    return str(fr.numerator) if fr.denominator == 1 else f'{fr.numerator}/{fr.denominator}'


def fmt_params(oli, params, dgram_msg):
    """same text as the C06 formatter; kinds are recovered from the message's own type tags"""
    return c06impl.fmt_msg(oli, dgram_msg).split(';', 1)[1]


def run_hist(c):
    st = setup()
    rp, sac, mdl, osci, clk, main = st['rp'], st['sac'], st['mdl'], st['osci'], st['clk'], st['main']
    # ---- clean slate
    osci.OscInterface._recv_functions.clear()
    rp.OscFunc._all_func_proxies = set()
    rp.OscFunc._default_dispatcher = st['TracedExact']()
    rp.OscFunc._default_matching_dispatcher = st['TracedPattern']()
    sac.CmdPeriod._actions = dict()
    sac.CmdPeriod.clear_clocks = False
    sac.CmdPeriod.free_servers = False
    mdl.NotificationCenter.clear()
    del st['queue'][:]
    st['hook'] = None
    log = []
    funcs, acts, resps = {}, {}, {}

    raisers = set(c.get('raise', []))
    mutators = set(c.get('mutate', []))

    def user_fn(fid):
        if fid not in funcs:
            def f(msg, time, addr, recv_port, _fid=fid):
                log.append((st['cur'][0], _fid, list(msg), time, (addr.addr, addr.port), recv_port))
                if _fid in mutators:                     # a handler that modifies the list it was given
                    how = (_fid + len(msg)) % 3
                    if how == 0:
                        msg.append('mutated')
                    elif how == 1:
                        msg.pop()
                    else:
                        msg[-1] = 'mutated'
                if st.get('hook'):                       # responder operations done by a handler (fused ops)
                    h, st['hook'] = st['hook'], None
                    h()
                if _fid in raisers:                      # a user function that fails while handling the message
                    raise RuntimeError(f'callback {_fid} failed')
            funcs[fid] = f
        return funcs[fid]

    def act_fn(aid):
        if aid not in acts:
            def a(_aid=aid):
                log.append(('A', _aid))
            acts[aid] = a
        return acts[aid]

    udp = {}
    if c.get('udp'):
        import os, socket, threading
        seen = threading.Event()

        def marker(msg, time, addr, recv_port):
            if msg[0] == '/__sync':
                seen.set()
        osci.OscInterface.add_recv_func(marker)
        udp['iface'] = osci.OscUdpInterface(57300 + (os.getpid() * 7) % 2000, port_range=200)
        udp['iface'].start()
        udp['sock'] = socket.socket(socket.AF_INET, socket.SOCK_DGRAM)
        udp['sock'].bind(('127.0.0.1', 0))
        udp['seen'] = seen
        udp['dead'] = False
    try:
        return _run_ops(c, st, resps, user_fn, act_fn, log, udp)
    finally:
        if udp:
            try:
                t0 = _t.monotonic()
                while not udp['iface']._running and _t.monotonic() - t0 < 2.0:
                    _t.sleep(0.001)          # stop() is a no-op before the receive thread has started
                udp['iface'].stop()
            except Exception:
                pass
            udp['sock'].close()
            osci.OscInterface._recv_functions.clear()


def _run_ops(c, st, resps, user_fn, act_fn, log, udp):
    import time as _time
    rp, sac, mdl, osci, clk, main = st['rp'], st['sac'], st['mdl'], st['osci'], st['clk'], st['main']
    out = []
    fuse = {a: b for a, b in c.get('fuse', [])}
    skip = -1
    for idx, op in enumerate(c['ops']):
        o = op[0]
        if idx <= skip:
            continue
        if idx in fuse and not udp:
            skip = fuse[idx]
            out.extend(_recv_fused(st, c['ops'][idx:skip + 1], resps, user_fn, log))
            continue
        try:
            if o == 'new':
                _, rid, kind, path, src, port, tmpl, fid = op
                src_id = _src_id(st, src)
                at = None if tmpl is None else [tmpl_item(x) for x in tmpl]
                ctor = rp.OscFunc if kind == 'E' else rp.OscFunc.matching
                resps[rid] = ctor(user_fn(fid), path, src_id, port, arg_template=at)
                out.append('ok')
            elif o == 'enable':
                resps[op[1]].enable(); out.append('ok')
            elif o == 'disable':
                resps[op[1]].disable(); out.append('ok')
            elif o == 'free':
                resps[op[1]].free(); out.append('ok')
            elif o == 'oneshot':
                resps[op[1]].one_shot(); out.append('ok')
            elif o == 'setfunc':
                resps[op[1]].func = user_fn(op[2]); out.append('ok')
            elif o == 'permanent':
                resps[op[1]].permanent = op[2]; out.append('ok')
            elif o == 'cmdadd':
                sac.CmdPeriod.add(act_fn(op[1])); out.append('ok')
            elif o == 'cmdremove':
                sac.CmdPeriod.remove(act_fn(op[1])); out.append('ok')
            elif o == 'cmdperiod':
                del log[:]
                sac.CmdPeriod.run()
                out.append('actions ' + ','.join(str(x[1]) for x in log if x[0] == 'A'))
            elif o == 'recv':
                _, now, off, port, data, sender = op[:6]
                main.elapsed_time = lambda _now=float.fromhex(now): _now
                clk.SystemClock._elapsed_osc_offset = off
                if udp:
                    out.append(_recv_udp(st, udp, log, bytes.fromhex(data), sender, port))
                    continue
                iface = st['Iface'](port)
                del st['queue'][:]
                del st['order'][:]
                signal.signal(signal.SIGALRM, _alarm)
                signal.setitimer(signal.ITIMER_REAL, 10.0)
                try:
                    iface._handle_request(bytes.fromhex(data), (ip_str(sender[0]), sender[1]))
                except Hang:
                    out.append('HANG'); continue
                except BaseException as e:        # anything escaping into the receiver thread
                    out.append('ESCAPED ' + type(e).__name__); continue
                finally:
                    signal.setitimer(signal.ITIMER_REAL, 0)
                msgs = [_run_item(st, log, item) for item in list(st['queue'])]
                out.append('recv ' + ' || '.join(msgs))
            else:
                out.append('bad-op')
        except Exception as e:
            out.append('err ' + type(e).__name__)
    return out


def _src_id(st, src):
    if src is None:
        return None
    a = st['NetAddr'](ip_str(src[0]), src[1])
    if len(src) > 2:                 # an instance of a NetAddr SUBCLASS with the same host and port
        from sc3.base.netaddr import BundleNetAddr
        a = BundleNetAddr(a, send=False)
    return a


def _resp_op(st, resps, user_fn, op):
    rp = st['rp']
    try:
        if op[0] == 'new':
            _, rid, kind, path, src, port, tmpl, fid = op
            at = None if tmpl is None else [tmpl_item(x) for x in tmpl]
            ctor = rp.OscFunc if kind == 'E' else rp.OscFunc.matching
            resps[rid] = ctor(user_fn(fid), path, _src_id(st, src), port, arg_template=at)
        elif op[0] == 'enable':
            resps[op[1]].enable()
        else:
            return 'bad-op'
        return 'ok'
    except Exception as e:
        return 'err ' + type(e).__name__


def _recv_fused(st, ops, resps, user_fn, log):
    """ops = [recv B1, responder ops..., recv B2] with B1 = bundle(t, [m1]) and B2 = bundle(t, [m2, ...]):
    ONE datagram bundle(t, [m1, m2, ...]) arrives; the responder ops are done by the first handler that m1
    invokes (or, if m1 invokes none, between the dispatch of m1 and of m2).  Documented behaviour: the
    messages of a bundle are dispatched one after the other, a responder enabled before a message is
    dispatched receives it — so the outcome is that of the sequence of ops as written."""
    clk, main = st['clk'], st['main']
    _, now, off, port, d1, sender = ops[0][:6]
    d2 = ops[-1][4]
    data = bytes.fromhex(d1) + bytes.fromhex(d2)[16:]
    main.elapsed_time = lambda _now=float.fromhex(now): _now
    clk.SystemClock._elapsed_osc_offset = off
    iface = st['Iface'](port)
    del st['queue'][:]
    mid = []

    def hook():
        for op in ops[1:-1]:
            mid.append(_resp_op(st, resps, user_fn, op))
    signal.signal(signal.SIGALRM, _alarm)
    signal.setitimer(signal.ITIMER_REAL, 10.0)
    try:
        iface._handle_request(data, (ip_str(sender[0]), sender[1]))
    except Hang:
        return ['HANG'] * len(ops)
    except BaseException as e:
        return ['ESCAPED ' + type(e).__name__] * len(ops)
    finally:
        signal.setitimer(signal.ITIMER_REAL, 0)
    items = list(st['queue'])
    if not items:
        return ['recv '] + ['not-run'] * (len(ops) - 2) + ['recv ']
    st['hook'] = hook
    first = _run_item(st, log, items[0])
    if st['hook']:
        st['hook'] = None
        hook()
    rest = [_run_item(st, log, it) for it in items[1:]]
    return ['recv ' + first] + mid + ['recv ' + ' || '.join(rest)]


def _run_item(st, log, item, norm=None):
    """one scheduled dispatch function (= one incoming message), as SystemClock would run it"""
    del log[:]
    del st['order'][:]
    exc = ''
    try:
        item()
    except Exception as e:          # SystemClock._run: "Always recover."
        exc = type(e).__name__
    groups = []
    for d in st['order']:
        calls = [x for x in log if x[0] == d]
        groups.append(d + ':' + ','.join(str(x[1]) for x in calls))
    recs = [norm(x) for x in log] if norm else log
    pay = sorted({(fmt_pay(st, x)) for x in recs})
    return '[' + ' '.join(groups) + (' !' + exc if exc else '') + '] ' + ' ## '.join(pay)


def _recv_udp(st, udp, log, data, sender, port):
    """the datagram travels from a plain foreign socket to the library's own UDP receive loop
    (`OscUdpInterface._udp_run`); a marker message sent right after it (seen by a function registered with
    the public `add_recv_func`) tells when the loop is through with it.  The ephemeral port numbers are
    replaced by the ones of the case in what the callbacks report."""
    import time as _time
    iface, sock, seen = udp['iface'], udp['sock'], udp['seen']
    real = (sock.getsockname()[1], iface.port)

    def norm(x):
        d, fid, msg, t, snd, rport = x
        return (d, fid, msg, t, (snd[0], sender[1] if snd[1] == real[0] else snd[1]),
                port if rport == real[1] else rport)
    del st['queue'][:]
    seen.clear()
    target = ('127.0.0.1', iface.port)
    sock.sendto(data, target)
    sock.sendto(b'/__sync\x00,\x00\x00\x00', target)
    msgs = []
    deadline = _time.monotonic() + (0.3 if udp['dead'] else 20.0)
    while True:
        while st['queue']:
            item = st['queue'].pop(0)
            txt = _run_item(st, log, item, norm)
            if seen.is_set():
                return 'recv ' + ' || '.join(msgs)
            msgs.append(txt)
        if _time.monotonic() > deadline:
            udp['dead'] = True
            return 'DEAD ' + ' || '.join(msgs)
        _time.sleep(0.0005)


def fmt_pay(st, x):
    """what a callback received: address, params, time, sender, port"""
    _, _fid, msg, time, sender, port = x
    return (','.join(str(ord(ch)) for ch in msg[0]) or '-') + ';' + ' '.join(fmt_plain(v) for v in msg[1:]) \
        + ';' + fmt_time(time) + ';' + f'{sender[0]}:{sender[1]}' + ';' + str(port)


def fmt_plain(v):
    """decoded argument as the callback sees it (no type tags available here: by Python type)"""
    if v is True:
        return 'T'
    if v is False:
        return 'F'
    if isinstance(v, int):
        return f'n{v}'
    if isinstance(v, float):
        if v != v:
            return 'nnan'
        if v in (float('inf'), float('-inf')):
            return 'n' + str(v)
        fr = Fraction(v)
        return f'n{fr.numerator}' if fr.denominator == 1 else f'n{fr.numerator}/{fr.denominator}'
    if isinstance(v, str):
        return 's' + v.encode('utf-8', 'surrogatepass').hex()
    if isinstance(v, (bytes, bytearray)):
        return 'b' + bytes(v).hex()
    if isinstance(v, tuple):
        return 'm' + '.'.join(str(x) for x in v)
    if isinstance(v, list):
        return ' '.join(['['] + [fmt_plain(x) for x in v] + [']'])
    return '?'


# ---- registries ------------------------------------------------------------------------------
def run_sysact(c):
    st = setup()
    sac = st['sac']

    class Reg(sac.CmdPeriod if c.get('cmd') else sac.SystemAction):
        _actions = dict()
        clear_clocks = False       # documented switches of CmdPeriod: only the registry
        free_servers = False

    log, acts = [], {}
    scripts = c.get('scripts', {})

    def once_fn(key, *args):       # ONE function object for every do_once call
        log.append(f'{key}({",".join(str(a) for a in args)})')

    def act(aid):
        if aid not in acts:
            def f(*args, _aid=aid):
                log.append(f'{_aid}({",".join(str(a) for a in args)})')
                for s in scripts.get(str(_aid), []):
                    do(s)
            acts[aid] = f
        return acts[aid]

    def do(op):
        if op[0] == 'add':
            Reg.add(act(op[1]), *op[2])
        elif op[0] == 'remove':
            Reg.remove(act(op[1]))
        elif op[0] == 'removeall':
            Reg.remove_all()
        elif op[0] == 'once':
            Reg.do_once(once_fn, op[1], *op[2])

    out = []
    for op in c['ops']:
        try:
            if op[0] == 'run':
                del log[:]
                Reg.run()
                out.append('run ' + ' '.join(log))
            else:
                do(op); out.append('ok')
        except Exception as e:
            out.append('err ' + type(e).__name__)
    return out


def run_srvact(c):
    st = setup()
    sac = st['sac']
    from sc3.synth import server as srv

    def fresh():
        class Reg(sac.ServerAction):   # a registry of its own, like ServerBoot / ServerQuit / ServerTree
            _servers = dict()
        return Reg
    regs = {0: fresh()}
    Reg = regs[0]

    class FakeServer:
        def __init__(self, n):
            self.n = n
    servers = {}

    def server(k):
        if k in ('default', 'all'):
            return k
        if k not in servers:
            servers[k] = FakeServer(k)
        return servers[k]
    log, acts = [], {}

    def act(aid):
        if aid not in acts:
            def f(server, *args, _aid=aid):
                log.append(f'{_aid}({",".join(str(a) for a in args)})')
            acts[aid] = f
        return acts[aid]
    out = []
    saved_default = srv.Server._default
    try:
        for op in c['ops']:
            try:
                if op[0] == 'sel':                    # go on with another registry (each has its own table)
                    if op[1] not in regs:
                        regs[op[1]] = fresh()
                    Reg = regs[op[1]]; out.append('ok')
                elif op[0] == 'add':
                    Reg.add(server(op[1]), act(op[2]), *op[3]); out.append('ok')
                elif op[0] == 'remove':
                    Reg.remove(server(op[1]), act(op[2])); out.append('ok')
                elif op[0] == 'removeserver':
                    Reg.remove_server(server(op[1])); out.append('ok')
                elif op[0] == 'removeall':
                    Reg.remove_all(); out.append('ok')
                elif op[0] == 'run':
                    del log[:]
                    s = server(op[1])
                    srv.Server._default = s if op[2] else saved_default
                    Reg.run(s)
                    out.append('run ' + ' '.join(log))
            except Exception as e:
                out.append('err ' + type(e).__name__)
    finally:
        srv.Server._default = saved_default
    return out


def run_notif(c):
    st = setup()
    NC = st['mdl'].NotificationCenter
    NC.clear()

    class Obj:
        def __init__(self, n):
            self.n = n
    objs, lst, acts, log = {}, {}, {}, []

    def obj(n):
        return objs.setdefault(n, Obj(n))

    def listener(n):
        return lst.setdefault(n, Obj(n))

    def act(aid):
        if aid not in acts:
            def f(o, msg, l, *args, _aid=aid):
                log.append(f'{_aid}:{l.n}')
            acts[aid] = f
        return acts[aid]
    out = []
    for op in c['ops']:
        try:
            if op[0] == 'register':
                NC.register(obj(op[1]), op[2], listener(op[3]), act(op[4])); out.append('ok')
            elif op[0] == 'oneshot':
                NC.register_one_shot(obj(op[1]), op[2], listener(op[3]), act(op[4])); out.append('ok')
            elif op[0] == 'unregister':
                NC.unregister(obj(op[1]), op[2], None if op[3] is None else listener(op[3])); out.append('ok')
            elif op[0] == 'exists':
                out.append(str(NC.registration_exists(obj(op[1]), op[2], listener(op[3]))))
            elif op[0] == 'notify':
                del log[:]
                try:
                    NC.notify(obj(op[1]), op[2])
                    out.append('notify ' + ' '.join(log))
                except Exception as e:
                    out.append('notify ' + ' '.join(log) + ' !' + type(e).__name__)
            elif op[0] == 'clear':
                NC.clear(); out.append('ok')
        except Exception as e:
            out.append('err ' + type(e).__name__)
    return out


def run_case(c):
    st = setup()
    k = c['k']
    if k == 'match':
        def f():
            return st['om'].osc_rematch_pattern(c['p'], c['a'])
        r = guarded(f)
        if r.startswith('err error'):
            r = 'err re.error'
        return r
    if k == 'dec':
        return guarded(c06impl.fmt_packet, st['oli'], bytes.fromhex(c['hex']))
    if k == 'hist':
        return run_hist(c)
    if k == 'sysact':
        return run_sysact(c)
    if k == 'srvact':
        return run_srvact(c)
    if k == 'notif':
        return run_notif(c)
    return 'bad-kind'


def run(payload):
    return [run_case(c) for c in payload['cases']]
