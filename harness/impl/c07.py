"""C07 implementation side: bundles sent from routines / the main thread with latencies,
(a) in real-time mode under the virtual-time driver with wake-up lateness (datagrams captured at
`OscInterface._send`, then fed back through `_handle_request` to observe the time given to
receive functions), (b) in non-real-time mode (`main.process(tail).list/.raw`).
One process hosts one mode: `run_rt` / `run_nrt`.

Case (JSON): {'tempo': 'p/q', 'main': [[kind, value]...], 'routines': [{'clock': 's'|'t',
 'start': 'p/q', 'steps': [['w','p/q'] | ['b', bundle] | ['m', msg] | ['bind', latency, [msg..], i]]}],
 'late': 'p/q', 'tail': 'p/q'}
`bind`: `server.latency = latency; with server.bind(): server.addr.send_msg(*msg) ...` (message number i, if
any, goes through `server.addr.send_bundle(5, msg)` whose time the proxy discards): one bundle at latency.
Values: null | int | {'f': 'p/q'} | {'s': text} | [..].
"""
import struct
from fractions import Fraction as Fr

_S = {}
SYNC_SERVER_LATENCY = 0.25
EPOCH = 1700000000.625      # deliberately not a whole second (exact in binary64)


def fr(x):
    x = Fr(x)
    return str(x.numerator) if x.denominator == 1 else f'{x.numerator}/{x.denominator}'


def num(s):
    f = Fr(s)
    v = f.numerator / f.denominator
    assert Fr(v) == f, f'not exact in binary64: {s}'
    return v


def pv(j):
    """JSON value -> Python value handed to sc3"""
    if isinstance(j, list):
        return [pv(x) for x in j]
    if isinstance(j, dict):
        if 'f' in j:
            return num(j['f'])
        return j['s']
    return j


def canon(v):
    """Python value found in score.list -> JSON"""
    if isinstance(v, list):
        return [canon(x) for x in v]
    if isinstance(v, bool) or v is None:
        return v
    if isinstance(v, float):
        try:
            return {'f': fr(v)}
        except (ValueError, OverflowError):
            return {'?': 'float:' + repr(v)}
    if isinstance(v, str):
        return {'s': v}
    if isinstance(v, int):
        return v
    return {'?': type(v).__name__ + ':' + repr(v)[:60]}


# ------------------------------------------------------------------------------------------
def setup_rt():
    if _S:
        return _S
    import warnings
    warnings.filterwarnings('ignore')
    from harness import vtime
    vt = vtime.boot(start=64.0, epoch=EPOCH)
    from sc3.base import clock as clk, stream as stm, main as m, netaddr as nad
    main = m.main
    cap = []
    _S.update(vt=vt, clk=clk, stm=stm, main=main, cap=cap, cur=['main', 0])
    S = _S

    def _send(msg, target):
        cap.append(bytes(msg.dgram))
    main._osc_interface._send = _send
    S['addr'] = nad.NetAddr('127.0.0.1', 57110)
    S['offset'] = clk.SystemClock._elapsed_osc_offset
    return S


def do_send(S, who, k, kind, val, t0, log, obj=None):
    main, cap = S['main'], S['cap']
    vt = S.get('vt')
    n = len(cap)
    rec = {'who': who, 'k': k,
           'secs': fr(Fr(main.current_tt._seconds) - Fr(t0)),
           'in_routine': main.current_tt is not main.main_tt}
    if vt is not None:
        rec['now'] = fr(Fr(vt.now) - Fr(t0))
    try:
        v = pv(val) if obj is None else obj
        if kind == 'bind':
            from sc3.synth import server as srv
            server = srv.Server.default
            lat, msgs, inner = v
            old = server.latency
            server.latency = lat
            try:
                with server.bind():
                    for i, m in enumerate(msgs):
                        if i == inner:
                            server.addr.send_bundle(5, m)
                        else:
                            server.addr.send_msg(*m)
            finally:
                server.latency = old
        elif kind == 'clump':
            # an oversize bundle: `send_clumped_bundles` splits it into several datagrams
            lat, count, msg = v
            S['addr'].send_clumped_bundles(lat, *[list(msg) for _ in range(count)])
        elif kind == 'sync':
            # sync(latency, elements) directly on the NetAddr, or through the bundling proxy of bind();
            # its wait for '/synced' is stepped over (nobody answers here); routines only
            via, lat, elements = v
            if via == 'addr':
                for _ in S['addr'].sync(None, lat, elements):
                    pass                      # ('hang': the routine would wait for '/synced' here)
            else:
                from sc3.synth import server as srv
                server = srv.Server.default
                old = server.latency
                server.latency = SYNC_SERVER_LATENCY
                try:
                    with server.bind():
                        server.addr.send_msg('/pre', 1)
                        for _ in server.addr.sync(latency=lat, elements=elements):
                            pass
                finally:
                    server.latency = old
        elif kind in ('b', 'B'):
            S['addr'].send_bundle(v[0], *v[1:])
        else:
            S['addr'].send_msg(*v)
        rec['out'] = ','.join(d.hex() for d in cap[n:]) if len(cap) > n else 'sent'
    except Exception as e:
        rec['out'] = 'EXC:' + type(e).__name__
    log.append(rec)


MULTI = ('bind', 'clump', 'sync')          # steps with several arguments
RT_ONLY = ('clump', 'sync', 'mb')                        # not executed in the non-real-time run


def do_step(S, who, k, st, t0, log, obj=None):
    if st[0] in RT_ONLY and S.get('vt') is None:
        return
    do_send(S, who, k, st[0], st[1:] if st[0] in MULTI else st[1], t0, log, obj=obj)


def seg(S, who, k, t0, log):
    """a task (re)starts here: its logical time and the physical time (AppClock re-schedules from it)"""
    main, vt = S['main'], S.get('vt')
    log.append({'who': who, 'k': k, 'seg': True, 'secs': fr(Fr(main.current_tt._seconds) - Fr(t0)),
                'now': fr(Fr(vt.now) - Fr(t0)) if vt is not None else None})


def make_routine(S, rid, steps, t0, log, fn=False):
    if fn:
        # a plain function task: every awake performs the sends up to the next wait and returns it
        st = {'k': 0, 'shared': None}

        def f():
            seg(S, rid, st['k'], t0, log)
            while st['k'] < len(steps):
                k = st['k']
                s_ = steps[k]
                st['k'] += 1
                if s_[0] == 'w':
                    return num(s_[1])
                if s_[0] == 'B':
                    if s_[1] is not None:
                        st['shared'] = pv(s_[1])
                    do_send(S, rid, k, 'B', s_[1], t0, log, obj=st['shared'])
                else:
                    do_step(S, rid, k, s_, t0, log)
            return None
        f.__qualname__ = f'function{rid}'
        return f

    def gen():
        shared = None
        seg(S, rid, 0, t0, log)
        for k, st in enumerate(steps):
            if st[0] == 'w':
                yield num(st[1])
                seg(S, rid, k + 1, t0, log)
            elif st[0] == 'B':             # the SAME Python object is sent again later
                if st[1] is not None:
                    shared = pv(st[1])
                do_send(S, rid, k, 'B', st[1], t0, log, obj=shared)
            else:
                do_step(S, rid, k, st, t0, log)
    gen.__qualname__ = f'routine{rid}'
    return S['stm'].Routine(gen)


def run_rt_case(c):
    S = setup_rt()
    vt, clk, main = S['vt'], S['clk'], S['main']
    # reset
    vt.settle()
    for t in list(clk.TempoClock.all):
        if t._thread is not None and t._thread.is_alive():
            t._stop()
    clk.SystemClock.clear()
    clk.AppClock.clear()
    vt.settle()
    vt.clear_log()
    del S['cap'][:]
    t0 = float(int(vt.now) + 16)
    vt.advance_to(t0)
    log = []
    tempo = clk.TempoClock(num(c['tempo']))
    vt.settle()
    for k, st in enumerate(c['main']):
        do_step(S, 'main', k, st, t0, log)
    # a far task keeps the AppClock queue non-empty: an awakened task must see ITS time, not the head's
    clk.AppClock.sched(48.0, lambda: None)
    for rid, r in enumerate(c['routines']):
        clock = {'s': clk.SystemClock, 'a': clk.AppClock}.get(r['clock'], tempo)
        clock.sched(num(r['start']), make_routine(S, rid, r['steps'], t0, log, r.get('fn', False)))
    vt.run_until(t0 + 64.0, late=num(c['late']))
    assert vt.now < 4096, 'virtual time too large for exact 2^-40 s arithmetic'
    died = [e for e in vt.log if e[0] == 'died']
    # the receiving side: time handed to receive functions for every captured bundle
    got = []

    def recv(msg, time, addr, port):
        got.append(fr(Fr(time) - Fr(t0)))
    main.add_osc_recv_func(recv)
    recv_times = []
    segs = [r for r in log if 'seg' in r]
    log = [r for r in log if 'seg' not in r]
    for rec in log:
        out = rec.get('out', 'sent')
        if out.startswith('EXC') or out == 'sent' or ',' in out:
            recv_times.append(None)
            continue
        del got[:]
        main._osc_interface._handle_request(bytes.fromhex(out), ('127.0.0.1', 57110))
        vt.run_until(vt.now, late=0)
        recv_times.append(list(got))
    main.remove_osc_recv_func(recv)
    tempo._stop()
    return {'t0': fr(t0), 'offset': S['offset'], 'sends': log, 'segs': segs, 'recv': recv_times,
            'recv_at': fr(Fr(vt.now) - Fr(t0)), 'died': [list(map(str, d)) for d in died]}


def run_rt(payload):
    return [run_rt_case(c) for c in payload['cases']]


# ------------------------------------------------------------------------------------------
def setup_nrt():
    if _S:
        return _S
    import warnings
    warnings.filterwarnings('ignore')
    import sc3
    sc3.init('nrt', 'ERROR')
    from sc3.base import clock as clk, stream as stm, main as m, netaddr as nad
    _S.update(clk=clk, stm=stm, main=m.main, cap=[], addr=nad.NetAddr('127.0.0.1', 57110))
    return _S


def run_nrt_case(c):
    S = setup_nrt()
    clk, main = S['clk'], S['main']
    main.reset()
    log = []
    tempo = clk.TempoClock(num(c['tempo']))
    for k, st in enumerate(c['main']):
        do_step(S, 'main', k, st, 0.0, log)
    for rid, r in enumerate(c['routines']):
        clock = {'s': clk.SystemClock, 'a': clk.AppClock}.get(r['clock'], tempo)
        clock.sched(num(r['start']), make_routine(S, rid, r['steps'], 0.0, log, r.get('fn', False)))
    try:
        score = main.process(num(c['tail']))
        res = {'list': canon(score.list), 'raw': bytes(score.raw).hex(),
               'end': fr(main.main_tt._m_seconds), 'duration': fr(score.duration)}
        # the score file: written twice to a path that earlier scores of this process used too
        try:
            score.write('score.osc')
            score.write('score.osc')
            with open('score.osc', 'rb') as f:
                res['file'] = f.read().hex()
        except Exception as e:
            res['file'] = 'EXC:' + type(e).__name__
    except Exception as e:
        res = {'exc': type(e).__name__ + ':' + str(e)[:200]}
    res['sends'] = [r for r in log if 'seg' not in r]
    main.reset()
    return res


def run_nrt(payload):
    outs = []
    for c in payload['cases']:
        try:
            outs.append(run_nrt_case(c))
        except Exception as e:                 # even the harness part around the library failed
            outs.append({'exc': 'HARNESS:' + type(e).__name__ + ':' + str(e)[:200], 'sends': []})
            try:
                _S['main'].reset()
            except Exception:
                pass
    return outs
