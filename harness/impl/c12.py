"""C12 implementation side: a real sc3 TempoClock in non-real-time mode, driven by one routine."""
from fractions import Fraction


def fr(x):
    """float/int -> 'p/q' exact"""
    if isinstance(x, bool):
        return f'b:{x}'
    if isinstance(x, int):
        return str(x)
    if isinstance(x, float):
        if x != x or x in (float('inf'), float('-inf')):
            return f'x:{x!r}'
        q = Fraction(x)
        return str(q.numerator) if q.denominator == 1 else f'{q.numerator}/{q.denominator}'
    return f'o:{type(x).__name__}'


def pf(s):
    """'p/q' -> float ; '-' -> None"""
    if s == '-':
        return None
    return float(Fraction(s))


def pnum(s):
    """'i:3' -> 3 (int) ; 'f:3/2' -> 1.5 ; '-' -> None"""
    if s == '-':
        return None
    if s.startswith('i:'):
        return int(s[2:])
    return float(Fraction(s[2:]))


def run_case(case, mods):
    main, TempoClock, Quant, routine, Routine = mods
    main.reset()
    lines = case['ops']
    out = [None] * (len(lines) + 1)
    pending = []
    ticks = []

    def snap(clock):
        return ' | ' + ' '.join(fr(v) for v in (
            main.current_tt._seconds, clock.beats, clock._tempo, clock.base_bar_beat,
            clock.beats_per_bar, clock.base_bar))

    start = pf(case.get('start', '0'))
    w = case['init'].split()

    @routine
    def outer():
        if start:
            yield start
        try:
            clock = TempoClock(pf(w[0]), pf(w[1]), pf(w[2]))
        except ValueError:
            out[0] = 'E:ValueError'
            return
        out[0] = 'ok' + snap(clock)

        @routine
        def inner():
            for i, line in enumerate(lines, 1):
                ws = line.split()
                res = 'ok'
                try:
                    if ws[0] == 'wait':
                        yield pf(ws[1])
                    elif ws[0] == 'tempo':
                        clock.tempo = pf(ws[1])
                    elif ws[0] == 'etempo':
                        clock.etempo(pf(ws[1]))
                    elif ws[0] == 'beats':
                        clock.beats = pf(ws[1])
                    elif ws[0] == 'obeats':
                        # the same assignment made from OUTSIDE the clock's routines: the main time thread
                        # (its logical time in NRT is the time of the last wake-up, i.e. now)
                        saved = main.current_tt
                        main.current_tt = main.main_tt
                        try:
                            clock.beats = pf(ws[1])
                        finally:
                            main.current_tt = saved
                    elif ws[0] == 'bpb':
                        clock.beats_per_bar = pf(ws[1])
                    elif ws[0] == 'q':
                        k = ws[1]
                        if k == 'beats':
                            v = clock.beats
                        elif k == 'tempo':
                            v = clock.tempo
                        elif k == 'beatdur':
                            v = clock.beat_dur
                        elif k == 'ebeats':
                            v = clock.elapsed_beats()
                        elif k == 'bar':
                            v = clock.bar()
                        elif k == 'bib':
                            v = clock.beat_in_bar()
                        elif k == 'b2s':
                            v = clock.beats2secs(pf(ws[2]))
                        elif k == 's2b':
                            v = clock.secs2beats(pf(ws[2]))
                        elif k == 'b2bars':
                            v = clock.beats2bars(pf(ws[2]))
                        elif k == 'bars2b':
                            v = clock.bars2beats(pf(ws[2]))
                        elif k == 'invb':
                            v = clock.secs2beats(clock.beats2secs(pf(ws[2])))
                        elif k == 'invs':
                            v = clock.beats2secs(clock.secs2beats(pf(ws[2])))
                        elif k == 'invbars':
                            v = clock.bars2beats(clock.beats2bars(pf(ws[2])))
                        elif k == 'nextbar':
                            v = clock.next_bar(pf(ws[2]))
                        elif k == 'ntog':
                            v = clock.next_time_on_grid(pnum(ws[2]), pnum(ws[3]), pnum(ws[4]))
                        elif k == 'ttnb':
                            # beats + time_to_next_beat(quant): the grid point the clock itself computes
                            v = clock.beats + clock.time_to_next_beat(Quant(pnum(ws[2]), pnum(ws[3])))
                        elif k == 'playbar':
                            snapshot = snap(clock)

                            def make_bar_child(slot, snapshot):
                                def child_fn():
                                    out[slot] = 'v:' + fr(clock.beats) + snapshot     # the beat it is woken at
                                    return
                                    yield
                                return child_fn
                            clock.play_next_bar(routine(make_bar_child(i, snapshot)))
                            pending.append(i)
                            continue
                        elif k == 'playat':
                            slot = i
                            snapshot = snap(clock)

                            def make_child(slot, snapshot):
                                def child_fn():
                                    out[slot] = 'v:' + fr(clock.beats) + snapshot     # the beat it is woken at
                                    return
                                    yield
                                return child_fn
                            # every entry point that takes a quant, every accepted spelling of it
                            via, form = (ws[4].split(':') + ['Q'])[:2] if len(ws) > 4 else ('clock', 'Q')
                            qv, pv = pnum(ws[2]), pnum(ws[3])
                            quant = Quant(qv, pv) if form == 'Q' else ([qv, pv] if form == 'L' else qv)
                            fn_ = make_child(slot, snapshot)
                            if via == 'clock':
                                clock.play(routine(fn_), quant)
                            elif via == 'rplay':
                                routine(fn_).play(clock, quant)
                            elif via == 'rrun':
                                Routine.run(fn_, clock, quant)
                            elif via == 'deco':
                                routine.run(clock, quant)(fn_)
                            elif via == 'resume':
                                child = routine(fn_)
                                child._clock = clock
                                child.pause()
                                child.resume(clock, quant)
                            else:
                                raise KeyError(via)
                            pending.append(slot)
                            continue
                        else:
                            raise KeyError(k)
                        res = 'v:' + fr(v)
                    else:
                        res = 'bad-op'
                except Exception as e:          # mapped to the class name
                    res = f'E:{type(e).__name__}'
                out[i] = res + snap(clock)
        tk = case.get('ticker')
        if tk:
            # an independent routine on the same clock: wakes every `d` beats, `n` times, and reads the beat
            d, n = pf(tk['d']), tk['n']

            @routine
            def ticker():
                for _ in range(n):
                    ticks.append(fr(clock.beats))
                    yield d
            ticker.play(clock, 0)
        inner.play(clock, 0)            # quant 0: start at the current beat (the default Quant is 1)

    outer.play()
    try:
        main.process()
    except Exception:          # building the OSC score can fail (e.g. negative times); the clock has run
        pass
    for i, o in enumerate(out):
        if o is None:
            out[i] = 'none'
    if case.get('ticker'):
        out.append('ticks ' + ' '.join(ticks))
    return out


def run(payload):
    import sc3
    sc3.init('nrt', 'ERROR')
    from sc3.base.main import main
    from sc3.base.clock import TempoClock, Quant
    from sc3.base.stream import routine, Routine
    mods = (main, TempoClock, Quant, routine, Routine)
    return [run_case(c, mods) for c in payload['cases']]


# ---------------------------------------------------------------------------------------------
# real-time mode: play(quant) called from the MAIN thread (outside any routine)
# ---------------------------------------------------------------------------------------------

def run_rt(payload):
    """Real-time mode under the virtual-time driver (harness/vtime.py).  The main time thread's logical
    time is refreshed from the physical clock at EVERY read; to make that visible deterministically
    every read of `main.elapsed_time()` advances the virtual physical time by `tick` seconds.
    For each play: the current beat read before the call, and the beat the task was put in the clock's
    queue at (read from `clock._task_queue`, nothing runs in between)."""
    from harness import vtime
    vt = vtime.boot(start=100.0, epoch=1_700_000_000.0)
    from sc3.base.main import main
    from sc3.base.clock import TempoClock, Quant
    from sc3.base.stream import routine, Routine
    tick = [2.0 ** -14]

    def stepping(cls=None):
        vt.advance(tick[0])
        return vt.now
    main.elapsed_time = stepping
    out = []
    for case in payload['cases']:
        res = {'plays': []}
        try:
            tick[0] = float(Fraction(case.get('tick', '1/16384')))
            vt.advance(float(Fraction(case.get('skip', '0'))))
            clock = TempoClock(pf(case['tempo']), pf(case.get('beats', '-')), None)
            vt.settle()
            res['origin'] = fr(clock.base_bar_beat)
            for q, p, via in case['plays']:
                def body():
                    yield 1
                qv, pv = pnum(q), pnum(p)
                quant = Quant(qv, pv)
                before = clock.beats
                if via == 'clock':
                    task = routine(body)
                    clock.play(task, quant)
                elif via == 'rplay':
                    task = routine(body)
                    task.play(clock, quant)
                elif via == 'rrun':
                    task = Routine.run(body, clock, quant)
                elif via == 'deco':
                    task = routine.run(clock, quant)(body)
                else:
                    task = routine(body)
                    task.pause()
                    task.resume(clock, quant)
                after = clock.beats
                sched = [t for t, x in clock._task_queue if x is task]
                res['plays'].append([fr(before), fr(sched[0]) if len(sched) == 1 else f'E:{len(sched)}-entries',
                                     fr(after)])
            clock.stop()
            vt.settle()
        except Exception as e:
            res['error'] = f'E:{type(e).__name__}: {e}'
        out.append(res)
    return out


# ---------------------------------------------------------------------------------------------
# the pattern player: Pbind(...).play(clock), pause() and resume([quant]) at fractional beats
# ---------------------------------------------------------------------------------------------

def run_pat(payload):
    """NRT.  For each step [a, b, q, p]: a conductor routine on the clock waits `a` beats, pauses the player,
    waits `b` beats (≥ the event duration, so that the wake-up pending from before the pause is gone), reads
    the beat, resumes the player — without a quant when q is '-' — and records the beat of the first
    event produced after that."""
    import sc3
    sc3.init('nrt', 'ERROR')
    from sc3.base.main import main
    from sc3.base.clock import TempoClock, Quant
    from sc3.base.stream import Routine
    from sc3.seq.patterns.eventpatterns import Pbind
    from sc3.seq.patterns.funcpatterns import Pfunc
    res = []
    for case in payload['cases']:
        main.reset()
        out = {'plays': []}
        try:
            clock = TempoClock(pf(case['tempo']))
            seen = []

            def probe(*_):
                seen.append(clock.beats)
                return 1
            pat = Pbind({'probe': Pfunc(probe), 'dur': 1})

            def conductor():
                player = pat.play(clock)
                for a, b, q, p in case['plays']:
                    yield pf(a)
                    player.pause()
                    yield pf(b)
                    before, n = clock.beats, len(seen)
                    if q == '-':
                        player.resume()
                    else:
                        player.resume(quant=Quant(pnum(q), pnum(p)))
                    yield (1 if q == '-' else pnum(q)) + 1
                    out['plays'].append([fr(before), fr(seen[n]) if len(seen) > n else 'none'])
                player.stop()
            Routine(conductor).play(clock, 0)
            try:
                main.process()
            except Exception:
                pass
        except Exception as e:
            out['error'] = f'{type(e).__name__}: {e}'
        res.append(out)
    return res
