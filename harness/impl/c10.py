"""C10 implementation side: the time-model runner of C05 (same programs, both modes)."""
from harness.impl.c05 import run_nrt, run_rt  # noqa: F401
