"""C04 implementation side: build REAL SynthDefs from generated signatures and observe
  * inside the body: which control unit output every parameter receives,
  * the definition bytes (parsed by the independent tools/scgf_c04.py),
  * the `/s_new` message `SynthDef.__call__` produces in NRT mode.

Case (JSON):
  {'top': LEVEL, 'specs': {name: v}|None, 'variants': [[vname, [[cname, v|[v…]], …]], …],
   'call': {'args': [v…], 'kwargs': [[k, v], …]}|None}
  LEVEL = {'params': [{'n': name, 'ann': None|'ir'|'tr'|'ar'|'kr', 'd': ['none']|['None']|['s', v]|['t', [v…]]}],
           'rates': None|[None|'ir'|…|v|[v…]], 'prepend': [v…], 'wraps': [LEVEL…]}
Pure helpers (pre-order, name ids, formatting) are at module level without importing sc3.
"""
import json

SCALE = 1024


def preorder(level):
    out = [level]
    for w in level.get('wraps', []):
        out.extend(preorder(w))
    return out


def level_params(level):
    """parameters that become controls (those not consumed by prepend)"""
    return level['params'][len(level.get('prepend') or []):]


def name_ids(case):
    ids = {}
    for lv in preorder(case['top']):
        for p in lv['params']:
            ids.setdefault(p['n'], len(ids))
    for _, pairs in case.get('variants') or []:
        for cname, _ in pairs:
            ids.setdefault(cname, len(ids))
    for k, _ in ((case.get('call') or {}).get('kwargs') or []):
        ids.setdefault(k, len(ids))
    return ids


def prepend_obj(level):
    """the Python object passed as `prepend`: a list, or (pform) ONE value that is not a list — a bare
    scalar or a tuple — which is one prepended argument"""
    pre = level.get('prepend') or []
    form = level.get('pform')
    if not pre:
        return None
    if form == 'scalar':
        return pre[0]
    if form == 'tuple':
        return tuple(pre[0])
    return list(pre)


def pval(v):
    """text of a value the body received for a prepended parameter"""
    if isinstance(v, (tuple, list)):
        return 't:' + ','.join(sc(x) for x in v)
    if isinstance(v, (int, float)):
        return sc(v)
    return '?'


def sc(v):
    """scaled integer text of a dyadic number"""
    s = v * SCALE
    if s != int(s):
        return repr(float(v))
    return str(int(s))


# ---------------------------------------------------------------------------------------------

_state = {}


def _init():
    if _state:
        return
    import warnings
    warnings.filterwarnings('ignore')
    import logging
    logging.disable(logging.CRITICAL)
    import sc3
    sc3.init('nrt', 'ERROR')
    from sc3.synth import synthdef, ugen, spec
    from sc3.synth.ugens import inout
    from sc3.base.main import main
    import sys
    import os
    sys.path.insert(0, os.path.join(os.path.dirname(os.path.dirname(os.path.dirname(os.path.abspath(__file__)))), 'tools'))
    import scgf_c04
    _state.update(sdf=synthdef, ugn=ugen, spec=spec, iou=inout, main=main, scgf=scgf_c04)


def _param_src(p):
    s = p['n']
    if p.get('annraw'):            # any annotation (type hint, arbitrary string) on a PREPENDED parameter
        s += f": {p['annraw']}"
    elif p.get('ann'):
        s += f": {p['ann']!r}"
    d = p['d']
    if p.get('dsrc'):              # a default that is a bool or an instance of an int/float subclass
        return s + ' = ' + p['dsrc']
    if d[0] == 'none':
        return s
    if d[0] == 'None':
        return s + ' = None'
    if d[0] == 's':
        return s + f' = {d[1]!r}'
    if d[0] == 't':
        return s + ' = (' + ''.join(f'{v!r}, ' for v in d[1]) + ')'
    if d[0] == 'raw':              # malformed stream: arbitrary default expression
        return s + ' = ' + d[1]
    raise ValueError(d)


def make_source(case):
    levels = preorder(case['top'])
    for i, lv in enumerate(levels):
        lv['_id'] = i
    src = []
    for lv in reversed(levels):
        i = lv['_id']
        sig = ', '.join(_param_src(p) for p in lv['params'])
        src.append(f'def fn{i}({sig}):')
        names = ', '.join(f"({p['n']!r}, {p['n']})" for p in lv['params'])
        src.append(f'    REC[{i}] = [{names}]')
        for w in lv.get('wraps', []):
            rsrc = 'SHARED' if case.get('shared_rates') else repr(w.get('rates'))
            src.append(f"    SynthDef.wrap(fn{w['_id']}, rates={rsrc}, prepend={prepend_obj(w)!r})")
        if i == 0:
            src.append('    SNAP()')
        src.append('')
    return '\n'.join(src)


def run_one(case):
    _init()
    sdf, ugn, iou, main = _state['sdf'], _state['ugn'], _state['iou'], _state['main']
    levels = preorder(case['top'])
    ids = name_ids(case)
    rec, snap = {}, []

    first = [True]

    def SNAP():
        if not first[0]:
            return
        sd = main._current_synthdef
        snap.extend(u for u in sd._children if isinstance(u, iou.AbstractControl))
    class MyInt(int):
        pass

    class MyFloat(float):
        pass
    ns = {'SynthDef': sdf.SynthDef, 'REC': rec, 'SNAP': SNAP, 'MyInt': MyInt, 'MyFloat': MyFloat}
    out = {}
    try:
        exec(make_source(case), ns)
    except SyntaxError as e:
        return {'infra': f'generated source does not compile: {e}'}
    kwargs = {}
    top = case['top']
    if top.get('rates') is not None:
        kwargs['rates'] = json.loads(json.dumps(top['rates']))
    # one caller-owned rates object used by the graph function and every wrapped function
    ns['SHARED'] = kwargs.get('rates') if case.get('shared_rates') else None
    if top.get('prepend'):
        kwargs['prepend'] = prepend_obj(top)
    if case.get('specs') is not None:
        smin = case.get('spec_min') or {}
        # named specs (default 0, minval != 0) where the case asks for them, else explicit ControlSpecs
        named = case.get('spec_named') or {}
        specs = {}
        for k, v in case['specs'].items():
            if k in named:
                specs[k] = _state['spec'].spec(named[k]) if hasattr(_state['spec'], 'spec') else \
                    _state['spec'].ControlSpec(-1, 1, default=0)
            else:
                specs[k] = _state['spec'].ControlSpec(smin.get(k, 0), max(1, smin.get(k, 0) + 1), default=v)
        kwargs['metadata'] = {'specs': specs}
    if case.get('variants'):
        kwargs['variants'] = {vn: {cn: vals for cn, vals in pairs} for vn, pairs in case['variants']}
    before = repr([kwargs.get('rates'), kwargs.get('prepend'), kwargs.get('variants')])
    try:
        sd = sdf.SynthDef('c04', ns['fn0'], **kwargs)
    except Exception as e:  # noqa
        return {'exc': type(e).__name__}
    first[0] = False
    rec1 = dict(rec)
    # the caller's argument objects after the build, and a second build from the very same objects
    out['args_after'] = repr([kwargs.get('rates'), kwargs.get('prepend'), kwargs.get('variants')])
    out['args_before'] = before
    try:
        sd2 = sdf.SynthDef('c04', ns['fn0'], **kwargs)
        out['rebuild_same'] = bytes(sd2.as_bytes()) == bytes(sd.as_bytes())
    except Exception as e:  # noqa
        out['rebuild_same'] = 'EXC:' + type(e).__name__
    # the decorator entry point builds the same definition: @synthdef / @synthdef(rates=…, prepend=…, …)
    try:
        fn = ns['fn0']
        fn.__name__ = 'c04'
        sd3 = sdf.synthdef(**kwargs)(fn) if kwargs else sdf.synthdef(fn)
        out['decorator_same'] = bytes(sd3.as_bytes()) == bytes(sd.as_bytes())
    except Exception as e:  # noqa
        out['decorator_same'] = 'EXC:' + type(e).__name__
    finally:
        ns['fn0'].__name__ = 'fn0'
    rec.clear()
    rec.update(rec1)
    # ---- the definition bytes
    try:
        data = bytes(sd.as_bytes())
    except Exception as e:  # noqa
        return {'exc_bytes': type(e).__name__}
    out['nbytes'] = len(data)
    try:
        d = _state['scgf'].parse(data)[0]
    except _state['scgf'].ScgfError as e:
        # lenient second try for diagnostics: how many variant blocks were announced
        return {'parse_error': str(e)}
    out['controls'] = ' '.join(sc(v) for v in d['params'])
    out['names'] = ' '.join(f"{ids.get(n, '?' + n)}:{i}" for n, i in d['pnames'])
    out['names_raw'] = [[n, i] for n, i in d['pnames']]
    ctl_classes = ('Control', 'TrigControl', 'AudioControl', 'LagControl')
    units = [u for u in d['ugens'] if u['cls'] in ctl_classes]
    out['other_units'] = [u['cls'] for u in d['ugens'] if u['cls'] not in ctl_classes]

    def ins(u):
        return ','.join(sc(x[1]) if x[0] == 'c' else f'u{x[1]}.{x[2]}' for x in u['ins'])
    out['units'] = ' '.join(f"{u['cls']}/{u['rate']}/{u['special']}/{len(u['outs'])}/{ins(u)}" for u in units)
    out['unit_outs_rates_ok'] = all(all(o == u['rate'] for o in u['outs']) for u in units)
    # creation order must be the file order
    order_ok = len(snap) == len(units) and all(
        type(s).__name__ == u['cls'] and s._special_index == u['special'] for s, u in zip(snap, units))
    out['order_ok'] = order_ok
    # ---- what the body received

    def proxy(x):
        if isinstance(x, ugn.OutputProxy):
            for k, s in enumerate(snap):
                if s is x.source_ugen:
                    return f'{k}.{x._output_index}'
            return 'p?'
        return f'?{type(x).__name__}'
    args = []
    for lv in levels:
        got = dict(rec.get(lv['_id'], []))
        row = []
        for p in level_params(lv):
            v = got.get(p['n'], 'MISSING')
            if isinstance(v, list):
                row.append('[' + ' '.join(proxy(x) for x in v) + ']')
            else:
                row.append(proxy(v))
        args.append(' '.join(row))
    out['args'] = ' | '.join(args)
    out['prepended'] = [[pval(dict(rec.get(lv['_id'], [])).get(p['n']))
                         for p in lv['params'][:len(lv.get('prepend') or [])]] for lv in levels]
    out['variants'] = [[n, ' '.join(sc(v) for v in vals)] for n, vals in d['variants']]
    # ---- python side of the name table (debug / lag observation)
    out['py_names'] = [[c.name, c.index, c.rate] for c in sd._all_control_names]
    # ---- calling the definition
    if case.get('call') is not None:
        try:
            main.reset()
            sd(*case['call']['args'], **dict(case['call']['kwargs']))
            score = main.process().list
            main.reset()
            msg = next((m for t, m in score if m[0] == '/s_new' and m[1] == 'c04'), None)
            if msg is None:
                out['call'] = 'NO-S_NEW'
            else:
                rest = msg[5:]
                pairs = []
                i = 0
                while i < len(rest):
                    k = rest[i]
                    i += 1
                    if i < len(rest) and rest[i] == '[':
                        j = rest.index(']', i)
                        v = '[' + ','.join(sc(x) for x in rest[i + 1:j]) + ']'
                        i = j + 1
                    else:
                        v = sc(rest[i]) if i < len(rest) else 'MISSING'
                        i += 1
                    pairs.append(f"{ids.get(k, '?' + str(k))}={v}")
                out['call'] = ' '.join(pairs)
        except Exception as e:  # noqa
            out['call'] = 'EXC:' + type(e).__name__
            try:
                main.reset()
            except Exception:  # noqa
                pass
    return out


def run(payload):
    _init()
    res = []
    for case in payload['cases']:
        try:
            res.append(run_one(json.loads(json.dumps(case))))
        except Exception:  # noqa
            import traceback
            res.append({'infra': traceback.format_exc()[-1200:]})
    return res
