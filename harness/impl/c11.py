"""C11 implementation side: real Routine / Condition / FlowVar objects in NRT mode.

A case = {'rts': [{'gen': bool, 'inval': bool, 'script': [[act…], …]}, …], 'nc': int, 'nf': int,
          'ops': [[xop…], …]}   (tokens as in lean/Sc3Verif/C11/Driver.lean)

For every external op the runner returns
  {'line': '<result>|<log>|<snapshot>'   — the same text the Lean driver prints,
   'x': [...]}                           — extra observations for the property oracle only
                                           (states before/after each call, who was current).
Bodies are generic interpreters of the script; everything they do goes through the real
methods of the real objects.
"""
import logging

_env = {}


import sys

class BaseBoom(BaseException):
    """A BaseException that is not an Exception (like KeyboardInterrupt)."""


BASES = {'K': KeyboardInterrupt, 'S': SystemExit, 'G': GeneratorExit, 'C': BaseBoom}


def boot():
    if _env:
        return _env
    import sc3
    sc3.init('nrt', 'ERROR')
    logging.disable(logging.CRITICAL)
    from sc3.base.main import main
    from sc3.base import stream as stm
    from sc3.base import clock as clk
    _env.update(main=main, stm=stm, clk=clk)
    return _env


class Runner:
    def __init__(self, case):
        env = boot()
        self.main, self.stm, self.clk = env['main'], env['stm'], env['clk']
        main, stm = self.main, self.stm
        main.reset()
        main.current_tt = main.main_tt
        # cases must be independent: empty any mutable CLASS-level container of the classes under test
        for cls in (stm.Condition, stm.FlowVar, stm.Routine, stm.TimeThread):
            for v in vars(cls).values():
                if isinstance(v, (list, dict, set)):
                    v.clear()
        self.case = case
        self.log, self.xlog = [], []
        self.last_res = None
        runner = self

        class RR(stm.Routine):
            """Real Routine; `next` only records who called and what came back."""
            def next(self, inval=None):
                actor = runner.tt_name(main.current_tt)
                asecs = runner.cur_secs()
                me = runner.idx[id(self)]
                runner.xlog.append(['call', actor, me, self.state.name])
                try:
                    v = super().next(inval)
                    res = 'v:' + runner.enc(v)
                    return v
                except BaseException as e:
                    res = 'e:' + type(e).__name__
                    raise
                finally:
                    runner.last_res = res
                    runner.xlog.append(['ret', actor, me, res, self.state.name,
                                        runner.tt_name(main.current_tt), asecs == runner.cur_secs(),
                                        runner.tt_name(self.parent)])

        self.RR = RR
        self.R, self.idx = [], {}
        for i, spec in enumerate(case['rts']):
            r = RR(self.make_body(i, spec))
            self.R.append(r)
            self.idx[id(r)] = i
        # the case's other clock object (same logical time in NRT, different `_clock` identity)
        kind = case.get('clock', 'sys')
        self.alt = {'sys': None, 'tempo': self.clk.TempoClock(1) if kind == 'tempo' else None,
                    'app': self.clk.AppClock}.get(kind)
        # the test of a Condition 'can be a boolean or a callable that returns one': per case, the tests are plain
        # booleans or callables of one kind (function, bound method, functools.partial, object with __call__)
        # reading a flag that the `test` operations set
        self.flags = [False] * case['nc']
        self.testkind = case.get('testkind', 'bool')
        self.conds = [stm.Condition() for _ in range(case['nc'])]
        if self.testkind != 'bool':
            import functools
            flags = self.flags

            class Guard:
                def __init__(self, c):
                    self.c = c

                def holds(self):
                    return flags[self.c]

                def __call__(self):
                    return flags[self.c]
            for c, cond in enumerate(self.conds):
                cond.test = {'lambda': (lambda c=c: flags[c]), 'method': Guard(c).holds,
                             'partial': functools.partial(flags.__getitem__, c), 'object': Guard(c)}[self.testkind]
        self.fvs = [stm.FlowVar() for _ in range(case['nf'])]

    # ---- encoding -----------------------------------------------------------------------
    def enc(self, v):
        if v is None:
            return 'N'
        if v is True:
            return 'bT'
        if v is False:
            return 'bF'
        if isinstance(v, int):
            return f'n{v}'
        if isinstance(v, float) and v == int(v):
            return f'n{int(v)}'
        if v == 'hang':
            return 'H'
        if isinstance(v, tuple) and len(v) == 2 and id(v[0]) in self.idx and v[1] in (self.clk.SystemClock, self.alt):
            return f't{self.idx[id(v[0])]}'
        if v is self.stm.FlowVar._UNBOUND:
            return 'U'
        return f'X:{type(v).__name__}'

    def dec(self, tok):
        if tok == 'N':
            return None
        if tok == 'bT':
            return True
        if tok == 'bF':
            return False
        if tok == 'H':
            return 'hang'
        if tok == 'U':
            return self.stm.FlowVar._UNBOUND
        if tok[0] == 'n':
            return int(tok[1:])
        if tok[0] == 't':
            return (self.R[int(tok[1:])], self.clk.SystemClock)
        raise ValueError(tok)

    def tt_name(self, tt):
        if tt is None:
            return 'None'
        if tt is self.main.main_tt:
            return 'M'
        return f'r{self.idx.get(id(tt), "?")}'

    def cur_secs(self):
        try:
            s = self.main.current_tt._seconds
            return int(s) if s == int(s) else s
        except Exception as e:
            return f'ERR:{type(e).__name__}'

    # ---- bodies -------------------------------------------------------------------------
    def rop(self, actor, t, o):
        r = self.R[t]
        before = r.state.name
        try:
            if o == 'play' and actor == 'M' and self.alt is not None:
                r.play(self.alt)            # the outside plays on the case's other clock
            else:
                getattr(r, o)()
            refused = False
        except self.stm.RoutineException:
            refused = True
        self.xlog.append(['rop', actor, t, o, before, refused, r.state.name])
        return refused

    def set_test(self, c, v):
        self.flags[c] = v
        if self.testkind == 'bool':
            self.conds[c].test = v

    def holds(self, c):
        """What the test of condition c evaluates to, read by the harness itself (not through Condition.test)."""
        t = self.conds[c]._test
        return bool(t() if callable(t) else t)

    def fvset(self, f, v):
        try:
            self.fvs[f].value = v
            return False
        except Exception as e:
            if type(e) is not Exception:
                raise
            return True

    def make_body(self, i, spec):
        script, run, stm = spec['script'], self, self.stm

        def simple(k, a):
            op = a[0]
            if op == 'raise':
                run.xlog.append(['exit', i, 'raise'])
                raise ValueError('x')
            elif op == 'raiseb':
                run.xlog.append(['exit', i, 'raiseb', BASES[a[1]].__name__])
                raise BASES[a[1]]()
            elif op == 'rstop':
                run.xlog.append(['exit', i, 'rstop'])
                raise stm.StopStream
            elif op == 'yar':
                run.xlog.append(['exit', i, 'yar', a[1]])
                raise stm.YieldAndReset(run.dec(a[1]))
            elif op == 'ay':
                run.xlog.append(['exit', i, 'ay', a[1]])
                raise stm.AlwaysYield(run.dec(a[1]))
            elif op == 'nest' and a[2] == 'c':
                try:
                    res = 'v:' + run.enc(run.R[a[1]].next(run.dec(a[3])))
                except Exception as e:              # what user code writes: BaseExceptions pass through
                    res = 'e:' + type(e).__name__
                except BaseException as e:
                    run.xlog.append(['exit', i, 'prop', type(e).__name__])
                    raise
                run.log.append(f'nested({i},{a[1]},{res})')
            elif op == 'nest' and a[2] == 'p':
                try:
                    v = run.R[a[1]].next(run.dec(a[3]))
                except BaseException as e:
                    run.xlog.append(['exit', i, 'prop', type(e).__name__])
                    raise
                run.log.append(f'nested({i},{a[1]},v:{run.enc(v)})')
            elif op == 'rop':
                refused = run.rop(f'r{i}', a[1], a[2])
                run.log.append(f'op({i},{a[1]},{a[2]},{"R" if refused else "ok"})')
            elif op == 'sig':
                run.xlog.append(['sig', a[1]])
                run.conds[a[1]].signal()
            elif op == 'unh':
                run.xlog.append(['unh', a[1]])
                run.conds[a[1]].unhang()
            elif op == 'test':
                run.xlog.append(['test', a[1], a[2] == 'T'])
                run.set_test(a[1], a[2] == 'T')
            elif op == 'fvset':
                rebind = run.fvset(a[1], run.dec(a[2]))
                run.xlog.append(['fvset', a[1], a[2], rebind])
                if rebind:
                    run.log.append(f'rebind({i},{a[1]})')
            elif op == 'here':
                cur = 'T' if run.main.current_tt is run.R[i] else 'F'
                run.log.append(f'here({i},{cur},{run.cur_secs()})')
            else:
                raise AssertionError(f'action {a} not allowed here')

        def interp(inval, has):
            # `guard`: the whole body sits in a protected block whose clean-up section YIELDS (it waits for a
            # release) when the generator is closed. Legal Python; stop()/reset() from outside behave as for any body.
            guard = spec.get('guard')
            if guard == 'exc':
                try:
                    yield from interp0(inval, has)
                except GeneratorExit:
                    yield 'release'
                    raise
            elif guard == 'fin':
                try:
                    yield from interp0(inval, has)
                finally:
                    if isinstance(sys.exc_info()[1], GeneratorExit):
                        yield 'release'
            else:
                yield from interp0(inval, has)

        def interp0(inval, has):
            if has:
                run.log.append(f'recv({i},{run.enc(inval)})')
            for k, a in enumerate(script):
                run.xlog.append(['act', i, k])
                op = a[0]
                if op == 'y':
                    run.xlog.append(['exit', i, 'yield', a[1]])
                    got = yield run.dec(a[1])
                    run.log.append(f'recv({i},{run.enc(got)})')
                elif op == 'nest' and a[2] == 'e':
                    try:
                        v = run.R[a[1]].next(run.dec(a[3]))
                    except stm.StopStream as e:
                        run.log.append(f'nested({i},{a[1]},e:{type(e).__name__})')
                        continue
                    except BaseException as e:
                        run.xlog.append(['exit', i, 'prop', type(e).__name__])
                        raise
                    run.xlog.append(['exit', i, 'yield', run.enc(v)])
                    got = yield v
                    run.log.append(f'recv({i},{run.enc(got)})')
                elif op == 'wait':
                    run.xlog.append(['exit', i, 'wait', a[1], run.holds(a[1])])
                    yield from run.conds[a[1]].wait()
                    run.log.append(f'resumed({i})')
                elif op == 'fvget':
                    bound = run.fvs[a[1]]._value is not stm.FlowVar._UNBOUND
                    run.xlog.append(['exit', i, 'fvwait', a[1], bound])
                    v = yield from run.fvs[a[1]].value
                    run.log.append(f'resumed({i})')
                    run.xlog.append(['fvread', a[1], run.enc(v)])
                    run.log.append(f'fv({i},{a[1]},{run.enc(v)})')
                else:
                    simple(k, a)
            run.xlog.append(['exit', i, 'return'])

        def plain(inval, has):
            if has:
                run.log.append(f'recv({i},{run.enc(inval)})')
            for k, a in enumerate(script):
                run.xlog.append(['act', i, k])
                simple(k, a)
            run.xlog.append(['exit', i, 'return'])

        sig = spec.get('sig')
        if spec['gen'] and spec['inval'] and sig in ('var', 'wrap'):
            # a body with an open signature still takes inval: `def body(*args)` / a generic decorator's wrapper
            if sig == 'var':
                def body(*args):
                    yield from interp(args[0], True)
            else:
                def user_body(inval):
                    yield from interp(inval, True)

                def body(*args, **kwargs):
                    return (yield from user_body(*args, **kwargs))
        elif not spec['gen'] and spec['inval'] and sig in ('var', 'wrap'):
            def body(*args, **kwargs):
                plain(args[0], True)
        elif spec['gen']:
            if spec['inval']:
                def body(inval):
                    yield from interp(inval, True)
            else:
                def body():
                    yield from interp(None, False)
        else:
            if spec['inval']:
                def body(inval):
                    plain(inval, True)
            else:
                def body():
                    plain(None, False)
        body.__qualname__ = f'body{i}'
        return body

    # ---- external ops -------------------------------------------------------------------
    def snapshot(self):
        main, stm = self.main, self.stm
        rs = []
        for i, r in enumerate(self.R):
            term = '-' if r._terminal_value is stm.Routine._SENTINEL else self.enc(r._terminal_value)
            rs.append(f'r{i}={r.state.name}/i{0 if r._iterator is None else 1}/{self.enc(r._last_value)}/{term}'
                      f'/k{0 if r._clock is self.clk.SystemClock else 1}')
        t = main.main_tt._m_seconds
        q = ''.join(f'({int(tm) if tm == int(tm) else tm},{self.idx.get(id(ct.task), "?")}'
                    f'{"" if ct.clock is self.clk.SystemClock else "*"})'
                    for tm, ct in main._clock_scheduler.queue)
        cs = [f'c{i}={"T" if self.holds(i) else "F"}[{" ".join(str(self.idx.get(id(x), "?")) for x in c._waiting_threads)}]'
              for i, c in enumerate(self.conds)]
        fs = []
        for i, f in enumerate(self.fvs):
            v = 'U' if f._value is stm.FlowVar._UNBOUND else self.enc(f._value)
            fs.append(f'f{i}={v}[{" ".join(str(self.idx.get(id(x), "?")) for x in f.condition._waiting_threads)}]')
        return (';'.join(rs) + f'|cur={self.tt_name(main.current_tt)}|t={int(t) if t == int(t) else t}|q={q}|'
                + ';'.join(cs) + '|' + ';'.join(fs))

    def xop(self, x):
        main = self.main
        self.log, self.xlog, self.last_res = [], [], None
        op = x[0]
        res = 'v:N'
        try:
            if op == 'next':
                try:
                    res = 'v:' + self.enc(self.R[x[1]].next(self.dec(x[2])))
                except BaseException as e:          # incl. KeyboardInterrupt & co. raised by bodies
                    res = 'e:' + type(e).__name__
            elif op == 'tick':
                sched = main._clock_scheduler
                q = sched.queue
                if q.empty():
                    res = '-'
                else:
                    time, ct = q.peek()
                    self.xlog.append(['tick', self.idx.get(id(ct.task), '?'),
                                      int(time) if time == int(time) else time])
                    # exactly one iteration of the real ClockScheduler.run loop
                    calls, real_empty = [0], q.empty

                    def empty_once():
                        calls[0] += 1
                        return real_empty() if calls[0] == 1 else True
                    q.empty = empty_once
                    try:
                        sched.run()
                    except BaseException as e:      # ClockTask._wakeup only swallows Exception
                        if isinstance(e, Exception):
                            raise
                    finally:
                        del q.empty
                    res = self.last_res
            elif op == 'rop':
                if self.rop('M', x[1], x[2]):
                    res = 'e:RoutineException'
            elif op == 'sig':
                self.conds[x[1]].signal()
            elif op == 'unh':
                self.conds[x[1]].unhang()
            elif op == 'test':
                self.set_test(x[1], x[2] == 'T')
            elif op == 'fvset':
                if self.fvset(x[1], self.dec(x[2])):
                    res = 'e:Exception'
            else:
                res = 'bad-op'
        except Exception as e:           # the harness itself (or the library outside a guarded call) failed
            res = f'CRASH:{type(e).__name__}'
        line = f'{res}|{" ".join(self.log)}|{self.snapshot()}'
        out = {'line': line, 'x': self.xlog}
        # keep later ops of the same case meaningful even if the library lost the pointer
        if main.current_tt is not main.main_tt:
            main.current_tt = main.main_tt
            out['cur_repaired'] = True
        return out


CASE_TIMEOUT = 20       # wall-clock seconds for one history (normally a few ms)


class Hang(BaseException):
    pass


def _alarm(signum, frame):
    raise Hang()


def run_case(case):
    """A crash or a hang of the implementation under test is an OBSERVATION (a `CRASH:` / `HANG` result line
    for the op it happened in, and for the ops that could not be run), never a failure of the runner."""
    import signal
    outs = []
    # a generator that yields while it is closed by the garbage collector: CPython reports 'generator ignored
    # GeneratorExit' through the unraisable hook; it is not an observation of the library
    sys.unraisablehook = lambda *a: None
    signal.signal(signal.SIGALRM, _alarm)
    signal.setitimer(signal.ITIMER_REAL, CASE_TIMEOUT)
    r = None
    try:
        r = Runner(case)
        for x in case['ops']:
            outs.append(r.xop(x))
    except Hang:
        outs.append({'line': f'HANG:no answer within {CASE_TIMEOUT} s||', 'x': []})
    except BaseException as e:       # incl. failures of the snapshot itself
        outs.append({'line': f'CRASH:{type(e).__name__}:{str(e)[:80]}||', 'x': []})
    finally:
        signal.setitimer(signal.ITIMER_REAL, 0)
    while len(outs) < len(case['ops']):
        outs.append({'line': 'CRASH:not run||', 'x': []})
    # break reference cycles between generators and routines before the next case
    if r is not None:
        for rt in r.R:
            try:
                rt._iterator = None
            except Exception:
                pass
    return outs


def run_esp(case):
    """The routine that plays a pattern (EventStreamPlayer, a Routine subclass) is operated on from inside itself
    (from a value function of its pattern, while the player is Running) with clean-up entries registered.
    Observation: everything the body and the clean-up functions logged, the player's state after every next()."""
    import signal
    from sc3.seq.eventstream import EventStreamPlayer, CleanupEntry
    from sc3.seq.patterns.eventpatterns import Pbind
    from sc3.seq.patterns.listpatterns import Pseq
    from sc3.seq.patterns.funcpatterns import Pfunc
    boot()
    stm, main = _env['stm'], _env['main']
    e = case['esp']
    log, states, count, box = [], [], [0], {}

    def step():
        count[0] += 1
        n = count[0]
        for j, at in enumerate(e['reg']):
            if at == n:
                entry = CleanupEntry()          # what Pmono does with its synth
                entry.add_function(lambda j=j: log.append(f'clean-up {j}'))
        for at, op in e['ops']:
            if at == n:
                try:
                    getattr(box['player'], op)()
                    log.append(f'{op} accepted')
                except stm.RoutineException:
                    log.append(f'{op} refused')
                except Exception as ex:
                    log.append(f'{op} raised {type(ex).__name__}')
        log.append(f'event {n}')
        return n

    signal.signal(signal.SIGALRM, _alarm)
    signal.setitimer(signal.ITIMER_REAL, CASE_TIMEOUT)
    try:
        pattern = Pbind({'degree': Pseq(list(range(e['n']))), 'dur': 0.25, 'n': Pfunc(step)})
        player = box['player'] = EventStreamPlayer(stm.stream(pattern), {})
        player.mute()
        for _ in range(e['n'] + 2):
            try:
                player.next()
                states.append(player.state.name)
            except stm.StopStream as ex:
                states.append(f'{type(ex).__name__}/{player.state.name}')
            except Exception as ex:
                states.append(f'raised {type(ex).__name__}/{player.state.name}')
    except Hang:
        log.append('HANG')
    except BaseException as ex:
        log.append(f'CRASH:{type(ex).__name__}:{str(ex)[:80]}')
    finally:
        signal.setitimer(signal.ITIMER_REAL, 0)
        if main.current_tt is not main.main_tt:
            main.current_tt = main.main_tt
    return [{'line': '', 'x': [], 'esp': {'log': log, 'states': states}}]


def run(payload):
    return [run_esp(c) if c.get('kind') == 'esp' else run_case(c) for c in payload['cases']]
