"""C17 implementation side: drive the REAL client objects (Synth, Group, ParGroup, AudioBus,
ControlBus, Buffer, Server helpers, Server.bind) and capture every message/bundle at the OSC
interface (`main._osc_interface.send_msg / send_bundle` are replaced by recorders, so what is
recorded is exactly what would be encoded and put on the wire, as Python argument lists).

Each case is run twice in fresh servers: once as given and once as its "unbound twin" (bind /
end / raise tokens removed, the ops skipped by an exception skipped as well); the property
oracle compares the bundle a bind block puts on the wire with what the same ops emit one by one.

Mode ('nrt' or 'rt') comes from the payload: one process hosts one mode."""
import warnings
from fractions import Fraction

warnings.filterwarnings('ignore')

WIRE = []          # packets recorded at the interface since the last drain
CUR = {'target': None}


# ---- canonical rendering -----------------------------------------------------------------
def ren_arg(a):
    if a is None:
        return 'N'
    if a is True:
        return 'T'
    if a is False:
        return 'F'
    if isinstance(a, int):
        return f'i{a}'
    if isinstance(a, float):
        fr = Fraction(a)
        return f'f{fr.numerator}/{fr.denominator}'
    if isinstance(a, str):
        if a in ('[', ']'):
            return a
        if '/SC_' in a and a.endswith('.wav'):
            return 'sPATH'               # temporary file of load_list
        return 's' + a.replace(' ', '_')
    if isinstance(a, (bytes, bytearray)):
        return 'x' + bytes(a).hex()
    if isinstance(a, (list, tuple)):
        if isinstance(a, list) and a and isinstance(a[0], str):
            return '{' + ren_msg(a) + '}'
        return 'L(' + ' '.join(ren_arg(x) for x in a) + ')'
    return f'?{type(a).__name__}'


def ren_msg(m):
    return ' '.join([str(m[0])] + [ren_arg(a) for a in m[1:]])


def ren_time(t):
    if t is None:
        return 'N'
    fr = Fraction(t)
    return f'{fr.numerator}/{fr.denominator}'


def ren_packet(p):
    """`M <msg>`  or  `B <time> <msg> ;| <msg> ...`"""
    if p[0] == 'M':
        return 'M ' + ren_msg(p[1])
    if p[0] == 'S':                      # NetAddr.sync (the '/sync id' round trip itself is not modelled)
        return 'S'
    if p[0] == 'X':                      # sent to another server's address
        return f'X {p[1]} ' + ren_msg(p[2])
    if p[0] == 'E':                      # the real encoder rejected it
        return f'E {p[1]} ' + ren_msg(p[2])
    elems = []
    for e in p[2]:
        if isinstance(e, list) and e and isinstance(e[0], str):
            elems.append(ren_msg(e))
        else:
            elems.append('?' + repr(e))
    return f'B {ren_time(p[1])} ' + ' ;| '.join(elems)


# ---- op language -------------------------------------------------------------------------
class Parse:
    def __init__(self, toks, env):
        self.t, self.i, self.env = toks, 0, env
        self.own = False

    def handle(self):
        """the object the method is called ON (may be a freed bus/buffer)"""
        self.own = True
        try:
            return self.value()
        finally:
            self.own = False

    def get(self, kind, r):
        lst, i = self.env[kind], int(r)
        if i >= len(lst):
            raise Skip()                 # the object was never created (its creating call failed)
        return lst[i]

    def more(self):
        return self.i < len(self.t)

    def tok(self):
        x = self.t[self.i]; self.i += 1
        return x

    def value(self):
        x = self.tok()
        if x == '(':
            out = []
            while self.t[self.i] != ')':
                out.append(self.value())
            self.i += 1
            return out
        if x == 'd(':
            out = []
            while self.t[self.i] != ')':
                out.append(self.value())
            self.i += 1
            return {out[j]: out[j + 1] for j in range(0, len(out) - 1, 2)}
        if x == 'N':
            return None
        if x == 'T':
            return True
        if x == 'F':
            return False
        if x == 'S':
            return self.env['server']
        c, r = x[0], x[1:]
        if c == 'i':
            return int(r)
        if c == 'f':
            return float(Fraction(r))
        if c == 's':
            return r
        if c == 'b':
            b = self.get('buses', r)
            if b.index is None and not self.own:
                raise Skip()             # a freed bus is not passed as an argument (use after free)
            return b
        if c == 'u':
            u = self.get('bufs', r)
            if u.bufnum is None and not self.own:
                raise Skip()
            return u
        if c == 'n':
            return self.get('nodes', r)
        if c == 'm':
            from sc3.synth.bus import BusException
            b = self.get('buses', r)
            try:
                return b.as_map()        # a freed bus must refuse (BusException): then the call is not made
            except BusException:
                raise Skip()
        if c == 'K':
            return lambda buf, *a: ['/b_query', buf.bufnum]
        raise ValueError(f'bad token {x}')

    def rest(self):
        out = []
        while self.more():
            out.append(self.value())
        return out


class Skip(Exception):
    """op refers to a handle that does not exist (earlier op failed)"""


def run_op(line, env):
    """Execute one non-bind op on the real objects. Returns a status string."""
    from sc3.synth.node import Synth, Group, ParGroup
    from sc3.synth.bus import AudioBus, ControlBus
    from sc3.synth.buffer import Buffer
    toks = line.split()
    op = toks[0]
    try:
        p = Parse(toks[1:], env)
        s = env['server']
        if op in ('synth', 'synthp', 'grain'):
            name = p.tok(); tgt = p.value(); act = p.value(); args = p.value()
            if op == 'synth':
                x = Synth(name, args, tgt, act)
            elif op == 'synthp':
                x = Synth.new_paused(name, args, tgt, act)
            else:
                Synth.grain(name, args, tgt, act)
                return 'ok'
            env['nodes'].append(x)
            return f'ok n{x.node_id}'
        if op == 'replace':
            tgt = p.value(); name = p.tok(); args = p.value(); same = p.value()
            x = Synth.replace(tgt, name, args, same)
            env['nodes'].append(x)
            return f'ok n{x.node_id}'
        if op in ('groupc', 'pgroupc', 'synthc'):
            # the convenience constructors after/before/head/tail/replace of the receiver class
            kind = p.tok()
            cls = {'groupc': Group, 'pgroupc': ParGroup, 'synthc': Synth}[op]
            if op == 'synthc':
                name = p.tok(); tgt = p.value(); args = p.value()
                x = getattr(cls, kind)(tgt, name, args)
            else:
                tgt = p.value()
                x = getattr(cls, kind)(tgt)
            env['nodes'].append(x)
            return f'ok n{x.node_id}' + ('' if type(x) is cls else f' !class:{type(x).__name__}')
        if op == 'badmsg':
            # a message the encoder refuses (a list argument that is neither a message nor a bundle)
            s.addr.send_msg('/c17_bad', [1.5, 2])
            return 'ok'
        if op in ('group', 'pgroup'):
            tgt = p.value(); act = p.value()
            x = (Group if op == 'group' else ParGroup)(tgt, act)
            env['nodes'].append(x)
            return f'ok n{x.node_id}'
        if op == 'register':
            p.value().register(); return 'ok'
        if op in ('nfree', 'run', 'gdump'):
            n = p.value(); flag = p.value()
            if op == 'nfree':
                n.free(flag)
            elif op == 'run':
                n.run(flag)
            else:
                n.dump_tree(flag)
            return 'ok'
        if op in ('map', 'mapa', 'mapn', 'mapan', 'set', 'setn', 'fill'):
            n = p.value()
            getattr(n, op)(*p.rest())
            return 'ok'
        if op == 'release':
            n = p.value(); n.release(p.value()); return 'ok'
        if op in ('trace', 'nquery', 'gfreeall', 'gdeep'):
            n = p.value()
            getattr(n, {'trace': 'trace', 'nquery': 'query', 'gfreeall': 'free_all',
                        'gdeep': 'deep_free'}[op])()
            return 'ok'
        if op in ('movb', 'mova', 'movh', 'movt'):
            n = p.value(); t = p.value()
            getattr(n, {'movb': 'move_before', 'mova': 'move_after', 'movh': 'move_to_head',
                        'movt': 'move_to_tail'}[op])(t)
            return 'ok'
        if op == 'sget':
            n = p.value(); n.get(p.value(), lambda *a: None); return 'ok'
        if op == 'sgetn':
            n = p.value(); n.getn(p.value(), p.value(), lambda *a: None); return 'ok'
        if op == 'reorder':
            act = p.value(); tgt = p.value()
            s.reorder(p.rest(), tgt, act); return 'ok'
        if op == 'freedg':
            s.free_default_group(p.value()); return 'ok'
        if op in ('abus', 'cbus'):
            ch = p.value()
            b = (AudioBus if op == 'abus' else ControlBus)(ch, s)
            env['buses'].append(b)
            return f'ok b{b.index}'
        if op in ('abusx', 'cbusx'):
            ch = p.value(); idx = p.value()
            b = (AudioBus if op == 'abusx' else ControlBus)(ch, s, idx)
            env['buses'].append(b)
            return f'ok b{b.index}'
        if op == 'subbus':
            b = p.handle(); off = p.value(); ch = p.value()
            nb = b.sub_bus(off, ch)
            env['buses'].append(nb)
            return f'ok b{nb.index}'
        if op in ('bread', 'bloadlist', 'ballocread', 'bcue'):
            u = p.handle()
            if u.bufnum is None:
                return 'skip'            # these methods have no already-freed guard (listed omission)
            if op == 'bread':
                u.read('/tmp/c17in.wav', p.value(), p.value(), p.value(), p.value())
            elif op == 'bloadlist':
                u.load_list([0.5, 0.25], p.value())
                try:
                    import os
                    os.unlink(u.path)
                except Exception:
                    pass
            elif op == 'ballocread':
                u.alloc_read('/tmp/c17in.wav', p.value(), p.value(), p.value())
            else:
                u.cue('/tmp/c17in.wav', p.value(), p.value())
            return 'ok'
        if op == 'bwrite':
            u = p.handle(); hdr = p.value()
            u.write('/tmp/c17out', hdr, 'int24', p.value(), p.value(), p.value(), p.value())
            return 'ok'
        if op == 'busfree':
            p.handle().free(); return 'ok'
        if op in ('cset', 'cpairs'):
            b = p.handle()
            getattr(b, {'cset': 'set', 'cpairs': 'set_pairs'}[op])(*p.rest()); return 'ok'
        if op == 'csetn':
            b = p.handle(); b.setn(p.value()); return 'ok'
        if op == 'csetat':
            b = p.handle(); off = p.value(); b.set_at(off, *p.rest()); return 'ok'
        if op == 'csetnat':
            b = p.handle(); off = p.value(); b.setn_at(off, p.value()); return 'ok'
        if op == 'cfill':
            b = p.handle(); b.fill(p.value(), p.value()); return 'ok'
        if op == 'cclear':
            p.handle().clear(); return 'ok'
        if op == 'cget':
            p.handle().get(lambda *a: None); return 'ok'
        if op == 'cgetn':
            b = p.handle(); b.getn(p.value(), lambda *a: None); return 'ok'
        if op == 'buf':
            fr = p.value(); ch = p.value(); c = p.value()
            u = Buffer(fr, ch, s, None, c)
            env['bufs'].append(u); return f'ok u{u.bufnum}'
        if op == 'bufnc':
            fr = p.value(); ch = p.value(); c = p.value()
            u = Buffer(fr, ch, s, None, c, cache=False)
            env['bufs'].append(u); return f'ok u{u.bufnum}'
        if op == 'bufx':
            fr = p.value(); ch = p.value(); num = p.value(); c = p.value()
            u = Buffer(fr, ch, s, num, c)
            env['bufs'].append(u); return f'ok u{u.bufnum}'
        if op == 'bufna':
            fr = p.value(); ch = p.value()
            u = Buffer(fr, ch, s, alloc=False)
            env['bufs'].append(u); return f'ok u{u.bufnum}'
        if op == 'balloc':
            u = p.handle(); u.alloc(p.value()); return 'ok'
        if op == 'bufcons':
            n = p.value(); fr = p.value(); ch = p.value(); c = p.value()
            us = Buffer.new_consecutive(n, fr, ch, s, None, c)
            env['bufs'].extend(us)
            return 'ok u' + ','.join(str(u.bufnum) for u in us)
        if op == 'bufconsx':
            n = p.value(); fr = p.value(); ch = p.value(); num = p.value(); c = p.value()
            us = Buffer.new_consecutive(n, fr, ch, s, num, c)
            env['bufs'].extend(us)
            return 'ok u' + ','.join(str(u.bufnum) for u in us)
        if op in ('bfree', 'bzero', 'bclose'):
            u = p.handle()
            getattr(u, {'bfree': 'free', 'bzero': 'zero', 'bclose': 'close'}[op])(p.value())
            return 'ok'
        if op == 'bfreeall':
            Buffer.free_all(s); return 'ok'
        if op == 'bfill':
            u = p.handle(); u.fill(p.value(), p.value(), p.value()); return 'ok'
        if op in ('bset', 'bsetn'):
            u = p.handle(); getattr(u, op[1:])(*p.rest()); return 'ok'
        if op == 'bquery':
            p.handle().query(lambda *a: None); return 'ok'
        if op == 'bget':
            u = p.handle(); u.get(p.value(), lambda *a: None); return 'ok'
        if op == 'bgetn':
            u = p.handle(); u.getn(p.value(), p.value(), lambda *a: None); return 'ok'
        if op == 'bgen':
            u = p.handle(); cmd = p.tok(); args = p.value()
            u.gen(cmd, args, p.value(), p.value(), p.value()); return 'ok'
        if op in ('bsine1', 'bcheby'):
            u = p.handle(); amps = p.value()
            getattr(u, op[1:])(amps, p.value(), p.value(), p.value()); return 'ok'
        if op == 'bsine2':
            u = p.handle(); fs = p.value(); amps = p.value()
            u.sine2(fs, amps, p.value(), p.value(), p.value()); return 'ok'
        if op == 'bsine3':
            u = p.handle(); fs = p.value(); amps = p.value(); ph = p.value()
            u.sine3(fs, amps, ph, p.value(), p.value(), p.value()); return 'ok'
        if op == 'bnorm':
            u = p.handle(); u.normalize(p.value(), p.value()); return 'ok'
        if op == 'bcopy':
            u = p.handle(); d = p.value()
            u.copy_data(d, p.value(), p.value(), p.value()); return 'ok'
        return 'bad-op'
    except Skip:
        return 'skip'
    except Exception as e:
        return f'exc:{type(e).__name__}'


BUF_ALLOC_OPS = ('buf', 'bufnc', 'bufx', 'bufna', 'bufcons', 'bufconsx', 'bfree', 'bfreeall')


class Boom(Exception):
    pass


def drain():
    global WIRE
    r = ' ;; '.join(ren_packet(p) for p in WIRE)
    WIRE = []
    return r


def skip_to_end(ops, i, depth=1):
    """index just after the `end` closing `depth` open blocks, scanning from i"""
    while i < len(ops) and depth > 0:
        if ops[i] == 'bind':
            depth += 1
        elif ops[i] == 'end':
            depth -= 1
        i += 1
    return i


_UNWIND = [0]


def interpret(ops, env, binding):
    """Flat interpreter equivalent to nested `with s.bind():` blocks.  One output line per op.
    An exception (token `raise`, a client call that raises, or an exception out of a block's own
    exit) inside any block propagates through ALL enclosing blocks, as a Python exception does:
    every op up to the outermost `end` is skipped and nothing of those blocks is sent."""
    s = env['server']
    out, stack, i = [], [], 0

    def unwind(i):
        depth = len(stack)
        # what leaves the block is not always an `Exception`: a generator / routine suspended inside the
        # block that is closed raises GeneratorExit there, Ctrl-C raises KeyboardInterrupt, sys.exit
        # SystemExit.  "not at all if the block raises" covers them all.
        _UNWIND[0] += 1
        exc_cls = (Boom, GeneratorExit, KeyboardInterrupt, SystemExit)[_UNWIND[0] % 4]
        while stack:
            cm = stack.pop()
            if cm is not None:
                try:
                    cm.__exit__(exc_cls, exc_cls('x'), None)
                except Exception:
                    pass
        while i < len(ops) and depth > 0:
            if ops[i] == 'bind':
                depth += 1
                out.append('skipped |')
            elif ops[i] == 'end':
                depth -= 1
                out.append('skipped |' if depth else ('raised | ' + drain()).rstrip())
            else:
                out.append('skipped |')
            i += 1
        return i

    while i < len(ops):
        line = ops[i]
        i += 1
        if line == 'bind':
            if binding:
                cm = s.bind()
                cm.__enter__()
                stack.append(cm)
            else:
                stack.append(None)
            out.append(('ok | ' + drain()).rstrip())
            continue
        if line == 'end':
            if not stack:
                out.append('bad-end |')
                continue
            cm, st = stack.pop(), 'ok'
            if cm is not None:
                try:
                    cm.__exit__(None, None, None)
                except Exception as e:      # e.g. the size computation of send_clumped_bundles
                    st = f'exc:{type(e).__name__}'
            out.append((f'{st} | ' + drain()).rstrip())
            if st != 'ok' and stack:
                i = unwind(i)
            continue
        if line == 'sync':
            # `yield from s.sync()` of a routine (RT: Server.sync delegates to addr.sync; the real
            # NetAddr.sync is replaced by a recorder, BundleNetAddr.sync is the code under test)
            st = 'ok'
            try:
                for _ in s.addr.sync():
                    pass
            except Exception as e:
                st = f'exc:{type(e).__name__}'
            out.append((f'{st} | ' + drain()).rstrip())
            if st != 'ok' and stack:
                i = unwind(i)
            continue
        if line == 'raise':
            st, raised = 'raise', True
        else:
            st = run_op(line, env)
            raised = st.startswith('exc:')
            if line.split()[0] in BUF_ALLOC_OPS:      # show the buffer allocator's used blocks
                st += ' a' + ','.join(f'{b.start}:{b.size}' for b in s._buffer_allocator.blocks())
        out.append((f'{st} | ' + drain()).rstrip())
        if raised and stack:
            i = unwind(i)
    while stack:                       # unterminated blocks never exit: abandon them, nothing is sent
        cm = stack.pop()
        if cm is not None:
            try:
                cm.__exit__(Boom, Boom('eof'), None)
            except Exception:
                pass
    tail = drain()
    out.append(('eof | ' + tail).rstrip())
    return out


_N = [0]


def fresh_server(opts):
    from sc3.synth.server import Server, ServerOptions
    from sc3.base.netaddr import NetAddr
    o = ServerOptions()
    o.max_logins = opts.get('max_logins', 1)
    o.buffers = opts.get('buffers', 1024)
    o.audio_buses = opts.get('audio_buses', 1024)
    o.control_buses = opts.get('control_buses', 16384)
    _N[0] += 1
    s = Server(f'c17_{_N[0]}', NetAddr('127.0.0.1', 57300 + (_N[0] % 5000)), o)
    s._set_client_id(opts.get('client_id', 0))
    lat = opts.get('latency')
    s.latency = None if lat is None else float(Fraction(lat))
    s._status_watcher.sample_rate = 44100      # as reported by a running server (load_list writes a wav header)
    if opts.get('running'):              # "booted": node.register() is effective (NodeWatcher state)
        s._status_watcher._has_booted = True
        s._status_watcher._notified = True
    return s


def run_case(case, binding):
    from sc3.synth.server import Server
    from sc3.synth.buffer import Buffer
    global WIRE
    s = fresh_server(case.get('opts', {}))
    old_default = Server.default
    if case.get('opts', {}).get('default', True):
        Server.default = s           # else: a second, non-default server
    CUR['target'] = s.addr._target
    WIRE = []
    env = {'server': s, 'nodes': [], 'buses': [], 'bufs': []}
    try:
        out = interpret(case['ops'], env, binding)
        return out
    finally:
        Server.default = old_default
        try:
            Buffer._clear_server_caches(s)
        except Exception:
            pass
        try:
            Server.remove(s)
        except Exception:
            pass


def run(payload):
    import sc3
    mode = payload.get('mode', 'nrt')
    sc3.init(mode, 'CRITICAL')
    from sc3.base.main import main
    import sc3.synth._engine as eng
    real_bi = eng.bi

    class BiProxy:
        """inside _engine only: the random tie-break of the block allocator picks the candidate with
        the lowest start address (oracle index 0 of the C16 model), so a case and its unbound
        twin, NRT and RT, and the Lean model all see the same ids"""
        def __getattr__(self, name):
            return getattr(real_bi, name)

        @staticmethod
        def choice(lst):
            return sorted(lst, key=lambda b: b.start)[0]

    eng.bi = BiProxy()
    iface = main._osc_interface

    build_msg, build_bundle = iface._build_msg, iface._build_bundle

    def rec_msg(target, *args):
        if target != CUR['target']:            # a command of this server's objects on another socket
            WIRE.append(('X', f'{target[1]}', list(args)))
            return
        try:                                   # the real encoder must accept what is sent
            build_msg(0.0, list(args))
            WIRE.append(('M', list(args)))
        except Exception as e:
            WIRE.append(('E', f'{type(e).__name__}', list(args)))

    def rec_bundle(target, time, *elements):
        els = [list(e) if isinstance(e, (list, tuple)) else e for e in elements]
        if target != CUR['target']:
            WIRE.append(('X', f'{target[1]}', ['<bundle>', *els]))
            return
        try:
            dgram = build_bundle(0.0, [time, *els]).dgram
            if len(dgram) > 65504:           # NetAddr._MAX_UDP_DGRAM_SIZE: cannot be sent
                raise OverflowError(len(dgram))
            WIRE.append(('B', time, els))
        except Exception as e:
            WIRE.append(('E', f'{type(e).__name__}', ['<bundle>', *els]))

    iface.send_msg = rec_msg
    iface.send_bundle = rec_bundle

    from sc3.base.netaddr import NetAddr

    def rec_sync(self, condition=None, latency=None, elements=None):
        WIRE.append(('S', latency, elements))
        return
        yield

    NetAddr.sync = rec_sync
    res = []
    for case in payload['cases']:
        try:
            main_out = run_case(case, True)
            twin_out = run_case(case, False)
        except Exception as e:
            main_out, twin_out = [f'harness-exc:{type(e).__name__}:{e}'], []
        res.append({'wire': main_out, 'twin': twin_out})
    return res
